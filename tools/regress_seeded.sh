#!/bin/bash
# regress_seeded.sh [ids...] : apply every stored seeded change to /repo in turn, run the quick check of its
# property, undo; prints one line per change and a summary. /repo must be clean and must not be used meanwhile.
cd /verif
list="${*:-$(ls seeded)}"
det=0; miss=0
for d in $list; do
  pid=$(python3 -c "import json;print(json.load(open('/verif/seeded/$d/meta.json')).get('checked_by','${d%%-*}'))")
  out=$(./tools/run_seed.sh /verif/seeded/$d/patch.diff $pid quick)
  code=$(echo "$out" | sed -n 's/.*exit=\([0-9]*\).*/\1/p')
  if [ "$code" = "1" ]; then det=$((det+1)); else miss=$((miss+1)); fi
  echo "$d: $(echo "$out" | cut -c1-200)"
done
echo "SUMMARY detected=$det not-detected=$miss"
# replay files written by these runs are artefacts of the experiment
python3 - <<'PY'
import json,os,glob
keep={os.path.basename(f["replay"]) for f in json.load(open('/verif/KNOWN_FINDINGS.json'))["findings"] if f.get("replay")}
for f in glob.glob('/verif/replays/*.json'):
    if os.path.basename(f) not in keep: os.remove(f)
PY
