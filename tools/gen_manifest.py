#!/usr/bin/env python3
"""Generates /verif/MANIFEST.json from the table below (kept in one place so the manifest is
always schema-valid). Run: python3 tools/gen_manifest.py"""
import json, os, subprocess

HERE = os.path.dirname(os.path.dirname(os.path.abspath(__file__)))

TRUST = ("soroban native test host semantics (soroban-env-host 25.0.1: rollback, authorization matching, "
         "temporary-entry expiry with min_temp_entry_ttl=1); the Rust reference model/monitor of the check; "
         "bounded universe, alphabet and depth as stated in the evidence file")

# tools/checks.json: id -> {category, technique, text, design_ref, note}
CHECKS = {k: (v["category"], v["technique"], v["text"], v["design_ref"], v.get("note", ""))
          for k, v in json.load(open(os.path.join(HERE, "tools", "checks.json"))).items()}
NOT_YET = {}

def main():
    props = [json.loads(l) for l in open(os.path.join(HERE, "properties.jsonl"))]
    ids = [p["id"] for p in props]
    checks = []
    for pid in ids:
        if pid not in CHECKS:
            continue
        cat, tech, text, ref, note = CHECKS[pid]
        checks.append({
            "property_id": pid,
            "quick_cmd": f"./check {pid} quick",
            "thorough_cmd": f"./check {pid} thorough",
            "evidence_file": f"/verif/evidence/{pid}.json",
            "replay_cmd_template": f"./check {pid} --replay {{path}}",
            "engine": "vh-bfs",
            "level_claimed": {"category": cat, "text": text, "design_ref": ref},
            "level_note": TRUST + ((" ; " + note) if note else ""),
            "technique": tech,
        })
    na = [{"property_id": pid, "reason": NOT_YET.get(pid, "check not built yet in this revision of /verif (planned, see DESIGN.md §3); no verdict is claimed")}
          for pid in ids if pid not in CHECKS]
    m = {
        "version": 1,
        "setup_cmd": "cd /verif/harness && CARGO_NET_OFFLINE=true RUSTUP_TOOLCHAIN=stable-x86_64-unknown-linux-gnu cargo build --release --offline --bins",
        "hooks": {
            "guard": "openzeppelin_stellar_contracts_verif",
            "enable": "no hooks are needed: all observation points are public API of the contracts and of the soroban test host; the guard name is reserved and unused",
            "baseline_off_cmd": "cd /repo && RUSTUP_TOOLCHAIN=stable-x86_64-unknown-linux-gnu cargo test --workspace --no-fail-fast --offline",
            "source_commits": [],
            "add_only": True,
        },
        "engines": [{
            "name": "vh-bfs",
            "path": "/verif/harness",
            "serves_properties": [c["property_id"] for c in checks],
            "kind_free_text": "deterministic parallel level-BFS over operation histories of the real contracts in the native soroban test host; state = canonical digest of all contract storage (+ledger, + model components storage does not determine); reference model / monitor compared on every transition; authorization-subset probes under enforcing auth; exhaustive stateless enumerations for pure functions",
        }],
        "checks": checks,
        "notes": "Exit codes of every command: 0 held, 1 VIOLATION line printed, 2 machinery failure (build error, vacuous exploration, determinism self-test). Known findings: /verif/KNOWN_FINDINGS.json.",
        "not_applicable": na,
    }
    json.dump(m, open(os.path.join(HERE, "MANIFEST.json"), "w"), indent=1)
    print("checks:", [c["property_id"] for c in checks], "not claimed:", [x["property_id"] for x in na])

if __name__ == "__main__":
    main()
