#!/bin/bash
# verify_seed.sh <worktree> <mutant-dir-name> : confirm a seeded change in its scratch worktree
#   1. patch applies, workspace suite passes with it (no demo present)
#   2. demo test fails with the patch
#   3. demo test passes without the patch
# prints a one-line verdict and writes <worktree>/OUT/<m>/verified.json
set -u
wt="$1"; m="$2"; out="$wt/OUT/$m"
export RUSTUP_TOOLCHAIN=stable-x86_64-unknown-linux-gnu CARGO_TARGET_DIR=${SEED_TARGET:-/tmp/seedverify-target} CARGO_NET_OFFLINE=true
cd "$wt" || exit 2
git checkout -q -- . ; git clean -fdq -e OUT
git apply "$out/patch.diff" || { echo "$wt $m: PATCH DOES NOT APPLY"; exit 1; }
suite=$(cargo test --workspace --offline 2>&1 | grep -E "^test result|FAILED|failed|^error" )
nfail=$(echo "$suite" | grep -cE "FAILED|^error|[^0-9][1-9][0-9]* failed;")
nok=$(echo "$suite" | grep -c "^test result: ok")
git checkout -q -- . ; git clean -fdq -e OUT -e target
# demo with patch
git apply "$out/patch.diff"; git apply "$out/demo.diff" || { echo "$wt $m: DEMO DOES NOT APPLY"; git checkout -q -- .; git clean -fdq -e OUT; exit 1; }
demo_cmd=$(python3 -c "import json;print(json.load(open('$out/meta.json'))['demo_test'])")
demo_cmd=$(echo "$demo_cmd" | sed -E "s#CARGO_TARGET_DIR=[^ ]+##; s#RUSTUP_TOOLCHAIN=[^ ]+##; s#cd [^ ]+ && ##")
with=$(bash -c "$demo_cmd" 2>&1 | grep -E "^test result" | tail -1)
git apply -R "$out/patch.diff"
without=$(bash -c "$demo_cmd" 2>&1 | grep -E "^test result" | tail -1)
git checkout -q -- . ; git clean -fdq -e OUT
fails_with=$(echo "$with" | grep -c "FAILED")
passes_without=$(echo "$without" | grep -c "^test result: ok")
python3 - <<PY
import json
json.dump({"suite_ok_lines": $nok, "suite_fail_markers": $nfail, "demo_with_patch": """$with""", "demo_without_patch": """$without""",
 "confirmed": bool($nok>0 and $nfail==0 and $fails_with>=1 and $passes_without>=1), "demo_cmd": """$demo_cmd"""}, open("$out/verified.json","w"), indent=1)
PY
echo "$wt $m: suite ok-lines=$nok fail-markers=$nfail | demo with patch: $with | without: $without"
