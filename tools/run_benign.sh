#!/bin/bash
# run_benign.sh <patch.diff> <own-property> : apply a property-preserving change to /repo and run the quick
# check of its own property plus of every property anchored in a file the patch touches; undo afterwards.
set -u
patch="$1"; own="$2"
cd /repo || exit 2
if ! git diff --quiet; then echo "REFUSING: /repo has uncommitted changes"; exit 2; fi
git apply "$patch" || { echo "$own: patch does not apply"; exit 2; }
files=$(git diff --name-only)
props=$(python3 - "$own" $files <<'PY'
import json,sys
own=sys.argv[1]; files=set(sys.argv[2:])
out=[own]
for l in open('/verif/properties.jsonl'):
    p=json.loads(l)
    if p['id']!=own and files & set(p['anchors']['files']): out.append(p['id'])
print(" ".join(out))
PY
)
res=""
for p in $props; do
  log=$(mktemp /tmp/benrun.XXXXXX)
  ( cd /verif && ./check "$p" quick ) > "$log" 2>&1
  c=$?
  res="$res $p=$c"
  if [ $c -ne 0 ]; then res="$res[$(grep -m1 -E '^  oracle=|MACHINERY-ERROR' "$log" | cut -c1-150) log=$log]"; else rm -f "$log"; fi
done
git -C /repo checkout -q -- .
echo "$(basename $(dirname $patch)) ($own):$res"
