#!/usr/bin/env python3
"""Regenerates the table of seeded changes in DESIGN.md §8 from /verif/seeded/*/meta.json."""
import json, os, re
HERE = os.path.dirname(os.path.dirname(os.path.abspath(__file__)))
rows = []
n = late = 0
for d in sorted(os.listdir(os.path.join(HERE, 'seeded')), key=lambda x: (x.split('-')[0], int(x.split('-m')[1]))):
    m = json.load(open(os.path.join(HERE, 'seeded', d, 'meta.json')))
    need = m.get('what_it_needs_to_manifest', '').replace('|', '/').replace('\n', ' ')
    if len(need) > 240:
        need = need[:237] + '…'
    files = ", ".join(sorted({os.path.basename(f) for f in m.get('files_changed', [])}))
    cr = m['check_run']
    mark = ' ▲' if m.get('history') else ''
    n += 1
    late += 1 if m.get('history') else 0
    rows.append(f"| `{d}`{mark} ({files}) | {need} | `{cr['reported_oracle']}` in {cr['world']} |")
table = "| seeded change | what it needs | reported by (oracle, world) |\n|---|---|---|\n" + "\n".join(rows) + "\n"
p = os.path.join(HERE, 'DESIGN.md')
s = open(p).read()
b, e = '<!-- SEEDED-TABLE-BEGIN -->\n', '<!-- SEEDED-TABLE-END -->\n'
assert b in s and e in s
s = s[:s.index(b) + len(b)] + table + s[s.index(e):]
open(p, 'w').write(s)
print(f"{n} seeded changes, {late} detected only after a strengthening")
