#!/bin/bash
# run_seed.sh <patch.diff> <PROPERTY> [tier] : apply a seeded change to /repo, run the check, undo.
# prints: <property> <tier> exit=<code> <first VIOLATION/KNOWN/MACHINERY line>
set -u
patch="$1"; prop="$2"; tier="${3:-quick}"
cd /repo || exit 2
if ! git diff --quiet; then echo "REFUSING: /repo has uncommitted changes"; exit 2; fi
git apply "$patch" || { echo "$prop: patch does not apply"; exit 2; }
log=$(mktemp /tmp/seedrun.XXXXXX)
( cd /verif && ./check "$prop" "$tier" ) > "$log" 2>&1
code=$?
git -C /repo checkout -q -- .
first=$(grep -m1 -E "^VIOLATION|^MACHINERY|MACHINERY-ERROR" "$log")
oracle=$(grep -m1 -E "^  oracle=" "$log")
echo "$prop $tier exit=$code | $oracle | $first | log=$log"
