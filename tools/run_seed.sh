#!/bin/bash
# run_seed.sh <patch.diff> <PROPERTY> [tier] : apply a seeded change to /repo, run the check, undo.
# prints: <property> <tier> exit=<code> <first VIOLATION/KNOWN/MACHINERY line>
set -u
patch="$1"; prop="$2"; tier="${3:-quick}"
cd /repo || exit 2
if ! git diff --quiet; then echo "REFUSING: /repo has uncommitted changes"; exit 2; fi
git apply "$patch" || { echo "$prop: patch does not apply"; exit 2; }
log=$(mktemp /tmp/seedrun.XXXXXX)
# the evidence file describes the unchanged tree: keep it out of the way of the run on the changed tree
keep=$(mktemp /tmp/evkeep.XXXXXX); cp /verif/evidence/$prop.json "$keep" 2>/dev/null
( cd /verif && ./check "$prop" "$tier" ) > "$log" 2>&1
code=$?
git -C /repo checkout -q -- .
cp "$keep" /verif/evidence/$prop.json 2>/dev/null; rm -f "$keep"
# replay files written for the changed tree are scratch
for r in $(grep -oE "replay=/verif/replays/[A-Za-z0-9-]+\.json" "$log" | cut -d= -f2 | sort -u); do
  git -C /verif ls-files --error-unmatch "$r" >/dev/null 2>&1 || rm -f "$r"
done
git -C /verif checkout -q -- replays
first=$(grep -m1 -E "^VIOLATION|^MACHINERY|MACHINERY-ERROR" "$log")
oracle=$(grep -m1 -E "^  oracle=" "$log")
echo "$prop $tier exit=$code | $oracle | $first | log=$log"
