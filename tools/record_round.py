#!/usr/bin/env python3
"""record_round.py <run_round output file> [history.json] : write check_run (and history) into the
meta.json of every seeded change listed in the output of tools/run_round.sh."""
import json, re, sys
hist = json.load(open(sys.argv[2])) if len(sys.argv) > 2 else {}
for l in open(sys.argv[1]):
    mm = re.match(r"(m\d+) (C\d\d) (\w+) exit=(\d+) \|\s*(?:oracle=(\S+) world=(.*?) seed=.*?)?\|", l)
    if not mm:
        continue
    m, p, tier, code, oracle, world = mm.groups()
    d = f"/verif/seeded/{p}-{m}/meta.json"
    j = json.load(open(d))
    j["check_run"] = {"command": f"tools/run_seed.sh seeded/{p}-{m}/patch.diff {p} {tier}", "exit": int(code), "reported_oracle": oracle, "world": world, "detected": code == "1" and oracle is not None}
    if f"{p}-{m}" in hist:
        j["history"] = hist[f"{p}-{m}"]
    json.dump(j, open(d, "w"), indent=1)
    print(p, m, j["check_run"]["detected"], oracle)
