#!/bin/bash
# verify_round.sh <worktree-prefix> <mA> <mB> <ids...> : confirm the two seeded changes of each listed
# property in its scratch worktree (<prefix>-<id>), in parallel; logs in /tmp/vlog/<id>.log
pre="$1"; a="$2"; b="$3"; shift 3
mkdir -p /tmp/vlog
for id in "$@"; do
  (SEED_TARGET=$pre-$id/target nohup bash -c "/verif/tools/verify_seed.sh $pre-$id $a; /verif/tools/verify_seed.sh $pre-$id $b" > /tmp/vlog/$id.log 2>&1 &)
done
