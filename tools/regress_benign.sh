#!/bin/bash
# regress_benign.sh [dirs...] : apply every stored property-preserving change to /repo in turn and run the
# quick checks it concerns (tools/run_benign.sh); every run must exit 0. Evidence files are put back afterwards.
cd /verif
list="${*:-$(ls benign)}"
keep=$(mktemp -d /tmp/evkeep.XXXXXX); cp evidence/*.json "$keep"/
bad=0; n=0
for d in $list; do
  pid=${d%%-*}
  out=$(./tools/run_benign.sh /verif/benign/$d/patch.diff $pid)
  n=$((n+1))
  echo "$out" | cut -c1-400
  if echo "$out" | grep -qE "=[1-9]"; then bad=$((bad+1)); fi
done
cp "$keep"/*.json evidence/; rm -rf "$keep"
git -C /verif checkout -q -- replays
echo "SUMMARY benign changes=$n with-a-non-zero-exit=$bad"
