#!/usr/bin/env python3
"""store_round.py <worktree-prefix> <round> <mA> <mB> <ids...> : copy confirmed seeded changes
(<prefix>-<id>/OUT/<m>/{patch.diff,demo.diff,meta.json,verified.json}) to /verif/seeded/<id>-<m>/."""
import json, os, shutil, sys
pre, rnd, a, b, ids = sys.argv[1], int(sys.argv[2]), sys.argv[3], sys.argv[4], sys.argv[5:]
for pid in ids:
    for m in (a, b):
        src = f"{pre}-{pid}/OUT/{m}/"
        v = json.load(open(src + "verified.json"))
        if not v["confirmed"]:
            print("NOT CONFIRMED", src); continue
        d = f"/verif/seeded/{pid}-{m}"
        os.makedirs(d, exist_ok=True)
        for f in ("patch.diff", "demo.diff"):
            shutil.copy(src + f, d)
        meta = json.load(open(src + "meta.json"))
        meta["round"] = rnd
        meta["produced_by"] = "fresh sub-agent given only the property text, the list of mechanisms used in earlier rounds to avoid, and a scratch git worktree of the repository (no access to /verif)"
        meta["confirmed_by_me_in_scratch_worktree"] = {
            "workspace_suite_with_patch": "%d 'test result: ok' lines, %d failure markers" % (v["suite_ok_lines"], v["suite_fail_markers"]),
            "demo_with_patch": v["demo_with_patch"], "demo_without_patch": v["demo_without_patch"],
            "how": "tools/verify_seed.sh <worktree> <mN>"}
        json.dump(meta, open(d + "/meta.json", "w"), indent=1)
        print("stored", d)
