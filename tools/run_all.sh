#!/bin/bash
# run_all.sh <tier> [ids...] : run checks sequentially, one summary line each (log: /tmp/<tier>-C<NN>.log)
tier="${1:-quick}"; shift
ids="${*:-01 02 03 04 05 06 07 08 09 10 11 12 13 14 15 16 17 18 19 20}"
cd /verif
for n in $ids; do s=$(date +%s); ./check C$n $tier > /tmp/$tier-C$n.log 2>&1; c=$?; echo "C$n exit=$c $(( $(date +%s)-s ))s | $(tail -1 /tmp/$tier-C$n.log | cut -c1-170)"; done
