#!/bin/bash
# run_round.sh <mA> <mB> [ids...] : run the quick check of each property against its two stored seeded changes
a="$1"; b="$2"; shift 2
ids=("$@"); [ ${#ids[@]} -eq 0 ] && ids=(C01 C02 C03 C04 C05 C06 C07 C08 C09 C10 C11 C12 C13 C14 C15 C16 C17 C18 C19 C20)
for id in "${ids[@]}"; do for m in $a $b; do /verif/tools/run_seed.sh /verif/seeded/$id-$m/patch.diff $id quick | sed "s/^/$m /"; done; done
