//! Shared engine of the /verif model-checking harness (DESIGN.md §2).
//!
//! * `envx`    – construction of deterministic soroban test environments, canonical storage
//!               digest, ledger stepping.
//! * `auth`    – recording of demanded authorizations and replay under enforcing authorization
//!               with exact subsets of principals (DESIGN §2.5).
//! * `engine`  – deterministic level-BFS over operation histories of the real contracts.
//! * `report`  – evidence / replay / known-findings handling and the process exit protocol.

pub mod auth;
pub mod cli;
pub mod engine;
pub mod envx;
pub mod ev;
pub mod report;

pub use engine::{explore, Bounds, StepCtx, Violation, World};
pub use report::{Report, Tier};
