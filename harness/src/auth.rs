//! Authorization probes (DESIGN §2.5): what `mock_all_auths` hides.
//!
//! After a call that succeeded in recording mode the host reports the exact invocation trees it
//! demanded. `variants` derives from them the sets the call is re-run with under *enforcing*
//! authorization: the full set (must succeed), the set with one demanded principal removed
//! (must fail), the set in which a bystander signs the very same tree in place of the demanded
//! principal (must fail). Principals are backed by the SDK's always-approving account contract
//! (`back`), so an entry is accepted exactly when the host matches its tree.

use soroban_sdk::testutils::MockAuthContract;
use soroban_sdk::xdr::{
    ScAddress, ScVal, SorobanAddressCredentials, SorobanAuthorizationEntry, SorobanAuthorizedInvocation,
    SorobanCredentials,
};
use soroban_sdk::{Address, Env, TryFromVal};
use std::cell::Cell;

pub type Rec = (ScAddress, SorobanAuthorizedInvocation);

thread_local! { static NONCE: Cell<i64> = const { Cell::new(1_000_000) }; }

/// Register the always-approving account contract at `a` (a contract-type address).
pub fn back(e: &Env, a: &Address) {
    e.register_at(a, MockAuthContract, ());
}

/// The authorizations demanded by the last top-level invocation (recording mode).
pub fn recorded(e: &Env) -> Vec<Rec> {
    e.host().get_authenticated_authorizations().expect("auths")
}

pub fn sc(a: &Address) -> ScAddress {
    ScAddress::try_from(a).expect("sc address")
}

pub fn addr(e: &Env, a: &ScAddress) -> Address {
    Address::try_from_val(e, &ScVal::Address(a.clone())).expect("address")
}

/// Distinct demanded principals in order of first appearance.
pub fn principals(recs: &[Rec]) -> Vec<ScAddress> {
    let mut v: Vec<ScAddress> = Vec::new();
    for (a, _) in recs {
        if !v.contains(a) {
            v.push(a.clone());
        }
    }
    v
}

pub fn entry(e: &Env, a: &ScAddress, inv: &SorobanAuthorizedInvocation) -> SorobanAuthorizationEntry {
    entry_with_sig(e, a, inv, ScVal::Void)
}

/// Authorization entry for a custom account: `sig` is handed to its `__check_auth` as the signature.
pub fn entry_with_sig(e: &Env, a: &ScAddress, inv: &SorobanAuthorizedInvocation, sig: ScVal) -> SorobanAuthorizationEntry {
    let nonce = NONCE.with(|n| {
        n.set(n.get() + 1);
        n.get()
    });
    SorobanAuthorizationEntry {
        credentials: SorobanCredentials::Address(SorobanAddressCredentials {
            address: a.clone(),
            nonce,
            signature_expiration_ledger: e.ledger().sequence().saturating_add(1000),
            signature: sig,
        }),
        root_invocation: inv.clone(),
    }
}

/// Switch the environment to enforcing authorization with exactly these entries.
pub fn enforce(e: &Env, recs: &[Rec]) {
    let entries: Vec<SorobanAuthorizationEntry> = recs.iter().map(|(a, i)| entry(e, a, i)).collect();
    e.set_auths(&entries);
}

#[derive(Clone, Debug)]
pub struct Variant {
    pub label: String,
    pub recs: Vec<Rec>,
    pub expect_ok: bool,
}

/// Full set, every single-principal drop, every single-principal replacement by `bystander`.
pub fn variants(e: &Env, recs: &[Rec], bystander: Option<&Address>) -> Vec<Variant> {
    let mut out = vec![Variant { label: "full".into(), recs: recs.to_vec(), expect_ok: true }];
    for p in principals(recs) {
        let name = format!("{:?}", addr(e, &p));
        out.push(Variant {
            label: format!("drop {name}"),
            recs: recs.iter().filter(|(a, _)| *a != p).cloned().collect(),
            expect_ok: false,
        });
        if let Some(b) = bystander {
            let bs = sc(b);
            if bs != p && !recs.iter().any(|(a, _)| *a == bs) {
                out.push(Variant {
                    label: format!("bystander signs for {name}"),
                    recs: recs.iter().map(|(a, i)| if *a == p { (bs.clone(), i.clone()) } else { (a.clone(), i.clone()) }).collect(),
                    expect_ok: false,
                });
            }
        }
    }
    out
}

/// Printable principal names of a record list.
pub fn names(e: &Env, recs: &[Rec]) -> Vec<String> {
    principals(recs).iter().map(|p| format!("{:?}", addr(e, p))).collect()
}

// ------------------------------------------------------------------------------------------
// Dynamic calls (by function name) under an exact authorization set.

use soroban_sdk::xdr::{InvokeContractArgs, ScSymbol, ScVec, SorobanAuthorizedFunction, VecM};
use soroban_sdk::{Symbol, Val, Vec as SVec};

#[derive(Clone, Debug, PartialEq, Eq)]
pub enum CallErr {
    /// the contract failed with this contract error code
    Contract(u32),
    /// any other failure (host error, auth failure, panic, trap)
    Other(String),
}

pub type CallRes = Result<Val, CallErr>;

/// Invocation tree consisting of the single root call `c.f(args)`.
pub fn invocation(e: &Env, c: &Address, f: &str, args: &SVec<Val>) -> SorobanAuthorizedInvocation {
    let mut v: Vec<ScVal> = vec![];
    for a in args.iter() {
        v.push(ScVal::try_from_val(e, &a).expect("scval"));
    }
    SorobanAuthorizedInvocation {
        function: SorobanAuthorizedFunction::ContractFn(InvokeContractArgs {
            contract_address: sc(c),
            function_name: ScSymbol(f.try_into().expect("symbol")),
            args: ScVec(VecM::try_from(v).expect("vecm")).0,
        }),
        sub_invocations: VecM::default(),
    }
}

fn classify(r: Result<Result<Val, soroban_sdk::ConversionError>, Result<soroban_sdk::Error, soroban_sdk::InvokeError>>) -> CallRes {
    match r {
        Ok(Ok(v)) => Ok(v),
        Ok(Err(_)) => Err(CallErr::Other("conversion".into())),
        Err(Ok(err)) => {
            if err.is_type(soroban_sdk::xdr::ScErrorType::Contract) {
                Err(CallErr::Contract(err.get_code()))
            } else {
                Err(CallErr::Other(format!("{err:?}")))
            }
        }
        Err(Err(ie)) => Err(CallErr::Other(format!("{ie:?}"))),
    }
}

/// Call `c.f(args)` under enforcing authorization with exactly these (already built) entries.
pub fn call_entries(e: &Env, c: &Address, f: &str, args: SVec<Val>, entries: &[SorobanAuthorizationEntry]) -> CallRes {
    e.set_auths(entries);
    classify(e.try_invoke_contract::<Val, soroban_sdk::Error>(c, &Symbol::new(e, f), args))
}

/// Call `c.f(args)` with recording ("mock all") authorization.
pub fn call_mocked(e: &Env, c: &Address, f: &str, args: SVec<Val>) -> CallRes {
    e.mock_all_auths();
    classify(e.try_invoke_contract::<Val, soroban_sdk::Error>(c, &Symbol::new(e, f), args))
}

/// Call `c.f(args)` under enforcing authorization where exactly `signers` have each signed the
/// root invocation `c.f(args)` (no sub-invocations).
pub fn call_signed(e: &Env, c: &Address, f: &str, args: SVec<Val>, signers: &[Address]) -> CallRes {
    let inv = invocation(e, c, f, &args);
    let recs: Vec<Rec> = signers.iter().map(|s| (sc(s), inv.clone())).collect();
    enforce(e, &recs);
    classify(e.try_invoke_contract::<Val, soroban_sdk::Error>(c, &Symbol::new(e, f), args))
}

/// Call `c.f(args)` under enforcing authorization with exactly the given recorded entries.
pub fn call_with(e: &Env, c: &Address, f: &str, args: SVec<Val>, recs: &[Rec]) -> CallRes {
    enforce(e, recs);
    classify(e.try_invoke_contract::<Val, soroban_sdk::Error>(c, &Symbol::new(e, f), args))
}

/// Read-only call (no authorization context needed).
pub fn view(e: &Env, c: &Address, f: &str, args: SVec<Val>) -> CallRes {
    classify(e.try_invoke_contract::<Val, soroban_sdk::Error>(c, &Symbol::new(e, f), args))
}
