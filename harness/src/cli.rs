//! Common `main` of the property binaries: `<tier>` explores, `--replay <file>` re-executes a
//! recorded counterexample against the world whose name is stored in the file.

use crate::engine::{explore, replay, Bounds, World};
use crate::report::{parse_args, read_replay, run_main, Mode, ReplayFile, Report, Tier};

pub enum Runner {
    Explore(Report),
    Replay { file: ReplayFile, done: bool, last_err: Option<String> },
}

impl Runner {
    pub fn world<W: World>(&mut self, w: &W, b: &Bounds) {
        match self {
            Runner::Explore(rep) => explore(w, b, rep),
            Runner::Replay { file, done, last_err } => {
                if *done || w.name() != file.world {
                    return;
                }
                match replay(w, file.seed, &file.history) {
                    Ok(()) => *done = true,
                    Err(e) => *last_err = Some(e),
                }
            }
        }
    }
    /// The report, when exploring (for stateless enumerations and extra notes).
    pub fn report(&mut self) -> Option<&mut Report> {
        match self {
            Runner::Explore(r) => Some(r),
            _ => None,
        }
    }
    /// The stateless case to replay, if the replay file holds one for `world`.
    pub fn replay_case(&mut self, world: &str) -> Option<String> {
        match self {
            Runner::Replay { file, done, .. } if !*done && file.world == world => {
                *done = true;
                file.case.clone()
            }
            _ => None,
        }
    }
    pub fn exploring(&self) -> bool {
        matches!(self, Runner::Explore(_))
    }
}

/// `body(tier, runner)` declares the worlds (and stateless enumerations) of the property.
pub fn main_with(
    property: &'static str,
    level: &'static str,
    rule: &'static str,
    body: impl Fn(Tier, &mut Runner),
) -> ! {
    run_main(std::panic::AssertUnwindSafe(move || match parse_args() {
        Mode::Run(tier) => {
            let mut rep = Report::new(property, tier, level);
            rep.rule(rule);
            let mut r = Runner::Explore(rep);
            body(tier, &mut r);
            let Runner::Explore(rep) = r else { unreachable!() };
            rep.finish()
        }
        Mode::Replay(path) => {
            let file = read_replay(&path);
            let mut r = Runner::Replay { file, done: false, last_err: None };
            for t in [Tier::Quick, Tier::Thorough] {
                body(t, &mut r);
                if let Runner::Replay { done: true, .. } = r {
                    return 0;
                }
            }
            if let Runner::Replay { last_err, file, .. } = r {
                eprintln!("replay failed: {}", last_err.unwrap_or(format!("no world named {}", file.world)));
            }
            2
        }
    }))
}
