//! Deterministic environments and canonical storage digests.

use sha2::{Digest, Sha256};
use soroban_sdk::testutils::{Ledger as _, LedgerInfo};
use soroban_sdk::xdr::{ContractDataDurability, LedgerEntryData, LedgerKey, Limits, ScVal, WriteXdr};
use soroban_sdk::testutils::EnvTestConfig;
use soroban_sdk::Env;

/// Persistent entries must never be archived inside an explored horizon.
pub const PERSISTENT_TTL: u32 = 3_000_000;
pub const MAX_ENTRY_TTL: u32 = 3_110_400;

/// A fresh native test environment at ledger `seq` with the settings of DESIGN §2.2.
#[allow(deprecated)]
pub fn mk_env(seq: u32) -> Env {
    let e = Env::new_with_config(EnvTestConfig { capture_snapshot_at_drop: false });
    e.ledger().set(LedgerInfo {
        timestamp: 1_700_000_000 + (seq as u64) * 5,
        protocol_version: e.ledger().protocol_version(),
        sequence_number: seq,
        network_id: [7u8; 32],
        base_reserve: 10,
        min_temp_entry_ttl: 1,
        min_persistent_entry_ttl: PERSISTENT_TTL,
        max_entry_ttl: MAX_ENTRY_TTL,
    });
    // Debug mode off: the test host's best-effort invocation *resource metering* (testutils only)
    // subtracts TTLs as u32 and panics under overflow checks when an invocation removes and
    // re-creates a temporary entry with a shorter lifetime; it is not part of contract semantics.
    e.host().set_diagnostic_level(soroban_env_host::DiagnosticLevel::None).expect("diag");
    e.cost_estimate().budget().reset_unlimited();
    e.cost_estimate().disable_resource_limits();
    e
}

/// Advance the ledger by `k` sequence numbers (5 s per ledger).
pub fn advance(e: &Env, k: u32) {
    e.ledger().with_mut(|li| {
        li.sequence_number = li.sequence_number.saturating_add(k);
        li.timestamp = li.timestamp.saturating_add(5 * k as u64);
    });
}

pub fn now(e: &Env) -> u32 {
    e.ledger().sequence()
}

/// Canonical digest of the contract storage of every contract in the environment.
///
/// Covers key and value of every live `ContractData` entry (instance, persistent, temporary;
/// for temporary entries also `live_until`), except host nonce entries. Expired temporary
/// entries (live_until < current ledger) are treated as absent, which is what contracts observe.
/// Persistent / instance TTLs are not covered (archival is outside every explored horizon).
pub fn storage_digest(e: &Env, with_ledger: bool) -> [u8; 32] {
    let seq = e.ledger().sequence();
    let entries = e.host().get_stored_entries().expect("stored entries");
    let mut h = Sha256::new();
    for (k, v) in entries.iter() {
        let LedgerKey::ContractData(cd) = k.as_ref() else { continue };
        if matches!(cd.key, ScVal::LedgerKeyNonce(_)) {
            continue;
        }
        let Some((entry, live_until)) = v else { continue };
        let temp = cd.durability == ContractDataDurability::Temporary;
        if temp {
            if let Some(l) = live_until {
                if *l < seq {
                    continue;
                }
            }
        }
        let LedgerEntryData::ContractData(data) = &entry.data else { continue };
        let kb = k.to_xdr(Limits::none()).expect("xdr");
        let vb = data.val.to_xdr(Limits::none()).expect("xdr");
        h.update((kb.len() as u32).to_be_bytes());
        h.update(&kb);
        h.update((vb.len() as u32).to_be_bytes());
        h.update(&vb);
        if temp {
            h.update(live_until.unwrap_or(0).to_be_bytes());
        }
    }
    if with_ledger {
        h.update(b"ledger");
        h.update(seq.to_be_bytes());
        h.update(e.ledger().timestamp().to_be_bytes());
    }
    h.finalize().into()
}

/// Number of live contract-data entries (diagnostics only).
pub fn storage_len(e: &Env) -> usize {
    e.host()
        .get_stored_entries()
        .map(|v| v.iter().filter(|(k, v)| matches!(k.as_ref(), LedgerKey::ContractData(_)) && v.is_some()).count())
        .unwrap_or(0)
}

pub fn hex8(d: &[u8; 32]) -> String {
    hex::encode(&d[..8])
}
