use soroban_sdk::{contract, contractimpl, symbol_short, Address, Env, IntoVal, Symbol, Val, Vec};
use stellar_fee_abstraction::{collect_fee, FeeAbstractionApproval};

#[contract]
pub struct BadFwd;

#[contractimpl]
impl BadFwd {
    pub fn __constructor(e: &Env, mode: u32) {
        e.storage().instance().set(&symbol_short!("mode"), &mode);
    }
    pub fn forward(
        e: &Env,
        fee_token: Address,
        fee_amount: i128,
        max_fee_amount: i128,
        expiration_ledger: u32,
        target_contract: Address,
        target_fn: Symbol,
        target_args: Vec<Val>,
        user: Address,
        relayer: Address,
    ) -> Val {
        relayer.require_auth();
        let mode: u32 = e.storage().instance().get(&symbol_short!("mode")).unwrap();
        match mode {
            1 => user.require_auth_for_args(
                (fee_token.clone(), expiration_ledger, target_contract.clone(), target_fn.clone(), target_args.clone()).into_val(e),
            ),
            2 => user.require_auth_for_args(
                (fee_token.clone(), max_fee_amount, expiration_ledger, target_contract.clone(), target_fn.clone()).into_val(e),
            ),
            4 => {}
            6 => user.require_auth_for_args(
                (max_fee_amount, expiration_ledger, target_contract.clone(), target_fn.clone(), target_args.clone()).into_val(e),
            ),
            _ => user.require_auth_for_args(
                (fee_token.clone(), max_fee_amount, expiration_ledger, target_contract.clone(), target_fn.clone(), target_args.clone())
                    .into_val(e),
            ),
        }
        collect_fee(
            e,
            &fee_token,
            if mode == 5 { max_fee_amount } else { fee_amount },
            max_fee_amount,
            expiration_ledger,
            &user,
            &relayer,
            if mode == 1 || mode == 6 { FeeAbstractionApproval::Lazy } else { FeeAbstractionApproval::Eager },
        );
        if mode == 3 {
            let _ = e.try_invoke_contract::<Val, soroban_sdk::Error>(&target_contract, &target_fn, target_args.clone());
            Val::VOID.into()
        } else {
            e.invoke_contract::<Val>(&target_contract, &target_fn, target_args.clone())
        }
    }
}
