//! Thin wrapper contracts around the NFT building blocks that the example contracts do not
//! expose: minting with an explicit, caller-chosen token id (DESIGN §3 C10).
//! Every body is a single call into `/repo/packages/tokens`; SDK types are imported under their
//! plain names because `#[contractimpl(contracttrait)]` re-emits trait signatures textually.
//! `mint` is unauthenticated on purpose: who may mint is not part of the library.
#![allow(dead_code)]

use soroban_sdk::{contract, contractimpl, Address, Env, String};
use stellar_tokens::non_fungible::{
    burnable::NonFungibleBurnable,
    enumerable::{Enumerable, NonFungibleEnumerable},
    Base, NonFungibleToken,
};

/// Base + Burnable with `Base::mint(to, token_id)`.
#[contract]
pub struct BaseNft;

#[contractimpl]
impl BaseNft {
    pub fn __constructor(e: &Env, uri: String, name: String, symbol: String) {
        Base::set_metadata(e, uri, name, symbol);
    }
    pub fn mint(e: &Env, to: Address, token_id: u32) {
        Base::mint(e, &to, token_id);
    }
}

#[contractimpl(contracttrait)]
impl NonFungibleToken for BaseNft {
    type ContractType = Base;
}

#[contractimpl(contracttrait)]
impl NonFungibleBurnable for BaseNft {}

/// Enumerable + Burnable with `Enumerable::non_sequential_mint(to, token_id)`.
#[contract]
pub struct EnumNft;

#[contractimpl]
impl EnumNft {
    pub fn __constructor(e: &Env, uri: String, name: String, symbol: String) {
        Base::set_metadata(e, uri, name, symbol);
    }
    pub fn mint(e: &Env, to: Address, token_id: u32) {
        Enumerable::non_sequential_mint(e, &to, token_id);
    }
}

#[contractimpl(contracttrait)]
impl NonFungibleToken for EnumNft {
    type ContractType = Enumerable;
}

#[contractimpl(contracttrait)]
impl NonFungibleEnumerable for EnumNft {}

#[contractimpl(contracttrait)]
impl NonFungibleBurnable for EnumNft {}

/// Consecutive + Burnable wired through the traits' DEFAULT methods (`ContractType = Consecutive`
/// and nothing else): every call goes through `impl ContractOverrides for Consecutive` /
/// `impl BurnableOverrides for Consecutive`, the glue the explicitly wired example does not use.
#[contract]
pub struct ConsNft;

#[contractimpl]
impl ConsNft {
    pub fn __constructor(e: &Env, uri: String, name: String, symbol: String, _owner: Address) {
        Base::set_metadata(e, uri, name, symbol);
    }
    pub fn batch_mint(e: &Env, to: Address, amount: u32) -> u32 {
        stellar_tokens::non_fungible::consecutive::Consecutive::batch_mint(e, &to, amount)
    }
}

#[contractimpl(contracttrait)]
impl NonFungibleToken for ConsNft {
    type ContractType = stellar_tokens::non_fungible::consecutive::Consecutive;
}

impl stellar_tokens::non_fungible::consecutive::NonFungibleConsecutive for ConsNft {}

#[contractimpl(contracttrait)]
impl NonFungibleBurnable for ConsNft {}
