//! Thin wrapper around the timelock building block of `/repo/packages/governance` (DESIGN §3 C08)
//! plus a target contract that counts how often it was invoked.
//!
//! Every body is a single call into `stellar_governance::timelock`, wired the way the
//! `timelock-controller` example wires them, but WITHOUT any role / authorization check: who may
//! schedule, cancel or execute is property C09's subject. SDK types are imported under their
//! plain names.
#![allow(dead_code)]

use soroban_sdk::{contract, contractimpl, contracttype, Address, BytesN, Env, Symbol, Val, Vec};
use stellar_governance::timelock::{
    cancel_operation, execute_operation, set_execute_operation, get_min_delay as timelock_get_min_delay, get_operation_ledger,
    get_operation_state, hash_operation as timelock_hash_operation, is_operation_done, is_operation_pending,
    is_operation_ready, operation_exists, schedule_operation, set_min_delay as timelock_set_min_delay, Operation,
    OperationState,
};

#[contract]
pub struct TimelockWrap;

#[contractimpl]
impl TimelockWrap {
    pub fn __constructor(e: &Env, min_delay: u32) {
        timelock_set_min_delay(e, min_delay);
    }

    pub fn schedule(
        e: &Env,
        target: Address,
        function: Symbol,
        args: Vec<Val>,
        predecessor: BytesN<32>,
        salt: BytesN<32>,
        delay: u32,
    ) -> BytesN<32> {
        schedule_operation(e, &Operation { target, function, args, predecessor, salt }, delay)
    }

    pub fn execute(
        e: &Env,
        target: Address,
        function: Symbol,
        args: Vec<Val>,
        predecessor: BytesN<32>,
        salt: BytesN<32>,
    ) -> Val {
        execute_operation(e, &Operation { target, function, args, predecessor, salt })
    }

    /// The library's second execution entry point: marks the operation executed without invoking
    /// the target (what a self-administered controller does from `__check_auth`).
    pub fn mark_executed(e: &Env, target: Address, function: Symbol, args: Vec<Val>, predecessor: BytesN<32>, salt: BytesN<32>) {
        set_execute_operation(e, &Operation { target, function, args, predecessor, salt });
    }

    pub fn cancel(e: &Env, operation_id: BytesN<32>) {
        cancel_operation(e, &operation_id);
    }

    pub fn set_min_delay(e: &Env, min_delay: u32) {
        timelock_set_min_delay(e, min_delay);
    }

    pub fn get_min_delay(e: &Env) -> u32 {
        timelock_get_min_delay(e)
    }

    pub fn hash_operation(
        e: &Env,
        target: Address,
        function: Symbol,
        args: Vec<Val>,
        predecessor: BytesN<32>,
        salt: BytesN<32>,
    ) -> BytesN<32> {
        timelock_hash_operation(e, &Operation { target, function, args, predecessor, salt })
    }

    pub fn get_operation_ledger(e: &Env, operation_id: BytesN<32>) -> u32 {
        get_operation_ledger(e, &operation_id)
    }

    pub fn get_operation_state(e: &Env, operation_id: BytesN<32>) -> OperationState {
        get_operation_state(e, &operation_id)
    }

    pub fn operation_exists(e: &Env, operation_id: BytesN<32>) -> bool {
        operation_exists(e, &operation_id)
    }

    pub fn is_operation_pending(e: &Env, operation_id: BytesN<32>) -> bool {
        is_operation_pending(e, &operation_id)
    }

    pub fn is_operation_ready(e: &Env, operation_id: BytesN<32>) -> bool {
        is_operation_ready(e, &operation_id)
    }

    pub fn is_operation_done(e: &Env, operation_id: BytesN<32>) -> bool {
        is_operation_done(e, &operation_id)
    }
}

// ---------------------------------------------------------------------------------------------
// Target: counts its invocations per tag in its own storage, so that the counts are part of the
// canonical state digest (a rolled-back or duplicated external call is visible).

#[contracttype]
#[derive(Clone)]
pub enum CounterKey {
    Count(u32),
}

#[contract]
pub struct Counter;

#[contractimpl]
impl Counter {
    /// Record one invocation with `tag`; returns the new count of that tag.
    pub fn bump(e: &Env, tag: u32) -> u32 {
        let key = CounterKey::Count(tag);
        let n: u32 = e.storage().persistent().get(&key).unwrap_or(0) + 1;
        e.storage().persistent().set(&key, &n);
        n
    }

    /// Records the invocation and then fails: the whole execution must be rolled back.
    pub fn fail(e: &Env, tag: u32) -> u32 {
        let n = Self::bump(e, tag);
        if n > 0 {
            panic!("target refuses");
        }
        n
    }

    pub fn count(e: &Env, tag: u32) -> u32 {
        e.storage().persistent().get(&CounterKey::Count(tag)).unwrap_or(0)
    }
}

/// A contract governed by somebody else (here: by a timelock controller): its only entry point
/// demands the governor's authorization.
#[contract]
pub struct Governed;

#[contracttype]
pub enum GovKey {
    Governor,
    Pokes,
}

#[contractimpl]
impl Governed {
    pub fn __constructor(e: &Env, governor: Address) {
        e.storage().instance().set(&GovKey::Governor, &governor);
    }
    pub fn poke(e: &Env, x: u32) -> u32 {
        let g: Address = e.storage().instance().get(&GovKey::Governor).unwrap();
        g.require_auth();
        let n: u32 = e.storage().instance().get(&GovKey::Pokes).unwrap_or(0);
        e.storage().instance().set(&GovKey::Pokes, &(n + x));
        n + x
    }
    pub fn pokes(e: &Env) -> u32 {
        e.storage().instance().get(&GovKey::Pokes).unwrap_or(0)
    }
}
