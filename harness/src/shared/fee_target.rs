//! Target contract of the fee-forwarding worlds (C19): every entry point appends (fn name, args)
//! to a call log in its own storage *before* it looks at the `Fail` flag, so that a failing call
//! has an effect that must be rolled back together with the fee.
#![allow(dead_code)]

use soroban_sdk::{contract, contractimpl, contracttype, Address, Env, IntoVal, Symbol, Val, Vec};

#[contracttype]
pub enum TargetKey {
    Log,
    Fail,
}

fn record(e: &Env, f: &str, args: Vec<Val>) {
    let mut log: Vec<(Symbol, Vec<Val>)> = e.storage().persistent().get(&TargetKey::Log).unwrap_or(Vec::new(e));
    log.push_back((Symbol::new(e, f), args));
    e.storage().persistent().set(&TargetKey::Log, &log);
    let fail: bool = e.storage().instance().get(&TargetKey::Fail).unwrap_or(false);
    if fail {
        panic!("target was told to fail");
    }
}

#[contract]
pub struct LogTarget;

#[contractimpl]
impl LogTarget {
    /// Tell the contract to fail (after logging) on every later call.
    pub fn set_fail(e: &Env, fail: bool) {
        e.storage().instance().set(&TargetKey::Fail, &fail);
    }
    /// No authorization needed.
    pub fn ping(e: &Env, x: u32) -> u32 {
        record(e, "ping", (x,).into_val(e));
        x
    }
    /// Same signature as `ping` (used as the "other function" of tampered authorizations).
    pub fn pong(e: &Env, x: u32) -> u32 {
        record(e, "pong", (x,).into_val(e));
        x
    }
    /// Needs the authorization of `who` (a sub-invocation in the user's signed tree).
    pub fn act(e: &Env, who: Address, x: u32) -> u32 {
        who.require_auth();
        record(e, "act", (who, x).into_val(e));
        x
    }
    /// Same signature as `act`.
    pub fn act2(e: &Env, who: Address, x: u32) -> u32 {
        who.require_auth();
        record(e, "act2", (who, x).into_val(e));
        x
    }
    /// The call log.
    pub fn calls(e: &Env) -> Vec<(Symbol, Vec<Val>)> {
        e.storage().persistent().get(&TargetKey::Log).unwrap_or(Vec::new(e))
    }
}
