//! Thin wrapper contract around the non-fungible votes extension of the library (DESIGN §2.1).
//! Every body is a single call into `/repo/packages/tokens`; SDK types are imported under their
//! plain names because `#[contractimpl(contracttrait)]` re-emits trait signatures textually.
#![allow(dead_code)]

use soroban_sdk::{contract, contractimpl, Address, Env, String};
use stellar_governance::votes::Votes;
use stellar_tokens::non_fungible::{burnable::NonFungibleBurnable, votes::NonFungibleVotes, NonFungibleToken};

/// NFT with voting units = number of tokens held: NonFungibleVotes for every ownership-changing
/// entry point (transfer / transfer_from / burn / burn_from through the override traits, the two
/// mint flavours explicitly, unauthenticated because the library leaves mint authorization to
/// the integrator) + the Votes trait.
#[contract]
pub struct NftVotesTok;

#[contractimpl]
impl NftVotesTok {
    pub fn mint(e: &Env, to: Address, token_id: u32) {
        NonFungibleVotes::mint(e, &to, token_id);
    }
    pub fn sequential_mint(e: &Env, to: Address) -> u32 {
        NonFungibleVotes::sequential_mint(e, &to)
    }
}

#[contractimpl(contracttrait)]
impl NonFungibleToken for NftVotesTok {
    type ContractType = NonFungibleVotes;
}

#[contractimpl(contracttrait)]
impl NonFungibleBurnable for NftVotesTok {}

#[contractimpl(contracttrait)]
impl Votes for NftVotesTok {}
