//! Scripted environment contracts for C03: a verifier whose verdict is encoded in the signature
//! bytes, and a policy whose `can_enforce` answer / `enforce` refusal are flags and which logs every
//! `enforce` call it receives.
#![allow(dead_code)]

use soroban_sdk::auth::Context;
use soroban_sdk::{contract, contractimpl, contracttype, Address, Bytes, Env, IntoVal, Val, Vec};
use stellar_accounts::smart_account::{ContextRule, Signer};

#[contract]
pub struct MockVerifier;

#[contractimpl]
impl MockVerifier {
    /// valid <=> sig_data == b"ok"; b"trap" makes the verifier fail (as real verifiers do on
    /// malformed or forged signatures) instead of answering false
    pub fn verify(e: &Env, _hash: Bytes, _key_data: Bytes, sig_data: Bytes) -> bool {
        if sig_data == Bytes::from_array(e, b"trap") {
            panic!("verifier rejects by failing");
        }
        sig_data == Bytes::from_array(e, b"ok")
    }
}

#[contracttype]
pub enum PKey {
    Can,
    Refuse,
    Log,
    TrapUninstall,
    OnlyTransfer,
}

#[contract]
pub struct MockPolicy;

#[contractimpl]
impl MockPolicy {
    pub fn set_flags(e: &Env, can: bool, refuse: bool) {
        e.storage().instance().set(&PKey::Can, &can);
        e.storage().instance().set(&PKey::Refuse, &refuse);
    }
    pub fn log(e: &Env) -> Vec<Val> {
        e.storage().instance().get(&PKey::Log).unwrap_or(Vec::new(e))
    }
    pub fn reset_log(e: &Env) {
        e.storage().instance().remove(&PKey::Log);
    }
    /// while set, the policy accepts only calls of a function named `transfer` (a context-dependent policy)
    pub fn set_only_transfer(e: &Env, on: bool) {
        e.storage().instance().set(&PKey::OnlyTransfer, &on);
    }
    pub fn can_enforce(e: &Env, context: Context, _authenticated_signers: Vec<Signer>, _context_rule: ContextRule, _smart_account: Address) -> bool {
        if e.storage().instance().get(&PKey::OnlyTransfer).unwrap_or(false) {
            let is_transfer = match &context {
                Context::Contract(c) => c.fn_name == soroban_sdk::Symbol::new(e, "transfer"),
                _ => false,
            };
            if !is_transfer {
                return false;
            }
        }
        e.storage().instance().get(&PKey::Can).unwrap_or(true)
    }
    pub fn enforce(e: &Env, context: Context, authenticated_signers: Vec<Signer>, context_rule: ContextRule, smart_account: Address) {
        smart_account.require_auth();
        if e.storage().instance().get(&PKey::Refuse).unwrap_or(false) {
            panic!("policy refuses to enforce");
        }
        let mut l: Vec<Val> = e.storage().instance().get(&PKey::Log).unwrap_or(Vec::new(e));
        l.push_back((context_rule.id, context, authenticated_signers).into_val(e));
        e.storage().instance().set(&PKey::Log, &l);
    }
    pub fn install(_e: &Env, _install_params: Val, _context_rule: ContextRule, _smart_account: Address) {}
    /// A policy may fail in its uninstall hook; the account must complete the removal all the same.
    pub fn set_trap_uninstall(e: &Env, trap: bool) {
        e.storage().instance().set(&PKey::TrapUninstall, &trap);
    }
    pub fn uninstall(e: &Env, _context_rule: ContextRule, _smart_account: Address) {
        if e.storage().instance().get(&PKey::TrapUninstall).unwrap_or(false) {
            panic!("policy fails to uninstall");
        }
    }
}

/// Target of end-to-end `execute` calls.
#[contract]
pub struct Target;

#[contracttype]
pub enum TKey {
    Calls,
}

#[contractimpl]
impl Target {
    pub fn ping(e: &Env) -> u32 {
        let n: u32 = e.storage().instance().get(&TKey::Calls).unwrap_or(0) + 1;
        e.storage().instance().set(&TKey::Calls, &n);
        n
    }
    pub fn calls(e: &Env) -> u32 {
        e.storage().instance().get(&TKey::Calls).unwrap_or(0)
    }
}
