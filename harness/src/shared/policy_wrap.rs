//! Thin policy contract around the weighted-threshold building block of
//! `/repo/packages/accounts/src/policies/weighted_threshold.rs` (DESIGN §3 C14).
//!
//! /repo ships example policy contracts for the simple-threshold and the spending-limit policy
//! (`examples/multisig-smart-account/{threshold-policy,spending-limit-policy}`) but none for the
//! weighted one. This wrapper mirrors the threshold example line by line: every body is a single
//! call into `stellar_accounts::policies::weighted_threshold`. SDK types are imported under their
//! plain names.
#![allow(dead_code)]

use soroban_sdk::{auth::Context, contract, contractimpl, Address, Env, Map, Vec};
use stellar_accounts::{
    policies::{weighted_threshold, Policy},
    smart_account::{ContextRule, Signer},
};

#[contract]
pub struct WeightedPolicyWrap;

#[contractimpl]
impl Policy for WeightedPolicyWrap {
    type AccountParams = weighted_threshold::WeightedThresholdAccountParams;

    fn can_enforce(
        e: &Env,
        context: Context,
        authenticated_signers: Vec<Signer>,
        context_rule: ContextRule,
        smart_account: Address,
    ) -> bool {
        weighted_threshold::can_enforce(e, &context, &authenticated_signers, &context_rule, &smart_account)
    }

    fn enforce(
        e: &Env,
        context: Context,
        authenticated_signers: Vec<Signer>,
        context_rule: ContextRule,
        smart_account: Address,
    ) {
        weighted_threshold::enforce(e, &context, &authenticated_signers, &context_rule, &smart_account)
    }

    fn install(e: &Env, install_params: Self::AccountParams, context_rule: ContextRule, smart_account: Address) {
        weighted_threshold::install(e, &install_params, &context_rule, &smart_account)
    }

    fn uninstall(e: &Env, context_rule: ContextRule, smart_account: Address) {
        weighted_threshold::uninstall(e, &context_rule, &smart_account)
    }
}

#[contractimpl]
impl WeightedPolicyWrap {
    pub fn get_threshold(e: &Env, context_rule_id: u32, smart_account: Address) -> u32 {
        weighted_threshold::get_threshold(e, context_rule_id, &smart_account)
    }

    pub fn get_signer_weights(e: &Env, context_rule: ContextRule, smart_account: Address) -> Map<Signer, u32> {
        weighted_threshold::get_signer_weights(e, &context_rule, &smart_account)
    }

    pub fn set_threshold(e: &Env, threshold: u32, context_rule: ContextRule, smart_account: Address) {
        weighted_threshold::set_threshold(e, threshold, &context_rule, &smart_account)
    }

    pub fn set_signer_weight(e: &Env, signer: Signer, weight: u32, context_rule: ContextRule, smart_account: Address) {
        weighted_threshold::set_signer_weight(e, &signer, weight, &context_rule, &smart_account)
    }
}
