//! Wrapper contracts for C15: the real registry / identity / verifier building blocks of the RWA
//! suite, a claim issuer assembled from the library helpers exactly as the claim_issuer module
//! documentation prescribes (three signature schemes), and a scripted issuer for the verifier layer.
#![allow(dead_code)]

use soroban_sdk::{contract, contractimpl, contracttype, Address, Bytes, BytesN, Env, Map, String, Vec};
use stellar_tokens::rwa::claim_issuer::{
    allow_key, get_current_nonce_for, invalidate_claim_signatures, is_claim_expired, is_claim_revoked, is_key_allowed_for_topic,
    remove_key, set_claim_revoked, Ed25519Verifier, Secp256k1Verifier, Secp256r1Verifier, SignatureVerifier,
};
use stellar_tokens::rwa::claim_topics_and_issuers::storage as cti;
use stellar_tokens::rwa::identity_claims::{self as claims, Claim};
use stellar_tokens::rwa::identity_registry_storage as irs;
use stellar_tokens::rwa::identity_verifier::storage as verifier;

// ---------------------------------------------------------------------------------------------
#[contract]
pub struct CtiWrap;

#[contractimpl]
impl CtiWrap {
    pub fn add_claim_topic(e: &Env, claim_topic: u32) {
        cti::add_claim_topic(e, claim_topic);
    }
    pub fn remove_claim_topic(e: &Env, claim_topic: u32) {
        cti::remove_claim_topic(e, claim_topic);
    }
    pub fn add_trusted_issuer(e: &Env, trusted_issuer: Address, claim_topics: Vec<u32>) {
        cti::add_trusted_issuer(e, &trusted_issuer, &claim_topics);
    }
    pub fn remove_trusted_issuer(e: &Env, trusted_issuer: Address) {
        cti::remove_trusted_issuer(e, &trusted_issuer);
    }
    pub fn update_issuer_claim_topics(e: &Env, trusted_issuer: Address, claim_topics: Vec<u32>) {
        cti::update_issuer_claim_topics(e, &trusted_issuer, &claim_topics);
    }
    pub fn get_claim_topics(e: &Env) -> Vec<u32> {
        cti::get_claim_topics(e)
    }
    pub fn get_trusted_issuers(e: &Env) -> Vec<Address> {
        cti::get_trusted_issuers(e)
    }
    pub fn get_claim_topic_issuers(e: &Env, claim_topic: u32) -> Vec<Address> {
        cti::get_claim_topic_issuers(e, claim_topic)
    }
    pub fn get_trusted_issuer_claim_topics(e: &Env, trusted_issuer: Address) -> Vec<u32> {
        cti::get_trusted_issuer_claim_topics(e, &trusted_issuer)
    }
    pub fn get_claim_topics_and_issuers(e: &Env) -> Map<u32, Vec<Address>> {
        cti::get_claim_topics_and_issuers(e)
    }
    pub fn is_trusted_issuer(e: &Env, issuer: Address) -> bool {
        cti::is_trusted_issuer(e, &issuer)
    }
    pub fn has_claim_topic(e: &Env, issuer: Address, claim_topic: u32) -> bool {
        cti::has_claim_topic(e, &issuer, claim_topic)
    }
}

// ---------------------------------------------------------------------------------------------
#[contract]
pub struct IdentityWrap;

#[contractimpl]
impl IdentityWrap {
    pub fn add_claim(e: &Env, topic: u32, scheme: u32, issuer: Address, signature: Bytes, data: Bytes, uri: String) -> BytesN<32> {
        claims::add_claim(e, topic, scheme, &issuer, &signature, &data, &uri)
    }
    pub fn remove_claim(e: &Env, claim_id: BytesN<32>) {
        claims::remove_claim(e, &claim_id);
    }
    pub fn get_claim(e: &Env, claim_id: BytesN<32>) -> Claim {
        claims::get_claim(e, &claim_id)
    }
    pub fn get_claim_ids_by_topic(e: &Env, topic: u32) -> Vec<BytesN<32>> {
        claims::get_claim_ids_by_topic(e, topic)
    }
    pub fn claim_id(e: &Env, issuer: Address, topic: u32) -> BytesN<32> {
        claims::generate_claim_id(e, &issuer, topic)
    }
}

// ---------------------------------------------------------------------------------------------
#[contract]
pub struct IrsWrap;

#[contractimpl]
impl IrsWrap {
    pub fn add_identity(e: &Env, account: Address, identity: Address) {
        let countries = Vec::from_array(
            e,
            [irs::CountryData {
                country: irs::CountryRelation::Individual(irs::IndividualCountryRelation::Residence(840)),
                metadata: None,
            }],
        );
        irs::add_identity(e, &account, &identity, irs::IdentityType::Individual, &countries);
    }
    pub fn stored_identity(e: &Env, account: Address) -> Address {
        irs::stored_identity(e, &account)
    }
    pub fn get_recovered_to(e: &Env, old_account: Address) -> Option<Address> {
        irs::get_recovered_to(e, &old_account)
    }
}

// ---------------------------------------------------------------------------------------------
#[contract]
pub struct VerifierWrap;

#[contractimpl]
impl VerifierWrap {
    pub fn __constructor(e: &Env, cti_addr: Address, irs_addr: Address) {
        verifier::set_claim_topics_and_issuers(e, &cti_addr);
        verifier::set_identity_registry_storage(e, &irs_addr);
    }
    pub fn verify_identity(e: &Env, account: Address) {
        verifier::verify_identity(e, &account);
    }
}

// ---------------------------------------------------------------------------------------------
#[contracttype]
pub enum MKey {
    Answer(u32),
}

/// Scripted issuer: per topic the claim is confirmed (default), rejected with a panic, or
/// rejected with a contract error.
#[contract]
pub struct MockIssuer;

#[contractimpl]
impl MockIssuer {
    /// mode 0 = confirm, 1 = panic, 2 = host error via failing conversion
    pub fn set_answer(e: &Env, topic: u32, mode: u32) {
        e.storage().instance().set(&MKey::Answer(topic), &mode);
    }
    /// A claim issued by this scripted issuer is the coherent tuple
    /// (scheme 100+s, sig_data [s, topic, v], claim_data [v]); anything else is not its claim.
    pub fn is_claim_valid(e: &Env, _identity: Address, claim_topic: u32, scheme: u32, sig_data: Bytes, claim_data: Bytes) {
        let mode: u32 = e.storage().instance().get(&MKey::Answer(claim_topic)).unwrap_or(0);
        if mode != 0 {
            panic!("claim rejected by issuer");
        }
        let coherent = sig_data.len() == 3
            && claim_data.len() == 1
            && sig_data.get(0).map(|s| 100 + s as u32) == Some(scheme)
            && sig_data.get(1).map(|t| t as u32) == Some(claim_topic)
            && sig_data.get(2) == claim_data.get(0);
        if !coherent {
            panic!("not a claim of this issuer");
        }
    }
}

// ---------------------------------------------------------------------------------------------
pub const ED25519: u32 = 101;
pub const SECP256K1: u32 = 102;
pub const SECP256R1: u32 = 103;

/// Claim issuer assembled from the library helpers as the module documentation prescribes.
#[contract]
pub struct RealIssuer;

fn check<V: SignatureVerifier>(
    e: &Env,
    identity: &Address,
    claim_topic: u32,
    scheme: u32,
    sig_data: &Bytes,
    claim_data: &Bytes,
    key_of: impl Fn(&V::SignatureData) -> Bytes,
) {
    let signature_data = V::extract_signature_data(e, sig_data);
    if !is_key_allowed_for_topic(e, &key_of(&signature_data), scheme, claim_topic) {
        panic!("key not allowed for topic");
    }
    if is_claim_expired(e, claim_data) {
        panic!("claim expired");
    }
    let message = V::build_message(e, identity, claim_topic, claim_data);
    if is_claim_revoked(e, identity, claim_topic, claim_data) {
        panic!("claim revoked");
    }
    V::verify(e, &message, &signature_data);
}

#[contractimpl]
impl RealIssuer {
    pub fn allow_key(e: &Env, public_key: Bytes, registry: Address, scheme: u32, claim_topic: u32) {
        allow_key(e, &public_key, &registry, scheme, claim_topic);
    }
    pub fn remove_key(e: &Env, public_key: Bytes, registry: Address, scheme: u32, claim_topic: u32) {
        remove_key(e, &public_key, &registry, scheme, claim_topic);
    }
    pub fn revoke(e: &Env, identity: Address, claim_topic: u32, claim_data: Bytes, revoked: bool) {
        set_claim_revoked(e, &identity, claim_topic, &claim_data, revoked);
    }
    pub fn bump_nonce(e: &Env, identity: Address, claim_topic: u32) {
        invalidate_claim_signatures(e, &identity, claim_topic);
    }
    pub fn nonce(e: &Env, identity: Address, claim_topic: u32) -> u32 {
        get_current_nonce_for(e, &identity, claim_topic)
    }
    pub fn is_claim_valid(e: &Env, identity: Address, claim_topic: u32, scheme: u32, sig_data: Bytes, claim_data: Bytes) {
        match scheme {
            ED25519 => check::<Ed25519Verifier>(e, &identity, claim_topic, scheme, &sig_data, &claim_data, |s| s.public_key.clone().into()),
            SECP256K1 => check::<Secp256k1Verifier>(e, &identity, claim_topic, scheme, &sig_data, &claim_data, |s| s.public_key.clone().into()),
            SECP256R1 => check::<Secp256r1Verifier>(e, &identity, claim_topic, scheme, &sig_data, &claim_data, |s| s.public_key.clone().into()),
            _ => panic!("unknown scheme"),
        }
    }
}

// ---------------------------------------------------------------------------------------------
/// An identity contract that is NOT the library's: it serves whatever claim the environment put
/// under an id (the verifier must not trust the identity contract to file claims correctly).
#[contract]
pub struct MockIdentity;

#[contracttype]
pub enum MIKey {
    Ids(u32),
    Claim(BytesN<32>),
}

#[contractimpl]
impl MockIdentity {
    pub fn serve(e: &Env, listed_under_topic: u32, claim_id: BytesN<32>, claim: Claim) {
        let mut ids: Vec<BytesN<32>> = e.storage().persistent().get(&MIKey::Ids(listed_under_topic)).unwrap_or(Vec::new(e));
        ids.push_back(claim_id.clone());
        e.storage().persistent().set(&MIKey::Ids(listed_under_topic), &ids);
        e.storage().persistent().set(&MIKey::Claim(claim_id), &claim);
    }
    pub fn get_claim_ids_by_topic(e: &Env, topic: u32) -> Vec<BytesN<32>> {
        e.storage().persistent().get(&MIKey::Ids(topic)).unwrap_or(Vec::new(e))
    }
    pub fn get_claim(e: &Env, claim_id: BytesN<32>) -> Claim {
        e.storage().persistent().get(&MIKey::Claim(claim_id)).unwrap()
    }
}
