//! Thin wrapper contracts around the RWA registries of `/repo/packages/tokens/src/rwa` (DESIGN §3 C20).
//!
//! Every body is a single call into the library. There is NO operator / authorization check in
//! any of them: who may edit a registry is not property C20's subject. Plus three scripted
//! environment contracts: a `claim_topics_and_issuers` registry stub for the claim-issuer key
//! world (answers `has_claim_topic`), and two claim issuers for the identity-claims world (one
//! accepts every claim, one rejects every claim). SDK types are imported under their plain names.
#![allow(dead_code)]

use soroban_sdk::{contract, contractimpl, Address, Bytes, BytesN, Env, Map, String, Vec};
use stellar_tokens::rwa::claim_issuer as ci;
use stellar_tokens::rwa::claim_topics_and_issuers::storage as cti;
use stellar_tokens::rwa::extensions::doc_manager as dm;
use stellar_tokens::rwa::identity_claims as ic;
use stellar_tokens::rwa::identity_registry_storage as irs;
use stellar_tokens::rwa::utils::token_binder as tb;

// ------------------------------------------------------------------------------------------
// (1) claim topics and trusted issuers

#[contract]
pub struct CtiWrap;

#[contractimpl]
impl CtiWrap {
    pub fn add_claim_topic(e: &Env, claim_topic: u32) {
        cti::add_claim_topic(e, claim_topic);
    }
    pub fn remove_claim_topic(e: &Env, claim_topic: u32) {
        cti::remove_claim_topic(e, claim_topic);
    }
    pub fn add_trusted_issuer(e: &Env, trusted_issuer: Address, claim_topics: Vec<u32>) {
        cti::add_trusted_issuer(e, &trusted_issuer, &claim_topics);
    }
    pub fn remove_trusted_issuer(e: &Env, trusted_issuer: Address) {
        cti::remove_trusted_issuer(e, &trusted_issuer);
    }
    pub fn update_issuer_claim_topics(e: &Env, trusted_issuer: Address, claim_topics: Vec<u32>) {
        cti::update_issuer_claim_topics(e, &trusted_issuer, &claim_topics);
    }
    pub fn get_claim_topics(e: &Env) -> Vec<u32> {
        cti::get_claim_topics(e)
    }
    pub fn get_trusted_issuers(e: &Env) -> Vec<Address> {
        cti::get_trusted_issuers(e)
    }
    pub fn get_claim_topic_issuers(e: &Env, claim_topic: u32) -> Vec<Address> {
        cti::get_claim_topic_issuers(e, claim_topic)
    }
    pub fn get_trusted_issuer_claim_topics(e: &Env, trusted_issuer: Address) -> Vec<u32> {
        cti::get_trusted_issuer_claim_topics(e, &trusted_issuer)
    }
    pub fn get_claim_topics_and_issuers(e: &Env) -> Map<u32, Vec<Address>> {
        cti::get_claim_topics_and_issuers(e)
    }
    pub fn is_trusted_issuer(e: &Env, issuer: Address) -> bool {
        cti::is_trusted_issuer(e, &issuer)
    }
    pub fn has_claim_topic(e: &Env, issuer: Address, claim_topic: u32) -> bool {
        cti::has_claim_topic(e, &issuer, claim_topic)
    }
}

// ------------------------------------------------------------------------------------------
// (2) claim-issuer signing keys

#[contract]
pub struct KeyWrap;

#[contractimpl]
impl KeyWrap {
    pub fn allow_key(e: &Env, public_key: Bytes, registry: Address, scheme: u32, claim_topic: u32) {
        ci::allow_key(e, &public_key, &registry, scheme, claim_topic);
    }
    pub fn remove_key(e: &Env, public_key: Bytes, registry: Address, scheme: u32, claim_topic: u32) {
        ci::remove_key(e, &public_key, &registry, scheme, claim_topic);
    }
    pub fn get_keys_for_topic(e: &Env, claim_topic: u32) -> Vec<ci::SigningKey> {
        ci::get_keys_for_topic(e, claim_topic)
    }
    pub fn get_registries(e: &Env, public_key: Bytes, scheme: u32) -> Vec<Address> {
        ci::get_registries(e, &ci::SigningKey { public_key, scheme })
    }
    pub fn is_key_allowed_for_topic(e: &Env, public_key: Bytes, scheme: u32, claim_topic: u32) -> bool {
        ci::is_key_allowed_for_topic(e, &public_key, scheme, claim_topic)
    }
    pub fn is_key_allowed_for_registry(e: &Env, public_key: Bytes, scheme: u32, registry: Address) -> bool {
        ci::is_key_allowed_for_registry(e, &public_key, scheme, &registry)
    }
}

/// Topic for which the scripted registry says "this issuer may not sign".
pub const FORBIDDEN_TOPIC: u32 = 9;

/// Scripted `claim_topics_and_issuers` registry: every issuer may sign every topic but one.
#[contract]
pub struct RegStub;

#[contractimpl]
impl RegStub {
    pub fn has_claim_topic(_e: &Env, _issuer: Address, claim_topic: u32) -> bool {
        claim_topic != FORBIDDEN_TOPIC
    }
}

// ------------------------------------------------------------------------------------------
// (3) token binder

#[contract]
pub struct BinderWrap;

#[contractimpl]
impl BinderWrap {
    pub fn bind_token(e: &Env, token: Address) {
        tb::bind_token(e, &token);
    }
    pub fn unbind_token(e: &Env, token: Address) {
        tb::unbind_token(e, &token);
    }
    pub fn bind_tokens(e: &Env, tokens: Vec<Address>) {
        tb::bind_tokens(e, &tokens);
    }
    pub fn linked_tokens(e: &Env) -> Vec<Address> {
        tb::linked_tokens(e)
    }
    pub fn is_token_bound(e: &Env, token: Address) -> bool {
        tb::is_token_bound(e, &token)
    }
    pub fn get_token_by_index(e: &Env, index: u32) -> Address {
        tb::get_token_by_index(e, index)
    }
    pub fn get_token_index(e: &Env, token: Address) -> u32 {
        tb::get_token_index(e, &token)
    }
}

// ------------------------------------------------------------------------------------------
// (4) documents

#[contract]
pub struct DocWrap;

#[contractimpl]
impl DocWrap {
    pub fn set_document(e: &Env, name: BytesN<32>, uri: String, document_hash: BytesN<32>) {
        dm::set_document(e, &name, &uri, &document_hash);
    }
    pub fn remove_document(e: &Env, name: BytesN<32>) {
        dm::remove_document(e, &name);
    }
    pub fn get_document(e: &Env, name: BytesN<32>) -> dm::Document {
        dm::get_document(e, &name)
    }
    pub fn get_document_by_index(e: &Env, index: u32) -> (BytesN<32>, dm::Document) {
        dm::get_document_by_index(e, index)
    }
    pub fn get_document_count(e: &Env) -> u32 {
        dm::get_document_count(e)
    }
    pub fn get_documents(e: &Env, bucket_index: u32) -> Vec<(BytesN<32>, dm::Document)> {
        dm::get_documents(e, bucket_index)
    }
}

// ------------------------------------------------------------------------------------------
// (5) identity registry storage

#[contract]
pub struct IrsWrap;

#[contractimpl]
impl IrsWrap {
    pub fn add_identity(
        e: &Env,
        account: Address,
        identity: Address,
        identity_type: irs::IdentityType,
        initial_countries: Vec<irs::CountryData>,
    ) {
        irs::add_identity(e, &account, &identity, identity_type, &initial_countries);
    }
    pub fn modify_identity(e: &Env, account: Address, new_identity: Address) {
        irs::modify_identity(e, &account, &new_identity);
    }
    pub fn remove_identity(e: &Env, account: Address) {
        irs::remove_identity(e, &account);
    }
    pub fn recover_identity(e: &Env, old_account: Address, new_account: Address) {
        irs::recover_identity(e, &old_account, &new_account);
    }
    pub fn add_country_data_entries(e: &Env, account: Address, country_data_list: Vec<irs::CountryData>) {
        irs::add_country_data_entries(e, &account, &country_data_list);
    }
    pub fn modify_country_data(e: &Env, account: Address, index: u32, country_data: irs::CountryData) {
        irs::modify_country_data(e, &account, index, &country_data);
    }
    pub fn delete_country_data(e: &Env, account: Address, index: u32) {
        irs::delete_country_data(e, &account, index);
    }
    pub fn stored_identity(e: &Env, account: Address) -> Address {
        irs::stored_identity(e, &account)
    }
    pub fn get_identity_profile(e: &Env, account: Address) -> irs::IdentityProfile {
        irs::get_identity_profile(e, &account)
    }
    pub fn get_country_data(e: &Env, account: Address, index: u32) -> irs::CountryData {
        irs::get_country_data(e, &account, index)
    }
    pub fn get_country_data_entries(e: &Env, account: Address) -> Vec<irs::CountryData> {
        irs::get_country_data_entries(e, &account)
    }
    pub fn get_recovered_to(e: &Env, old_account: Address) -> Option<Address> {
        irs::get_recovered_to(e, &old_account)
    }
}

// ------------------------------------------------------------------------------------------
// (6) identity claims

#[contract]
pub struct ClaimsWrap;

#[contractimpl]
impl ClaimsWrap {
    pub fn add_claim(
        e: &Env,
        topic: u32,
        scheme: u32,
        issuer: Address,
        signature: Bytes,
        data: Bytes,
        uri: String,
    ) -> BytesN<32> {
        ic::add_claim(e, topic, scheme, &issuer, &signature, &data, &uri)
    }
    pub fn remove_claim(e: &Env, claim_id: BytesN<32>) {
        ic::remove_claim(e, &claim_id);
    }
    pub fn get_claim(e: &Env, claim_id: BytesN<32>) -> ic::Claim {
        ic::get_claim(e, &claim_id)
    }
    pub fn get_claim_ids_by_topic(e: &Env, topic: u32) -> Vec<BytesN<32>> {
        ic::get_claim_ids_by_topic(e, topic)
    }
    pub fn claim_id(e: &Env, issuer: Address, topic: u32) -> BytesN<32> {
        ic::generate_claim_id(e, &issuer, topic)
    }
}

/// Scripted claim issuer that accepts every claim (claim validity is property C15's subject).
#[contract]
pub struct IssuerYes;

#[contractimpl]
impl IssuerYes {
    pub fn is_claim_valid(
        _e: &Env,
        _identity: Address,
        _claim_topic: u32,
        _scheme: u32,
        _sig_data: Bytes,
        _claim_data: Bytes,
    ) {
    }
}

/// Scripted claim issuer that rejects every claim.
#[contract]
pub struct IssuerNo;

#[contractimpl]
impl IssuerNo {
    pub fn is_claim_valid(
        _e: &Env,
        _identity: Address,
        _claim_topic: u32,
        _scheme: u32,
        _sig_data: Bytes,
        _claim_data: Bytes,
    ) {
        panic!("claim rejected by scripted issuer");
    }
}
