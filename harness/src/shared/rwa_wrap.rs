//! RWA token wrapper (bodies = single calls into `stellar_tokens::rwa::RWA`) and the scripted
//! environment contracts the RWA properties treat as configuration: a compliance contract whose
//! answers are flags and which logs its notifications, an identity verifier with a verified set
//! and a recovery-target map.
#![allow(dead_code)]

use soroban_sdk::{contract, contractimpl, contracttype, symbol_short, Address, Env, MuxedAddress, String, Symbol, Vec};
use stellar_contract_utils::pausable;
use stellar_tokens::fungible::{Base, FungibleToken};
use stellar_tokens::rwa::RWA;

#[contract]
pub struct RwaTok;

#[contractimpl]
impl RwaTok {
    pub fn __constructor(e: &Env, compliance: Address, verifier: Address) {
        Base::set_metadata(e, 7, String::from_str(e, "Rwa"), String::from_str(e, "RWA"));
        RWA::set_compliance(e, &compliance);
        RWA::set_identity_verifier(e, &verifier);
    }
    pub fn mint(e: &Env, to: Address, amount: i128) {
        RWA::mint(e, &to, amount);
    }
    pub fn burn(e: &Env, user: Address, amount: i128) {
        RWA::burn(e, &user, amount);
    }
    pub fn forced_transfer(e: &Env, from: Address, to: Address, amount: i128) {
        RWA::forced_transfer(e, &from, &to, amount);
    }
    pub fn recover_balance(e: &Env, old_account: Address, new_account: Address) -> bool {
        RWA::recover_balance(e, &old_account, &new_account)
    }
    pub fn set_address_frozen(e: &Env, user: Address, freeze: bool) {
        RWA::set_address_frozen(e, &user, freeze);
    }
    pub fn freeze_partial_tokens(e: &Env, user: Address, amount: i128) {
        RWA::freeze_partial_tokens(e, &user, amount);
    }
    pub fn unfreeze_partial_tokens(e: &Env, user: Address, amount: i128) {
        RWA::unfreeze_partial_tokens(e, &user, amount);
    }
    pub fn is_frozen(e: &Env, user: Address) -> bool {
        RWA::is_frozen(e, &user)
    }
    pub fn get_frozen_tokens(e: &Env, user: Address) -> i128 {
        RWA::get_frozen_tokens(e, &user)
    }
    pub fn pause(e: &Env) {
        pausable::pause(e);
    }
    pub fn unpause(e: &Env) {
        pausable::unpause(e);
    }
    pub fn paused(e: &Env) -> bool {
        pausable::paused(e)
    }
}

#[contractimpl(contracttrait)]
impl FungibleToken for RwaTok {
    type ContractType = RWA;
}

// ---------------------------------------------------------------------------------------------

#[contracttype]
#[derive(Clone, Debug, PartialEq, Eq)]
pub struct Note {
    pub what: Symbol,
    pub from: Option<Address>,
    pub to: Option<Address>,
    pub amount: i128,
    pub token: Address,
}

#[contracttype]
pub enum CKey {
    AllowTransfer,
    AllowCreate,
    Log,
    FailHooks,
}

/// Scripted compliance contract: answers are flags, notifications are logged.
#[contract]
pub struct MockCompliance;

#[contractimpl]
impl MockCompliance {
    pub fn set_flags(e: &Env, allow_transfer: bool, allow_create: bool) {
        e.storage().instance().set(&CKey::AllowTransfer, &allow_transfer);
        e.storage().instance().set(&CKey::AllowCreate, &allow_create);
    }
    pub fn flags(e: &Env) -> (bool, bool) {
        (
            e.storage().instance().get(&CKey::AllowTransfer).unwrap_or(true),
            e.storage().instance().get(&CKey::AllowCreate).unwrap_or(true),
        )
    }
    pub fn log(e: &Env) -> Vec<Note> {
        e.storage().instance().get(&CKey::Log).unwrap_or(Vec::new(e))
    }
    pub fn reset_log(e: &Env) {
        e.storage().instance().remove(&CKey::Log);
    }
    /// while set, the three notification hooks fail (a compliance contract that cannot take the notification)
    pub fn set_hooks_fail(e: &Env, fail: bool) {
        e.storage().instance().set(&CKey::FailHooks, &fail);
    }
    fn push(e: &Env, n: Note) {
        if e.storage().instance().get(&CKey::FailHooks).unwrap_or(false) {
            panic!("compliance contract cannot take the notification");
        }
        let mut l: Vec<Note> = e.storage().instance().get(&CKey::Log).unwrap_or(Vec::new(e));
        l.push_back(n);
        e.storage().instance().set(&CKey::Log, &l);
    }
    pub fn transferred(e: &Env, from: Address, to: Address, amount: i128, token: Address) {
        Self::push(e, Note { what: symbol_short!("transfer"), from: Some(from), to: Some(to), amount, token });
    }
    pub fn created(e: &Env, to: Address, amount: i128, token: Address) {
        Self::push(e, Note { what: symbol_short!("created"), from: None, to: Some(to), amount, token });
    }
    pub fn destroyed(e: &Env, from: Address, amount: i128, token: Address) {
        Self::push(e, Note { what: symbol_short!("destroyed"), from: Some(from), to: None, amount, token });
    }
    pub fn can_transfer(e: &Env, _from: Address, _to: Address, _amount: i128, _token: Address) -> bool {
        e.storage().instance().get(&CKey::AllowTransfer).unwrap_or(true)
    }
    pub fn can_create(e: &Env, _to: Address, _amount: i128, _token: Address) -> bool {
        e.storage().instance().get(&CKey::AllowCreate).unwrap_or(true)
    }
}

#[contracttype]
pub enum VKey {
    Verified(Address),
    Recovery(Address),
}

/// Scripted identity verifier: verified set and recovery-target map.
#[contract]
pub struct MockVerifier;

#[contractimpl]
impl MockVerifier {
    pub fn set_verified(e: &Env, account: Address, ok: bool) {
        if ok {
            e.storage().persistent().set(&VKey::Verified(account), &true);
        } else {
            e.storage().persistent().remove(&VKey::Verified(account));
        }
    }
    pub fn set_recovery(e: &Env, old_account: Address, new_account: Option<Address>) {
        match new_account {
            Some(n) => e.storage().persistent().set(&VKey::Recovery(old_account), &n),
            None => e.storage().persistent().remove(&VKey::Recovery(old_account)),
        }
    }
    pub fn verify_identity(e: &Env, account: Address) {
        if !e.storage().persistent().has(&VKey::Verified(account)) {
            panic!("identity not verified");
        }
    }
    pub fn recovery_target(e: &Env, old_account: Address) -> Option<Address> {
        e.storage().persistent().get(&VKey::Recovery(old_account))
    }
}

// ---------------------------------------------------------------------------------------------
// The library's REAL compliance contract (module registry + hook dispatch) and scripted modules.

use stellar_tokens::rwa::compliance::storage as comp;
use stellar_tokens::rwa::compliance::ComplianceHook;
use stellar_tokens::rwa::utils::token_binder;

#[contract]
pub struct RealCompliance;

#[contractimpl]
impl RealCompliance {
    pub fn bind_token(e: &Env, token: Address) {
        token_binder::bind_token(e, &token);
    }
    pub fn add_module_to(e: &Env, hook: ComplianceHook, module: Address) {
        comp::add_module_to(e, hook, module);
    }
    pub fn remove_module_from(e: &Env, hook: ComplianceHook, module: Address) {
        comp::remove_module_from(e, hook, module);
    }
    pub fn transferred(e: &Env, from: Address, to: Address, amount: i128, token: Address) {
        comp::transferred(e, from, to, amount, token);
    }
    pub fn created(e: &Env, to: Address, amount: i128, token: Address) {
        comp::created(e, to, amount, token);
    }
    pub fn destroyed(e: &Env, from: Address, amount: i128, token: Address) {
        comp::destroyed(e, from, amount, token);
    }
    pub fn can_transfer(e: &Env, from: Address, to: Address, amount: i128, token: Address) -> bool {
        comp::can_transfer(e, from, to, amount, token)
    }
    pub fn can_create(e: &Env, to: Address, amount: i128, token: Address) -> bool {
        comp::can_create(e, to, amount, token)
    }
}

/// Scripted compliance module: verdicts are flags, notifications are logged.
#[contract]
pub struct MockModule;

#[contractimpl]
impl MockModule {
    pub fn set_flags(e: &Env, allow_transfer: bool, allow_create: bool) {
        e.storage().instance().set(&CKey::AllowTransfer, &allow_transfer);
        e.storage().instance().set(&CKey::AllowCreate, &allow_create);
    }
    pub fn log(e: &Env) -> Vec<Note> {
        e.storage().instance().get(&CKey::Log).unwrap_or(Vec::new(e))
    }
    pub fn reset_log(e: &Env) {
        e.storage().instance().remove(&CKey::Log);
    }
    fn push(e: &Env, n: Note) {
        let mut l: Vec<Note> = e.storage().instance().get(&CKey::Log).unwrap_or(Vec::new(e));
        l.push_back(n);
        e.storage().instance().set(&CKey::Log, &l);
    }
    pub fn on_transfer(e: &Env, from: Address, to: Address, amount: i128, token: Address) {
        Self::push(e, Note { what: symbol_short!("transfer"), from: Some(from), to: Some(to), amount, token });
    }
    pub fn on_created(e: &Env, to: Address, amount: i128, token: Address) {
        Self::push(e, Note { what: symbol_short!("created"), from: None, to: Some(to), amount, token });
    }
    pub fn on_destroyed(e: &Env, from: Address, amount: i128, token: Address) {
        Self::push(e, Note { what: symbol_short!("destroyed"), from: Some(from), to: None, amount, token });
    }
    pub fn can_transfer(e: &Env, _from: Address, _to: Address, _amount: i128, _token: Address) -> bool {
        e.storage().instance().get(&CKey::AllowTransfer).unwrap_or(true)
    }
    pub fn can_create(e: &Env, _to: Address, _amount: i128, _token: Address) -> bool {
        e.storage().instance().get(&CKey::AllowCreate).unwrap_or(true)
    }
}
