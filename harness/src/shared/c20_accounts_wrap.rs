//! Wrapper contracts of the `accounts` half of C20.
//!
//! * `NopPolicy` — a policy contract whose four entry points do nothing (the smart account calls
//!   `install` when a policy is attached and `uninstall` when it is detached; the registry
//!   property is indifferent to what a policy does).
//! * `ComplianceReg` — the module registry of the RWA compliance building block; every body is
//!   a single call into `stellar_tokens::rwa::compliance::storage`.
#![allow(dead_code)]

use soroban_sdk::{auth::Context, contract, contractimpl, Address, Env, Val, Vec};
use stellar_accounts::policies::Policy;
use stellar_accounts::smart_account::{ContextRule, Signer};
use stellar_tokens::rwa::compliance::storage as comp;
use stellar_tokens::rwa::compliance::ComplianceHook;

#[contract]
pub struct NopPolicy;

#[contractimpl]
impl Policy for NopPolicy {
    type AccountParams = Val;

    fn can_enforce(
        _e: &Env,
        _context: Context,
        _authenticated_signers: Vec<Signer>,
        _context_rule: ContextRule,
        _smart_account: Address,
    ) -> bool {
        true
    }

    fn enforce(
        _e: &Env,
        _context: Context,
        _authenticated_signers: Vec<Signer>,
        _context_rule: ContextRule,
        _smart_account: Address,
    ) {
    }

    fn install(_e: &Env, _install_params: Self::AccountParams, _context_rule: ContextRule, _smart_account: Address) {}

    fn uninstall(_e: &Env, _context_rule: ContextRule, _smart_account: Address) {}
}

/// As `NopPolicy`, but its `uninstall` hook fails: the account documents that the removal is
/// completed all the same.
#[contract]
pub struct FailingUninstallPolicy;

#[contractimpl]
impl Policy for FailingUninstallPolicy {
    type AccountParams = Val;

    fn can_enforce(_e: &Env, _context: Context, _authenticated_signers: Vec<Signer>, _context_rule: ContextRule, _smart_account: Address) -> bool {
        true
    }

    fn enforce(_e: &Env, _context: Context, _authenticated_signers: Vec<Signer>, _context_rule: ContextRule, _smart_account: Address) {}

    fn install(_e: &Env, _install_params: Self::AccountParams, _context_rule: ContextRule, _smart_account: Address) {}

    fn uninstall(_e: &Env, _context_rule: ContextRule, _smart_account: Address) {
        panic!("policy fails to uninstall");
    }
}

#[contract]
pub struct ComplianceReg;

#[contractimpl]
impl ComplianceReg {
    pub fn add_module_to(e: &Env, hook: ComplianceHook, module: Address) {
        comp::add_module_to(e, hook, module);
    }
    pub fn remove_module_from(e: &Env, hook: ComplianceHook, module: Address) {
        comp::remove_module_from(e, hook, module);
    }
    pub fn get_modules_for_hook(e: &Env, hook: ComplianceHook) -> Vec<Address> {
        comp::get_modules_for_hook(e, hook)
    }
    pub fn is_module_registered(e: &Env, hook: ComplianceHook, module: Address) -> bool {
        comp::is_module_registered(e, hook, module)
    }
}
