//! Thin wrapper around the AccessControl building block of `/repo/packages/access` (DESIGN §3 C06).
//!
//! Wired exactly like `/repo/examples/nft-access-control`: the constructor calls `set_admin`, every
//! entry point is the trait's default body. The only addition is a list of "filler" roles the
//! constructor creates with `grant_role_no_auth` (the documented constructor-time primitive), so
//! that a world can start close to `MAX_ROLES` without hundreds of invocations per rebuild.
//! SDK types are imported under their plain names because `#[contractimpl(contracttrait)]`
//! re-emits the trait signatures textually.
#![allow(dead_code)]

use soroban_sdk::{contract, contractimpl, Address, Env, Symbol, Vec};
use stellar_access::access_control::{grant_role_no_auth, set_admin, AccessControl};

#[contract]
pub struct AcWrap;

#[contractimpl]
impl AcWrap {
    pub fn __constructor(e: &Env, admin: Address, filler_holder: Address, fillers: Vec<Symbol>) {
        set_admin(e, &admin);
        for r in fillers.iter() {
            grant_role_no_auth(e, &filler_holder, &r, &admin);
        }
    }
}

#[contractimpl(contracttrait)]
impl AccessControl for AcWrap {}
