//! Thin wrapper around the AccessControl building block of `/repo/packages/access` (DESIGN §3 C06).
//!
//! Wired exactly like `/repo/examples/nft-access-control`: the constructor calls `set_admin`, every
//! entry point is the trait's default body. Additions: a list of "filler" roles the constructor
//! creates with `grant_role_no_auth` (the documented constructor-time primitive), so that a world
//! can start close to `MAX_ROLES` without hundreds of invocations per rebuild; and the two
//! clean-up primitives `remove_role_admin_no_auth` / `remove_role_accounts_count_no_auth` behind
//! `#[only_admin]`.
//! SDK types are imported under their plain names because `#[contractimpl(contracttrait)]`
//! re-emits the trait signatures textually.
#![allow(dead_code)]

use soroban_sdk::{contract, contractimpl, Address, Env, Symbol, Vec};
use stellar_access::access_control::{
    grant_role_no_auth, remove_role_accounts_count_no_auth, remove_role_admin_no_auth, set_admin, AccessControl,
};
use stellar_macros::only_admin;

#[contract]
pub struct AcWrap;

#[contractimpl]
impl AcWrap {
    pub fn __constructor(e: &Env, admin: Address, filler_holder: Address, fillers: Vec<Symbol>) {
        set_admin(e, &admin);
        for r in fillers.iter() {
            grant_role_no_auth(e, &filler_holder, &r, &admin);
        }
    }

    /// The two clean-up primitives of the library, gated the way their documentation asks for
    /// ("in admin functions that implement their own authorization logic").
    #[only_admin]
    pub fn remove_role_admin(e: &Env, role: Symbol) {
        remove_role_admin_no_auth(e, &role);
    }

    #[only_admin]
    pub fn remove_role_count(e: &Env, role: Symbol) {
        remove_role_accounts_count_no_auth(e, &role);
    }
}

#[contractimpl(contracttrait)]
impl AccessControl for AcWrap {}

/// A contract that administers itself (what `TimelockController` does when constructed without an
/// admin): nobody outside can produce the admin's authorization, so every admin-only entry point —
/// including offering the admin role — must be refused whoever signs.
#[contract]
pub struct SelfAdmin;

#[contractimpl]
impl SelfAdmin {
    pub fn __constructor(e: &Env) {
        set_admin(e, &e.current_contract_address());
    }

    #[only_admin]
    pub fn admin_restricted_function(e: &Env) -> u32 {
        let _ = e;
        7
    }
}

#[contractimpl(contracttrait)]
impl AccessControl for SelfAdmin {}
