//! Wrapper contracts for C16: allow-/block-listed tokens wiring the library's `AllowList::burn*` /
//! `BlockList::burn*` as the module documentation prescribes, and two upgradeable contracts
//! deriving `Upgradeable` / `UpgradeableMigratable` from the working tree's macros.
#![allow(dead_code)]

pub mod lists {
    use soroban_sdk::{contract, contractimpl, Address, Env, MuxedAddress, String};
    use stellar_tokens::fungible::{
        allowlist::{AllowList, FungibleAllowList},
        blocklist::{BlockList, FungibleBlockList},
        burnable::FungibleBurnable,
        Base, FungibleToken,
    };

    #[contract]
    pub struct AllowTok;

    #[contractimpl]
    impl AllowTok {
        pub fn __constructor(e: &Env) {
            Base::set_metadata(e, 7, String::from_str(e, "Allow"), String::from_str(e, "ALW"));
        }
        pub fn mint(e: &Env, to: Address, amount: i128) {
            Base::mint(e, &to, amount);
        }
    }

    #[contractimpl(contracttrait)]
    impl FungibleToken for AllowTok {
        type ContractType = AllowList;
    }

    #[contractimpl]
    impl FungibleAllowList for AllowTok {
        fn allowed(e: &Env, account: Address) -> bool {
            AllowList::allowed(e, &account)
        }
        fn allow_user(e: &Env, user: Address, operator: Address) {
            operator.require_auth();
            AllowList::allow_user(e, &user)
        }
        fn disallow_user(e: &Env, user: Address, operator: Address) {
            operator.require_auth();
            AllowList::disallow_user(e, &user)
        }
    }

    #[contractimpl]
    impl FungibleBurnable for AllowTok {
        fn burn(e: &Env, from: Address, amount: i128) {
            AllowList::burn(e, &from, amount);
        }
        fn burn_from(e: &Env, spender: Address, from: Address, amount: i128) {
            AllowList::burn_from(e, &spender, &from, amount);
        }
    }

    #[contract]
    pub struct BlockTok;

    #[contractimpl]
    impl BlockTok {
        pub fn __constructor(e: &Env) {
            Base::set_metadata(e, 7, String::from_str(e, "Block"), String::from_str(e, "BLK"));
        }
        pub fn mint(e: &Env, to: Address, amount: i128) {
            Base::mint(e, &to, amount);
        }
    }

    #[contractimpl(contracttrait)]
    impl FungibleToken for BlockTok {
        type ContractType = BlockList;
    }

    #[contractimpl]
    impl FungibleBlockList for BlockTok {
        fn blocked(e: &Env, account: Address) -> bool {
            BlockList::blocked(e, &account)
        }
        fn block_user(e: &Env, user: Address, operator: Address) {
            operator.require_auth();
            BlockList::block_user(e, &user)
        }
        fn unblock_user(e: &Env, user: Address, operator: Address) {
            operator.require_auth();
            BlockList::unblock_user(e, &user)
        }
    }

    #[contractimpl]
    impl FungibleBurnable for BlockTok {
        fn burn(e: &Env, from: Address, amount: i128) {
            BlockList::burn(e, &from, amount);
        }
        fn burn_from(e: &Env, spender: Address, from: Address, amount: i128) {
            BlockList::burn_from(e, &spender, &from, amount);
        }
    }
}

pub mod upg {
    use soroban_sdk::{contract, contractimpl, symbol_short, Address, Env, Symbol};
    use stellar_contract_utils::upgradeable::UpgradeableInternal;
    use stellar_macros::Upgradeable;

    pub const OWNER: Symbol = symbol_short!("OWNER");

    #[derive(Upgradeable)]
    #[contract]
    pub struct Upg;

    #[contractimpl]
    impl Upg {
        pub fn set_owner(e: &Env, owner: Address) {
            e.storage().instance().set(&OWNER, &owner);
        }
        pub fn can_migrate(e: &Env) -> bool {
            stellar_contract_utils::upgradeable::can_complete_migration(e)
        }
    }

    impl UpgradeableInternal for Upg {
        fn _require_auth(e: &Env, operator: &Address) {
            operator.require_auth();
            let owner = e.storage().instance().get::<_, Address>(&OWNER).unwrap();
            if *operator != owner {
                panic!("not the owner");
            }
        }
    }
}

pub mod mig {
    use soroban_sdk::{contract, contractimpl, symbol_short, Address, Env, Symbol};
    use stellar_contract_utils::upgradeable::UpgradeableMigratableInternal;
    use stellar_macros::UpgradeableMigratable;

    pub const OWNER: Symbol = symbol_short!("OWNER");
    pub const DATA: Symbol = symbol_short!("DATA");
    pub const COUNT: Symbol = symbol_short!("COUNT");

    #[derive(UpgradeableMigratable)]
    #[contract]
    pub struct Mig;

    #[contractimpl]
    impl Mig {
        pub fn set_owner(e: &Env, owner: Address) {
            e.storage().instance().set(&OWNER, &owner);
        }
        pub fn can_migrate(e: &Env) -> bool {
            stellar_contract_utils::upgradeable::can_complete_migration(e)
        }
        /// how often `_migrate` ran
        pub fn migrations(e: &Env) -> u32 {
            e.storage().instance().get(&COUNT).unwrap_or(0)
        }
    }

    impl UpgradeableMigratableInternal for Mig {
        type MigrationData = u32;

        fn _require_auth(e: &Env, operator: &Address) {
            operator.require_auth();
            let owner = e.storage().instance().get::<_, Address>(&OWNER).unwrap();
            if *operator != owner {
                panic!("not the owner");
            }
        }

        fn _migrate(e: &Env, data: &Self::MigrationData) {
            e.storage().instance().set(&DATA, data);
            let n: u32 = e.storage().instance().get(&COUNT).unwrap_or(0);
            e.storage().instance().set(&COUNT, &(n + 1));
        }
    }
}
