//! Wrapper contracts for C16: allow-/block-listed tokens wiring the library's `AllowList::burn*` /
//! `BlockList::burn*` as the module documentation prescribes, and two upgradeable contracts
//! deriving `Upgradeable` / `UpgradeableMigratable` from the working tree's macros.
#![allow(dead_code)]

pub mod lists {
    use soroban_sdk::{contract, contractimpl, Address, Env, MuxedAddress, String};
    use stellar_tokens::fungible::{
        allowlist::{AllowList, FungibleAllowList},
        blocklist::{BlockList, FungibleBlockList},
        burnable::FungibleBurnable,
        Base, FungibleToken,
    };

    #[contract]
    pub struct AllowTok;

    #[contractimpl]
    impl AllowTok {
        pub fn __constructor(e: &Env) {
            Base::set_metadata(e, 7, String::from_str(e, "Allow"), String::from_str(e, "ALW"));
        }
        pub fn mint(e: &Env, to: Address, amount: i128) {
            Base::mint(e, &to, amount);
        }
    }

    #[contractimpl(contracttrait)]
    impl FungibleToken for AllowTok {
        type ContractType = AllowList;
    }

    #[contractimpl]
    impl FungibleAllowList for AllowTok {
        fn allowed(e: &Env, account: Address) -> bool {
            AllowList::allowed(e, &account)
        }
        fn allow_user(e: &Env, user: Address, operator: Address) {
            operator.require_auth();
            AllowList::allow_user(e, &user)
        }
        fn disallow_user(e: &Env, user: Address, operator: Address) {
            operator.require_auth();
            AllowList::disallow_user(e, &user)
        }
    }

    #[contractimpl]
    impl FungibleBurnable for AllowTok {
        fn burn(e: &Env, from: Address, amount: i128) {
            AllowList::burn(e, &from, amount);
        }
        fn burn_from(e: &Env, spender: Address, from: Address, amount: i128) {
            AllowList::burn_from(e, &spender, &from, amount);
        }
    }

    #[contract]
    pub struct BlockTok;

    #[contractimpl]
    impl BlockTok {
        pub fn __constructor(e: &Env) {
            Base::set_metadata(e, 7, String::from_str(e, "Block"), String::from_str(e, "BLK"));
        }
        pub fn mint(e: &Env, to: Address, amount: i128) {
            Base::mint(e, &to, amount);
        }
    }

    #[contractimpl(contracttrait)]
    impl FungibleToken for BlockTok {
        type ContractType = BlockList;
    }

    #[contractimpl]
    impl FungibleBlockList for BlockTok {
        fn blocked(e: &Env, account: Address) -> bool {
            BlockList::blocked(e, &account)
        }
        fn block_user(e: &Env, user: Address, operator: Address) {
            operator.require_auth();
            BlockList::block_user(e, &user)
        }
        fn unblock_user(e: &Env, user: Address, operator: Address) {
            operator.require_auth();
            BlockList::unblock_user(e, &user)
        }
    }

    #[contractimpl]
    impl FungibleBurnable for BlockTok {
        fn burn(e: &Env, from: Address, amount: i128) {
            BlockList::burn(e, &from, amount);
        }
        fn burn_from(e: &Env, spender: Address, from: Address, amount: i128) {
            BlockList::burn_from(e, &spender, &from, amount);
        }
    }
}

pub mod upg {
    use soroban_sdk::{contract, contractimpl, symbol_short, Address, Env, Symbol};
    use stellar_contract_utils::upgradeable::UpgradeableInternal;
    use stellar_macros::Upgradeable;

    pub const OWNER: Symbol = symbol_short!("OWNER");

    #[derive(Upgradeable)]
    #[contract]
    pub struct Upg;

    #[contractimpl]
    impl Upg {
        pub fn set_owner(e: &Env, owner: Address) {
            e.storage().instance().set(&OWNER, &owner);
        }
        pub fn can_migrate(e: &Env) -> bool {
            stellar_contract_utils::upgradeable::can_complete_migration(e)
        }
    }

    impl UpgradeableInternal for Upg {
        fn _require_auth(e: &Env, operator: &Address) {
            operator.require_auth();
            let owner = e.storage().instance().get::<_, Address>(&OWNER).unwrap();
            if *operator != owner {
                panic!("not the owner");
            }
        }
    }
}

pub mod mig {
    use soroban_sdk::{contract, contractimpl, symbol_short, Address, Env, Symbol};
    use stellar_contract_utils::upgradeable::UpgradeableMigratableInternal;
    use stellar_macros::UpgradeableMigratable;

    pub const OWNER: Symbol = symbol_short!("OWNER");
    pub const DATA: Symbol = symbol_short!("DATA");
    pub const COUNT: Symbol = symbol_short!("COUNT");

    #[derive(UpgradeableMigratable)]
    #[contract]
    pub struct Mig;

    #[contractimpl]
    impl Mig {
        pub fn set_owner(e: &Env, owner: Address) {
            e.storage().instance().set(&OWNER, &owner);
        }
        pub fn can_migrate(e: &Env) -> bool {
            stellar_contract_utils::upgradeable::can_complete_migration(e)
        }
        /// how often `_migrate` ran
        pub fn migrations(e: &Env) -> u32 {
            e.storage().instance().get(&COUNT).unwrap_or(0)
        }
    }

    impl UpgradeableMigratableInternal for Mig {
        type MigrationData = u32;

        fn _require_auth(e: &Env, operator: &Address) {
            operator.require_auth();
            let owner = e.storage().instance().get::<_, Address>(&OWNER).unwrap();
            if *operator != owner {
                panic!("not the owner");
            }
        }

        fn _migrate(e: &Env, data: &Self::MigrationData) {
            e.storage().instance().set(&DATA, data);
            let n: u32 = e.storage().instance().get(&COUNT).unwrap_or(0);
            e.storage().instance().set(&COUNT, &(n + 1));
        }
    }
}

/// Capped token whose cap can be changed after construction (the library documents lowering the cap
/// below the current supply as a way to stop further minting).
pub mod cap {
    use soroban_sdk::{contract, contractimpl, Address, Env, MuxedAddress, String};
    use stellar_tokens::fungible::{
        burnable::FungibleBurnable,
        capped::{check_cap, query_cap, set_cap},
        Base, FungibleToken,
    };

    #[contract]
    pub struct CapTok;

    #[contractimpl]
    impl CapTok {
        pub fn __constructor(e: &Env, cap: i128) {
            set_cap(e, cap);
        }
        pub fn mint(e: &Env, to: Address, amount: i128) {
            check_cap(e, amount);
            Base::mint(e, &to, amount);
        }
        pub fn set_cap(e: &Env, cap: i128) {
            set_cap(e, cap);
        }
        pub fn cap(e: &Env) -> i128 {
            query_cap(e)
        }
    }

    #[contractimpl(contracttrait)]
    impl FungibleToken for CapTok {
        type ContractType = Base;
    }

    #[contractimpl(contracttrait)]
    impl FungibleBurnable for CapTok {}
}

/// Entry points that stack the pausable macros with the authorization macros in both orders:
/// whatever the order, an entry point declared `when_not_paused` must fail while paused.
pub mod stacked {
    use soroban_sdk::{contract, contractimpl, symbol_short, Address, Env, Symbol};
    use stellar_access::{access_control, ownable};
    use stellar_contract_utils::pausable;
    use stellar_macros::{has_role, only_admin, only_owner, only_role, when_not_paused, when_paused};

    pub const N: Symbol = symbol_short!("N");

    fn bump(e: &Env, k: u32) {
        let key = (N, k);
        let n: u32 = e.storage().instance().get(&key).unwrap_or(0);
        e.storage().instance().set(&key, &(n + 1));
    }

    #[contract]
    pub struct Stacked;

    #[contractimpl]
    impl Stacked {
        pub fn __constructor(e: &Env, owner: Address, member: Address) {
            ownable::set_owner(e, &owner);
            access_control::set_admin(e, &owner);
            access_control::grant_role_no_auth(e, &member, &Symbol::new(e, "worker"), &owner);
        }
        pub fn pause(e: &Env) {
            pausable::pause(e);
        }
        pub fn unpause(e: &Env) {
            pausable::unpause(e);
        }
        pub fn paused(e: &Env) -> bool {
            pausable::paused(e)
        }
        pub fn count(e: &Env, k: u32) -> u32 {
            e.storage().instance().get(&(N, k)).unwrap_or(0)
        }

        #[only_owner]
        #[when_not_paused]
        pub fn owner_then_pause(e: &Env) {
            bump(e, 0);
        }
        #[when_not_paused]
        #[only_owner]
        pub fn pause_then_owner(e: &Env) {
            bump(e, 1);
        }
        #[only_admin]
        #[when_not_paused]
        pub fn admin_then_pause(e: &Env) {
            bump(e, 2);
        }
        #[when_not_paused]
        #[only_admin]
        pub fn pause_then_admin(e: &Env) {
            bump(e, 3);
        }
        #[only_role(caller, "worker")]
        #[when_not_paused]
        pub fn role_then_pause(e: &Env, caller: Address) {
            bump(e, 4);
        }
        #[when_not_paused]
        #[only_role(caller, "worker")]
        pub fn pause_then_role(e: &Env, caller: Address) {
            bump(e, 5);
        }
        #[has_role(caller, "worker")]
        #[when_not_paused]
        pub fn hasrole_then_pause(e: &Env, caller: Address) {
            bump(e, 6);
        }
        #[only_owner]
        #[when_paused]
        pub fn owner_then_whenpaused(e: &Env) {
            bump(e, 7);
        }
        #[when_paused]
        #[only_owner]
        pub fn whenpaused_then_owner(e: &Env) {
            bump(e, 8);
        }
    }
}
