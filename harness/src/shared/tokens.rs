//! Thin wrapper contracts around the fungible building blocks of the library (DESIGN §2.1).
//! Every body is a single call into `/repo/packages/tokens`; SDK types are imported under their
//! plain names because `#[contractimpl(contracttrait)]` re-emits trait signatures textually.
#![allow(dead_code)]

use soroban_sdk::{contract, contractimpl, Address, Env, MuxedAddress, String};
use stellar_governance::votes::Votes;
use stellar_tokens::fungible::{burnable::FungibleBurnable, votes::FungibleVotes, Base, FungibleToken};

/// Plain token: Base + Burnable + an unauthenticated `mint` (authorization of mint is not part
/// of the library; the properties quantify over mints as such).
#[contract]
pub struct BaseTok;

#[contractimpl]
impl BaseTok {
    pub fn __constructor(e: &Env) {
        Base::set_metadata(e, 7, String::from_str(e, "Base"), String::from_str(e, "BASE"));
    }
    pub fn mint(e: &Env, to: Address, amount: i128) {
        Base::mint(e, &to, amount);
    }
}

#[contractimpl(contracttrait)]
impl FungibleToken for BaseTok {
    type ContractType = Base;
}

#[contractimpl(contracttrait)]
impl FungibleBurnable for BaseTok {}

/// Votes token: FungibleVotes for every balance-changing entry point + the Votes trait.
#[contract]
pub struct VotesTok;

#[contractimpl]
impl VotesTok {
    pub fn __constructor(e: &Env) {
        Base::set_metadata(e, 7, String::from_str(e, "Votes"), String::from_str(e, "VOTE"));
    }
    pub fn mint(e: &Env, to: Address, amount: i128) {
        FungibleVotes::mint(e, &to, amount);
    }
}

#[contractimpl(contracttrait)]
impl FungibleToken for VotesTok {
    type ContractType = FungibleVotes;
}

#[contractimpl]
impl FungibleBurnable for VotesTok {
    fn burn(e: &Env, from: Address, amount: i128) {
        FungibleVotes::burn(e, &from, amount);
    }
    fn burn_from(e: &Env, spender: Address, from: Address, amount: i128) {
        FungibleVotes::burn_from(e, &spender, &from, amount);
    }
}

#[contractimpl(contracttrait)]
impl Votes for VotesTok {}
