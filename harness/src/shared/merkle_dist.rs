//! Thin wrapper contracts around `stellar_contract_utils::merkle_distributor` (DESIGN §2.1, C17):
//! the four combinations of {sorted-pair, positional} x {SHA-256, Keccak-256}. Every body is a
//! single library call. The leaf type has the field names / types of the airdrop example's
//! `Receiver`. Unlike the example these contracts expose `set_root`, so that root changes are part
//! of the explored histories; the root is unset after registration (gate `RootNotSet`).
#![allow(dead_code)]

use soroban_sdk::{contract, contractimpl, contracttype, Address, BytesN, Env, Vec};
use stellar_contract_utils::crypto::{keccak::Keccak256, sha256::Sha256};
use stellar_contract_utils::merkle_distributor::{IndexableLeaf, MerkleDistributor};

#[contracttype]
pub struct Receiver {
    pub index: u32,
    pub address: Address,
    pub amount: i128,
}

impl IndexableLeaf for Receiver {
    fn index(&self) -> u32 {
        self.index
    }
}

#[contract]
pub struct SortedSha;

#[contractimpl]
impl SortedSha {
    pub fn set_root(e: &Env, root: BytesN<32>) {
        MerkleDistributor::<Sha256>::set_root(e, root);
    }
    pub fn get_root(e: &Env) -> BytesN<32> {
        MerkleDistributor::<Sha256>::get_root(e)
    }
    pub fn is_claimed(e: &Env, index: u32) -> bool {
        MerkleDistributor::<Sha256>::is_claimed(e, index)
    }
    pub fn claim(e: &Env, index: u32, receiver: Address, amount: i128, proof: Vec<BytesN<32>>) {
        MerkleDistributor::<Sha256>::verify_and_set_claimed(e, Receiver { index, address: receiver, amount }, proof);
    }
}

#[contract]
pub struct SortedKeccak;

#[contractimpl]
impl SortedKeccak {
    pub fn set_root(e: &Env, root: BytesN<32>) {
        MerkleDistributor::<Keccak256>::set_root(e, root);
    }
    pub fn get_root(e: &Env) -> BytesN<32> {
        MerkleDistributor::<Keccak256>::get_root(e)
    }
    pub fn is_claimed(e: &Env, index: u32) -> bool {
        MerkleDistributor::<Keccak256>::is_claimed(e, index)
    }
    pub fn claim(e: &Env, index: u32, receiver: Address, amount: i128, proof: Vec<BytesN<32>>) {
        MerkleDistributor::<Keccak256>::verify_and_set_claimed(e, Receiver { index, address: receiver, amount }, proof);
    }
}

#[contract]
pub struct IndexedSha;

#[contractimpl]
impl IndexedSha {
    pub fn set_root(e: &Env, root: BytesN<32>) {
        MerkleDistributor::<Sha256>::set_root(e, root);
    }
    pub fn get_root(e: &Env) -> BytesN<32> {
        MerkleDistributor::<Sha256>::get_root(e)
    }
    pub fn is_claimed(e: &Env, index: u32) -> bool {
        MerkleDistributor::<Sha256>::is_claimed(e, index)
    }
    pub fn claim(e: &Env, index: u32, receiver: Address, amount: i128, proof: Vec<BytesN<32>>) {
        MerkleDistributor::<Sha256>::verify_with_index_and_set_claimed(e, Receiver { index, address: receiver, amount }, proof);
    }
}

#[contract]
pub struct IndexedKeccak;

#[contractimpl]
impl IndexedKeccak {
    pub fn set_root(e: &Env, root: BytesN<32>) {
        MerkleDistributor::<Keccak256>::set_root(e, root);
    }
    pub fn get_root(e: &Env) -> BytesN<32> {
        MerkleDistributor::<Keccak256>::get_root(e)
    }
    pub fn is_claimed(e: &Env, index: u32) -> bool {
        MerkleDistributor::<Keccak256>::is_claimed(e, index)
    }
    pub fn claim(e: &Env, index: u32, receiver: Address, amount: i128, proof: Vec<BytesN<32>>) {
        MerkleDistributor::<Keccak256>::verify_with_index_and_set_claimed(e, Receiver { index, address: receiver, amount }, proof);
    }
}
