//! C13 — voting power equals delegated balances, now and at every past ledger.
//!
//! Worlds (all on the real code of /repo, calls under recording authorization — who may call is
//! not this property's subject):
//!   * `fungible-votes-wrapper`      : `VotesTok` (FungibleVotes mint/burn/transfer + Votes trait)
//!   * `fungible-votes-wrapper-spender`: same contract, balance changes through
//!                                     `transfer_from` / `burn_from` of a pre-approved spender
//!   * `fungible-votes-example`      : the example contract of the working tree (no burn)
//!   * `nft-votes-wrapper[-seq]`     : `NftVotesTok` (NonFungibleVotes, explicit / sequential ids,
//!                                     owner and operator paths)
//!
//! Reference model (written from the property text, no checkpoints in it): the units of every
//! account, who delegates to whom, and a *dense* table with the end-of-ledger votes of every
//! account and the total for every ledger since `start-1`. After every accepted operation the
//! whole table is compared with the contract's answers, so an operation that rewrites any
//! earlier answer is caught at the step that does it.

use soroban_sdk::testutils::Address as _;
use soroban_sdk::{Address, Env, IntoVal, String as SString, TryFromVal, Val, Vec as SVec};
use std::collections::BTreeMap;
use vh::auth::{call_mocked, view};
use vh::cli::{main_with, Runner};
use vh::engine::{Bounds, Stats, StepCtx, Violation, World};
use vh::ensure;
use vh::envx;
use vh::report::Tier;

#[path = "../shared/tokens.rs"]
mod tokens;
#[path = "../shared/nft_votes.rs"]
mod nft_votes;
#[path = "/repo/examples/fungible-votes/src/contract.rs"]
mod votes_example;

const N: usize = 3;
const NAMES: [&str; N] = ["A", "B", "C"];
const START: u32 = 10;
const A: usize = 0;
const B: usize = 1;
const C: usize = 2;

#[derive(Clone, Copy, Debug, PartialEq, Eq)]
enum Flavour {
    /// VotesTok, holder paths (transfer / burn)
    Wrapper,
    /// VotesTok, spender paths (transfer_from / burn_from)
    WrapperSpender,
    /// examples/fungible-votes (mint by owner, transfer, no burn)
    Example,
    /// the example contract; `transfer_from` with the holder named as its own spender (self-approved)
    ExampleSelfSpender,
    /// NftVotesTok, explicit token ids
    Nft,
    /// NftVotesTok, sequential_mint
    NftSeq,
}

impl Flavour {
    fn nft(self) -> bool {
        matches!(self, Flavour::Nft | Flavour::NftSeq)
    }
    fn has_burn(self) -> bool {
        !matches!(self, Flavour::Example | Flavour::ExampleSelfSpender)
    }
}

#[derive(Clone, Debug, PartialEq, Eq)]
enum Op {
    Mint { to: usize, a: i128 },
    /// `via`: through the pre-approved spender (`burn_from`)
    Burn { from: usize, a: i128, via: bool },
    /// `via`: through the pre-approved spender (`transfer_from`)
    Transfer { from: usize, to: usize, a: i128, via: bool },
    NMint { to: usize, id: u32 },
    NBurn { from: usize, id: u32, via: bool },
    NTransfer { from: usize, to: usize, id: u32, via: bool },
    /// `re`: the account already has a delegate (re-delegation)
    Delegate { a: usize, b: usize, re: bool },
    Advance(u32),
    /// No call at all: on a throw-away copy of the state `IDLE` ledgers pass without any
    /// invocation, then the present values and a selection of past ledgers are compared with the
    /// model again (oracle `state-survives-idle`). The explored instance is not touched.
    IdleProbe,
}

/// Ledgers that pass in an idle probe: beyond every temporary-entry lifetime and every TTL
/// extension of the votes module and the token bases (VOTES_EXTEND_AMOUNT = balance / owner
/// extensions = 30 days = 518400 ledgers), below the persistent TTL of `envx::mk_env` (3000000).
const IDLE: u32 = 600_000;

/// A disagreement found after the idle period: nothing was called in between, so whatever differs
/// from the model was lost (or appeared) through the passage of time alone.
fn idle_viol(v: Violation) -> Violation {
    Violation::new("state-survives-idle", format!("after {IDLE} ledgers without any call [{}] {}", v.oracle, v.detail))
}

type Row = ([u128; N], u128);

#[derive(Clone, Debug, Hash)]
struct Model {
    /// ledger of `past[0]`
    base: u32,
    now: u32,
    units: [u128; N],
    deleg: [Option<usize>; N],
    /// NFT worlds: live token id -> owner
    owner: BTreeMap<u32, usize>,
    minted: u32,
    /// `past[k]` = (votes of every account, vote total supply) at the END of ledger `base + k`,
    /// for every ledger `base ..= now-1`
    past: Vec<Row>,
    /// accepted vote-relevant operations inside the current ledger (vacuity statistics only)
    in_ledger: u32,
}

impl Model {
    fn votes(&self) -> [u128; N] {
        let mut v = [0u128; N];
        for x in 0..N {
            if let Some(d) = self.deleg[x] {
                v[d] += self.units[x];
            }
        }
        v
    }
    fn total(&self) -> u128 {
        self.units.iter().sum()
    }
    fn at(&self, l: u32) -> Row {
        if l < self.base {
            ([0; N], 0)
        } else {
            self.past[(l - self.base) as usize]
        }
    }
}

struct Vw {
    flavour: Flavour,
    thorough: bool,
    /// which seed state this world starts from (one world per seed, so that the expensive
    /// long-history seed can be explored one level less deep than the empty one)
    seed: usize,
}

const SEED_NAMES: [&str; 4] = ["empty@10", "5-checkpoint-history@16", "balance~i128::MAX@11", "empty@ledger-0 (genesis)"];

struct Inst {
    e: Env,
    c: Address,
    u: [Address; N],
    sp: Address,
}

fn viol<T: std::fmt::Debug>(what: &str) -> impl Fn(T) -> Violation + '_ {
    move |x| Violation::new("getter", format!("{what}: {x:?}"))
}

impl Vw {
    /// Execute on the implementation. `Ok(Some(id))` carries the id chosen by `sequential_mint`.
    fn exec(&self, i: &Inst, op: &Op) -> Result<Option<u32>, ()> {
        let e = &i.e;
        let u = |k: usize| i.u[k].clone();
        let sp = i.sp.clone();
        let r = match op {
            Op::Mint { to, a } => call_mocked(e, &i.c, "mint", (u(*to), *a).into_val(e)),
            Op::Burn { from, a, via: false } => call_mocked(e, &i.c, "burn", (u(*from), *a).into_val(e)),
            Op::Burn { from, a, via: true } => call_mocked(e, &i.c, "burn_from", (sp, u(*from), *a).into_val(e)),
            Op::Transfer { from, to, a, via: false } => call_mocked(e, &i.c, "transfer", (u(*from), u(*to), *a).into_val(e)),
            Op::Transfer { from, to, a, via: true } if self.flavour == Flavour::ExampleSelfSpender => call_mocked(e, &i.c, "transfer_from", (u(*from), u(*from), u(*to), *a).into_val(e)),
            Op::Transfer { from, to, a, via: true } => call_mocked(e, &i.c, "transfer_from", (sp, u(*from), u(*to), *a).into_val(e)),
            Op::NMint { to, id } => {
                if self.flavour == Flavour::NftSeq {
                    let r = call_mocked(e, &i.c, "sequential_mint", (u(*to),).into_val(e));
                    return match r {
                        Ok(v) => Ok(Some(u32::try_from_val(e, &v).expect("u32 id"))),
                        Err(_) => Err(()),
                    };
                }
                call_mocked(e, &i.c, "mint", (u(*to), *id).into_val(e))
            }
            Op::NBurn { from, id, via: false } => call_mocked(e, &i.c, "burn", (u(*from), *id).into_val(e)),
            Op::NBurn { from, id, via: true } => call_mocked(e, &i.c, "burn_from", (sp, u(*from), *id).into_val(e)),
            Op::NTransfer { from, to, id, via: false } => call_mocked(e, &i.c, "transfer", (u(*from), u(*to), *id).into_val(e)),
            Op::NTransfer { from, to, id, via: true } => call_mocked(e, &i.c, "transfer_from", (sp, u(*from), u(*to), *id).into_val(e)),
            Op::Delegate { a, b, .. } => call_mocked(e, &i.c, "delegate", (u(*a), u(*b)).into_val(e)),
            Op::Advance(k) => {
                envx::advance(e, *k);
                return Ok(None);
            }
            // not a call: nothing happens on the explored instance (see `idle_check`)
            Op::IdleProbe => return Ok(None),
        };
        if std::env::var("VH_DEBUG").is_ok() {
            eprintln!("{op:?} -> {:?}", r.as_ref().map(|_| ()));
        }
        r.map(|_| None).map_err(|_| ())
    }

    /// The effect an ACCEPTED operation has according to the property's vocabulary: units follow
    /// the token balance, a delegation replaces the previous one, a ledger that closes freezes
    /// its end-of-ledger values.
    fn model_step(&self, m: &mut Model, op: &Op, seq_id: Option<u32>) -> Result<(), Violation> {
        let amt = |a: i128| -> Result<u128, Violation> {
            ensure!(a >= 0, "token-semantics", "{:?} was accepted with a negative amount", op);
            Ok(a as u128)
        };
        match op {
            Op::Mint { to, a } => {
                m.units[*to] += amt(*a)?;
                m.in_ledger += 1;
            }
            Op::Burn { from, a, .. } => {
                let a = amt(*a)?;
                ensure!(m.units[*from] >= a, "token-semantics", "{:?} was accepted although {} holds {}", op, NAMES[*from], m.units[*from]);
                m.units[*from] -= a;
                m.in_ledger += 1;
            }
            Op::Transfer { from, to, a, .. } => {
                let a = amt(*a)?;
                ensure!(m.units[*from] >= a, "token-semantics", "{:?} was accepted although {} holds {}", op, NAMES[*from], m.units[*from]);
                m.units[*from] -= a;
                m.units[*to] += a;
                m.in_ledger += 1;
            }
            Op::NMint { to, id } => {
                let id = seq_id.unwrap_or(*id);
                ensure!(!m.owner.contains_key(&id), "token-semantics", "{:?} produced token id {} which is already live", op, id);
                m.owner.insert(id, *to);
                m.minted += 1;
                m.units[*to] += 1;
                m.in_ledger += 1;
            }
            Op::NBurn { from, id, .. } => {
                ensure!(m.owner.get(id) == Some(from), "token-semantics", "{:?} was accepted although the owner is {:?}", op, m.owner.get(id));
                m.owner.remove(id);
                m.units[*from] -= 1;
                m.in_ledger += 1;
            }
            Op::NTransfer { from, to, id, .. } => {
                ensure!(m.owner.get(id) == Some(from), "token-semantics", "{:?} was accepted although the owner is {:?}", op, m.owner.get(id));
                m.owner.insert(*id, *to);
                m.units[*from] -= 1;
                m.units[*to] += 1;
                m.in_ledger += 1;
            }
            Op::Delegate { a, b, .. } => {
                m.deleg[*a] = Some(*b);
                m.in_ledger += 1;
            }
            Op::Advance(k) => {
                let row = (m.votes(), m.total());
                for _ in 0..*k {
                    m.past.push(row);
                }
                m.now += *k;
                m.in_ledger = 0;
            }
            Op::IdleProbe => {}
        }
        Ok(())
    }

    fn q(&self, i: &Inst, f: &str, args: SVec<Val>) -> Result<u128, Violation> {
        view(&i.e, &i.c, f, args).map(|v| u128::try_from_val(&i.e, &v).expect("u128")).map_err(viol(f))
    }

    /// Compare everything the property talks about with the model.
    fn check(&self, i: &Inst, m: &Model, st: &mut Stats, after: &Op) -> Result<(), Violation> {
        let e = &i.e;
        let now = envx::now(e);
        ensure!(now == m.now, "harness", "ledger {} but model {}", now, m.now);
        let votes = m.votes();
        let total = m.total();
        // --- the present
        for a in 0..N {
            let bal: u128 = if self.flavour.nft() {
                let v = view(e, &i.c, "balance", (i.u[a].clone(),).into_val(e)).map_err(viol("balance"))?;
                u32::try_from_val(e, &v).expect("u32") as u128
            } else {
                let v = view(e, &i.c, "balance", (i.u[a].clone(),).into_val(e)).map_err(viol("balance"))?;
                let b = i128::try_from_val(e, &v).expect("i128");
                ensure!(b >= 0, "units=balance", "after {:?}: negative balance {} of {}", after, b, NAMES[a]);
                b as u128
            };
            // not part of the `Votes` contract trait: read through the library's public function
            let (units, ncp) = e.as_contract(&i.c, || {
                (stellar_governance::votes::get_voting_units(e, &i.u[a]), stellar_governance::votes::num_checkpoints(e, &i.u[a]))
            });
            ensure!(bal == m.units[a], "units=balance", "after {:?}: token balance of {} is {}, expected {}", after, NAMES[a], bal, m.units[a]);
            ensure!(units == bal, "units=balance", "after {:?}: voting units of {} are {}, token balance is {}", after, NAMES[a], units, bal);
            let gv = self.q(i, "get_votes", (i.u[a].clone(),).into_val(e))?;
            ensure!(
                gv == votes[a],
                "votes=delegated-units",
                "after {:?}: get_votes({}) = {}, but the units of the accounts delegating to it sum to {} (units {:?}, delegates {:?})",
                after,
                NAMES[a],
                gv,
                votes[a],
                m.units,
                m.deleg
            );
            let d = view(e, &i.c, "get_delegate", (i.u[a].clone(),).into_val(e)).map_err(viol("get_delegate"))?;
            let d = Option::<Address>::try_from_val(e, &d).expect("option address");
            let d = d.map(|x| i.u.iter().position(|y| *y == x));
            ensure!(
                d == m.deleg[a].map(Some),
                "delegate",
                "after {:?}: get_delegate({}) = {:?}, the last accepted delegation says {:?}",
                after,
                NAMES[a],
                d,
                m.deleg[a]
            );
            if ncp >= 3 {
                st.count("states-with-account-checkpoints>=3", 1);
            }
            if ncp >= 5 {
                st.count("states-with-account-checkpoints>=5", 1);
            }
        }
        // an address nobody delegates to — here the token contract's own address — has no voting power
        let own = self.q(i, "get_votes", (i.c.clone(),).into_val(e))?;
        ensure!(own == 0, "votes=delegated-units", "after {:?}: get_votes(<the token contract itself>) = {} although nobody delegates to it", after, own);
        if now > m.base {
            let r = view(e, &i.c, "get_votes_at_checkpoint", (i.c.clone(), now - 1).into_val(e)).map_err(viol("get_votes_at_checkpoint"))?;
            let got = u128::try_from_val(e, &r).expect("u128");
            ensure!(got == 0, "past-votes", "after {:?}: get_votes_at_checkpoint(<the token contract itself>, {}) = {} although nobody ever delegated to it", after, now - 1, got);
        }
        let ts = self.q(i, "get_total_supply", SVec::new(e))?;
        ensure!(ts == total, "total=sum(units)", "after {:?}: get_total_supply() = {}, units are {:?}", after, ts, m.units);
        st.count("present-comparisons", (4 * N + 1) as u64);
        // --- every past ledger: 0 (before anything existed) and base ..= now-1
        let mut n = 0u64;
        for l in std::iter::once(0).chain(m.base..now).filter(|l| *l < now) {
            let (pv, pt) = m.at(l);
            for a in 0..N {
                let r = view(e, &i.c, "get_votes_at_checkpoint", (i.u[a].clone(), l).into_val(e));
                ensure!(r.is_ok(), "past-query-answered", "after {:?} at ledger {}: get_votes_at_checkpoint({}, {}) refused: {:?}", after, now, NAMES[a], l, r);
                let got = u128::try_from_val(e, &r.unwrap()).expect("u128");
                ensure!(
                    got == pv[a],
                    "past-votes",
                    "after {:?} at ledger {}: get_votes_at_checkpoint({}, {}) = {}, but at the end of ledger {} the votes of {} were {}",
                    after,
                    now,
                    NAMES[a],
                    l,
                    got,
                    l,
                    NAMES[a],
                    pv[a]
                );
            }
            let r = view(e, &i.c, "get_total_supply_at_checkpoint", (l,).into_val(e));
            ensure!(r.is_ok(), "past-query-answered", "after {:?} at ledger {}: get_total_supply_at_checkpoint({}) refused: {:?}", after, now, l, r);
            let got = u128::try_from_val(e, &r.unwrap()).expect("u128");
            ensure!(
                got == pt,
                "past-total",
                "after {:?} at ledger {}: get_total_supply_at_checkpoint({}) = {}, but at the end of ledger {} the total was {}",
                after,
                now,
                l,
                got,
                l,
                pt
            );
            n += (N + 1) as u64;
        }
        st.count("past-queries", n);
        // --- the current and future ledgers are refused (every account at `now`; one rotating
        //     account further out — the refusal cannot depend on more than the ledger)
        let mut fut = 0u64;
        for (l, accts) in [(now, vec![A, B, C]), (now + 1, vec![(now as usize) % N]), (u32::MAX, vec![(now as usize + 1) % N])] {
            for a in accts {
                let r = view(e, &i.c, "get_votes_at_checkpoint", (i.u[a].clone(), l).into_val(e));
                ensure!(r.is_err(), "future-refused", "at ledger {}: get_votes_at_checkpoint({}, {}) answered {:?}", now, NAMES[a], l, r);
                fut += 1;
            }
            let r = view(e, &i.c, "get_total_supply_at_checkpoint", (l,).into_val(e));
            ensure!(r.is_err(), "future-refused", "at ledger {}: get_total_supply_at_checkpoint({}) answered {:?}", now, l, r);
            fut += 1;
        }
        st.count("future-queries-refused", fut);
        if m.in_ledger >= 2 {
            st.count("states-with->=2-vote-operations-in-one-ledger", 1);
        }
        Ok(())
    }

    /// The idle probe (see `Op::IdleProbe`): `i` is a throw-away copy of the state the model `m`
    /// describes, on which `IDLE` ledgers have passed without any call (old now = `m.now`, new now
    /// = `m.now + IDLE`). Nothing happened in between, hence at the NEW ledger:
    ///   * balance = voting units, get_votes, get_delegate, get_total_supply are what they were;
    ///   * ledger 0 and every ledger `base ..= old now - 1` still answer what the dense table says;
    ///   * every ledger `old now ..= new now - 1` ended with the values that held at the old now —
    ///     evaluated at old now, old now + 1, the middle of the idle period and new now - 1 (the
    ///     table is not extended by 600000 rows);
    ///   * new now, new now + 1 and u32::MAX are still refused.
    /// Returns the number of comparisons. The sub-oracle names are those of `check`; the caller
    /// wraps them into `state-survives-idle`.
    fn idle_check(&self, i: &Inst, m: &Model) -> Result<u64, Violation> {
        let e = &i.e;
        let old = m.now;
        let now = envx::now(e);
        ensure!(now == old + IDLE, "harness", "ledger {} but the model's ledger + {} = {}", now, IDLE, old + IDLE);
        let votes = m.votes();
        let total = m.total();
        let mut n = 0u64;
        // --- the present
        for a in 0..N {
            let v = view(e, &i.c, "balance", (i.u[a].clone(),).into_val(e)).map_err(viol("balance"))?;
            let bal: u128 = if self.flavour.nft() {
                u32::try_from_val(e, &v).expect("u32") as u128
            } else {
                let b = i128::try_from_val(e, &v).expect("i128");
                ensure!(b >= 0, "units=balance", "negative balance {} of {}", b, NAMES[a]);
                b as u128
            };
            let units = e.as_contract(&i.c, || stellar_governance::votes::get_voting_units(e, &i.u[a]));
            ensure!(bal == m.units[a], "units=balance", "token balance of {} is {}, it was {}", NAMES[a], bal, m.units[a]);
            ensure!(units == m.units[a], "units=balance", "voting units of {} are {}, they were {}", NAMES[a], units, m.units[a]);
            let gv = self.q(i, "get_votes", (i.u[a].clone(),).into_val(e))?;
            ensure!(gv == votes[a], "votes=delegated-units", "get_votes({}) = {}, it was {} (units {:?}, delegates {:?})", NAMES[a], gv, votes[a], m.units, m.deleg);
            let d = view(e, &i.c, "get_delegate", (i.u[a].clone(),).into_val(e)).map_err(viol("get_delegate"))?;
            let d = Option::<Address>::try_from_val(e, &d).expect("option address");
            let d = d.map(|x| i.u.iter().position(|y| *y == x));
            ensure!(d == m.deleg[a].map(Some), "delegate", "get_delegate({}) = {:?}, the last accepted delegation says {:?}", NAMES[a], d, m.deleg[a]);
            n += 4;
        }
        let ts = self.q(i, "get_total_supply", SVec::new(e))?;
        ensure!(ts == total, "total=sum(units)", "get_total_supply() = {}, it was {} (units {:?})", ts, total, m.units);
        n += 1;
        // --- the past: what the table records (ledger 0, base ..= old-1), then the idle period
        let mut ledgers: Vec<(u32, Row)> = std::iter::once(0).chain(m.base..old).filter(|l| *l < old).map(|l| (l, m.at(l))).collect();
        for l in [old, old + 1, old + IDLE / 2, now - 1] {
            ledgers.push((l, (votes, total)));
        }
        for (l, (pv, pt)) in ledgers {
            let what = if l < old { "recorded before the idle period" } else { "inside the idle period, in which nothing changed" };
            for a in 0..N {
                let r = view(e, &i.c, "get_votes_at_checkpoint", (i.u[a].clone(), l).into_val(e));
                ensure!(r.is_ok(), "past-query-answered", "at ledger {}: get_votes_at_checkpoint({}, {}) refused: {:?}", now, NAMES[a], l, r);
                let got = u128::try_from_val(e, &r.unwrap()).expect("u128");
                ensure!(
                    got == pv[a],
                    "past-votes",
                    "at ledger {} (idle since {}): get_votes_at_checkpoint({}, {}) = {}, but at the end of ledger {} ({}) the votes of {} were {}",
                    now,
                    old,
                    NAMES[a],
                    l,
                    got,
                    l,
                    what,
                    NAMES[a],
                    pv[a]
                );
            }
            let r = view(e, &i.c, "get_total_supply_at_checkpoint", (l,).into_val(e));
            ensure!(r.is_ok(), "past-query-answered", "at ledger {}: get_total_supply_at_checkpoint({}) refused: {:?}", now, l, r);
            let got = u128::try_from_val(e, &r.unwrap()).expect("u128");
            ensure!(
                got == pt,
                "past-total",
                "at ledger {} (idle since {}): get_total_supply_at_checkpoint({}) = {}, but at the end of ledger {} ({}) the total was {}",
                now,
                old,
                l,
                got,
                l,
                what,
                pt
            );
            n += (N + 1) as u64;
        }
        // --- the new current ledger and the future are still refused
        for (l, accts) in [(now, vec![A, B, C]), (now + 1, vec![(now as usize) % N]), (u32::MAX, vec![(now as usize + 1) % N])] {
            for a in accts {
                let r = view(e, &i.c, "get_votes_at_checkpoint", (i.u[a].clone(), l).into_val(e));
                ensure!(r.is_err(), "future-refused", "at ledger {}: get_votes_at_checkpoint({}, {}) answered {:?}", now, NAMES[a], l, r);
                n += 1;
            }
            let r = view(e, &i.c, "get_total_supply_at_checkpoint", (l,).into_val(e));
            ensure!(r.is_err(), "future-refused", "at ledger {}: get_total_supply_at_checkpoint({}) answered {:?}", now, l, r);
            n += 1;
        }
        Ok(n)
    }

    /// Seed prefixes (executed and modelled in `fresh`).
    fn seed_ops(&self, seed: usize) -> Vec<Op> {
        let via = matches!(self.flavour, Flavour::WrapperSpender | Flavour::ExampleSelfSpender);
        let del = |a, b, re| Op::Delegate { a, b, re };
        match (seed, self.flavour.nft()) {
            (0, _) | (3, _) => vec![],
            // a history with 5 checkpoints for A and for the total (ledgers 10, 11, 13, 14, 15:
            // one gap), several operations inside one ledger, an undelegated holder for a
            // while, a re-delegation; ends at ledger 16
            (1, false) => {
                let tr = |from, to, a| Op::Transfer { from, to, a, via };
                let burn = |from: usize, a| if self.flavour.has_burn() { Op::Burn { from, a, via } } else { Op::Transfer { from, to: (from + 2) % N, a, via } };
                vec![
                    Op::Mint { to: A, a: 3 },
                    del(A, A, false),
                    del(B, A, false),
                    Op::Advance(1), // 11
                    Op::Mint { to: B, a: 2 },
                    Op::Advance(2), // 13
                    tr(A, C, 1),
                    Op::Mint { to: C, a: 1 },
                    Op::Advance(1), // 14
                    burn(B, 1),
                    del(C, B, false),
                    Op::Advance(1), // 15
                    Op::Mint { to: C, a: 2 },
                    del(B, B, true),
                    Op::Advance(1), // 16
                ]
            }
            (1, true) => {
                let tr = |from, to, id, via| Op::NTransfer { from, to, id, via };
                vec![
                    Op::NMint { to: A, id: 0 },
                    Op::NMint { to: A, id: 1 },
                    del(A, A, false),
                    del(B, A, false),
                    Op::Advance(1), // 11
                    Op::NMint { to: B, id: 2 },
                    Op::Advance(2), // 13
                    tr(A, C, 0, false),
                    Op::NMint { to: C, id: 3 },
                    Op::Advance(1), // 14
                    Op::NBurn { from: B, id: 2, via: true },
                    del(C, B, false),
                    Op::Advance(1), // 15
                    Op::NBurn { from: C, id: 0, via: false },
                    tr(C, A, 3, true),
                    del(B, B, true),
                    Op::Advance(1), // 16
                ]
            }
            // amounts at the top of the i128 range of balances (units and votes are u128)
            (2, false) => vec![
                Op::Mint { to: A, a: i128::MAX - 3 },
                del(A, A, false),
                Op::Mint { to: B, a: 1 },
                del(B, A, false),
                Op::Advance(1),
            ],
            _ => unreachable!(),
        }
    }
}

impl World for Vw {
    type Op = Op;
    type Model = Model;
    type Inst = Inst;

    fn name(&self) -> String {
        let n = match self.flavour {
            Flavour::Wrapper => "fungible-votes-wrapper",
            Flavour::WrapperSpender => "fungible-votes-wrapper-spender",
            Flavour::Example => "fungible-votes-example",
            Flavour::ExampleSelfSpender => "fungible-votes-example-holder-as-own-spender",
            Flavour::Nft => "nft-votes-wrapper",
            Flavour::NftSeq => "nft-votes-wrapper-seq",
        };
        format!("{n}{}/{}", if self.thorough { "-t" } else { "" }, SEED_NAMES[self.seed])
    }
    fn seed_name(&self, _s: usize) -> String {
        SEED_NAMES[self.seed].to_string()
    }

    fn fresh(&self, _engine_seed: usize) -> (Inst, Model) {
        let seed = self.seed;
        // seed 3 starts in the very first ledger: no ledger has ended yet, ledger 0 IS the current one
        let start = if seed == 3 { 0 } else { START };
        let e = envx::mk_env(start);
        let u = [Address::generate(&e), Address::generate(&e), Address::generate(&e)];
        let sp = Address::generate(&e);
        let owner = Address::generate(&e);
        let c = match self.flavour {
            Flavour::Wrapper | Flavour::WrapperSpender => e.register(tokens::VotesTok, ()),
            Flavour::Example | Flavour::ExampleSelfSpender => e.register(votes_example::ExampleContract, (owner,)),
            Flavour::Nft | Flavour::NftSeq => e.register(nft_votes::NftVotesTok, ()),
        };
        // spender paths: unlimited approvals that outlive every explored horizon
        let live = start + 100_000;
        match self.flavour {
            Flavour::WrapperSpender => {
                for k in 0..N {
                    call_mocked(&e, &c, "approve", (u[k].clone(), sp.clone(), i128::MAX, live).into_val(&e)).expect("approve");
                }
            }
            Flavour::ExampleSelfSpender => {
                for k in 0..N {
                    call_mocked(&e, &c, "approve", (u[k].clone(), u[k].clone(), i128::MAX, live).into_val(&e)).expect("approve");
                }
            }
            Flavour::Nft | Flavour::NftSeq => {
                for k in 0..N {
                    call_mocked(&e, &c, "approve_for_all", (u[k].clone(), sp.clone(), live).into_val(&e)).expect("approve_for_all");
                }
            }
            _ => {}
        }
        let inst = Inst { e, c, u, sp };
        let mut m = Model {
            base: start.saturating_sub(1),
            now: start,
            units: [0; N],
            deleg: [None; N],
            owner: BTreeMap::new(),
            minted: 0,
            past: if start == 0 { vec![] } else { vec![([0; N], 0)] },
            in_ledger: 0,
        };
        for op in self.seed_ops(seed) {
            let r = self.exec(&inst, &op).unwrap_or_else(|_| panic!("seed operation {op:?} refused"));
            self.model_step(&mut m, &op, r).unwrap_or_else(|v| panic!("seed operation {op:?}: {}", v.detail));
        }
        (inst, m)
    }

    fn ops(&self, _i: &Inst, m: &Model, _d: usize) -> Vec<Op> {
        let mut v = vec![];
        let dedup = |xs: Vec<i128>| {
            let mut out: Vec<i128> = vec![];
            for x in xs {
                if !out.contains(&x) {
                    out.push(x);
                }
            }
            out
        };
        let via = matches!(self.flavour, Flavour::WrapperSpender | Flavour::ExampleSelfSpender);
        if self.flavour.nft() {
            let cap = 4;
            if m.owner.len() < cap {
                // a fresh id: one above everything minted so far
                let id = m.owner.keys().max().map(|x| x + 1).unwrap_or(0).max(m.minted);
                for to in 0..N {
                    v.push(Op::NMint { to, id });
                }
            }
            for (id, o) in &m.owner {
                for to in 0..N {
                    v.push(Op::NTransfer { from: *o, to, id: *id, via: false });
                    if self.thorough || to == (*o + 1) % N {
                        v.push(Op::NTransfer { from: *o, to, id: *id, via: true });
                    }
                }
                v.push(Op::NBurn { from: *o, id: *id, via: false });
                v.push(Op::NBurn { from: *o, id: *id, via: true });
                // not the owner: must not move anything
                v.push(Op::NTransfer { from: (*o + 1) % N, to: *o, id: *id, via: false });
                v.push(Op::NBurn { from: (*o + 2) % N, id: *id, via: false });
            }
            // a token that does not exist
            v.push(Op::NBurn { from: A, id: 1000, via: false });
        } else {
            let mut mint = vec![1i128, 2];
            if self.thorough {
                mint.push(0);
            }
            for to in 0..N {
                for a in &mint {
                    v.push(Op::Mint { to, a: *a });
                }
            }
            for from in 0..N {
                let bal = m.units[from] as i128;
                let mut am = if bal == 0 { vec![1] } else { vec![1, 2, bal] };
                if self.thorough {
                    am.push(0);
                    am.push(bal.saturating_add(1));
                }
                let am = dedup(am);
                for to in 0..N {
                    for a in &am {
                        v.push(Op::Transfer { from, to, a: *a, via });
                    }
                }
                if self.flavour.has_burn() {
                    for a in &am {
                        v.push(Op::Burn { from, a: *a, via });
                    }
                }
            }
        }
        for a in 0..N {
            for b in 0..N {
                v.push(Op::Delegate { a, b, re: m.deleg[a].is_some() });
            }
        }
        v.push(Op::Advance(1));
        v.push(Op::Advance(3));
        v.push(Op::IdleProbe);
        v
    }

    fn kind(&self, op: &Op) -> String {
        match op {
            Op::Mint { .. } | Op::NMint { .. } => "mint",
            Op::Burn { via: false, .. } | Op::NBurn { via: false, .. } => "burn",
            Op::Burn { via: true, .. } | Op::NBurn { via: true, .. } => "burn_from",
            Op::Transfer { via: false, .. } | Op::NTransfer { via: false, .. } => "transfer",
            Op::Transfer { via: true, .. } | Op::NTransfer { via: true, .. } => "transfer_from",
            Op::Delegate { re: false, .. } => "delegate",
            Op::Delegate { re: true, .. } => "redelegate",
            Op::Advance(_) => "advance",
            Op::IdleProbe => "idle-probe",
        }
        .to_string()
    }

    fn apply(&self, i: &mut Inst, op: &Op) {
        let _ = self.exec(i, op);
    }

    fn atomic_on_refusal(&self, op: &Op) -> bool {
        !matches!(op, Op::Advance(_))
    }

    fn step(&self, i: &mut Inst, m: &mut Model, op: &Op, cx: &mut StepCtx<Self>) -> Result<bool, Violation> {
        if matches!(op, Op::IdleProbe) {
            let copy = cx.rebuild();
            envx::advance(&copy.e, IDLE);
            let n = self.idle_check(&copy, m).map_err(idle_viol)?;
            cx.stats.count("idle-probes", 1);
            cx.stats.count("getter-comparisons-after-long-idle", n);
            return Ok(false);
        }
        // A refusal is always compatible with this property (it restricts what accepted
        // operations and queries may do); the engine verifies that it changed nothing.
        let Ok(seq_id) = self.exec(i, op) else { return Ok(false) };
        self.model_step(m, op, seq_id)?;
        self.check(i, m, cx.stats, op)?;
        if let Op::Delegate { a, b, .. } = op {
            if a == b {
                cx.stats.count("self-delegations", 1);
            }
        }
        if let Op::Transfer { from, to, a, .. } = op {
            if from == to && *a > 0 {
                cx.stats.count("self-transfers", 1);
            }
            if *a > 0 && m.units[*from] == 0 && from != to {
                cx.stats.count("full-balance-transfers", 1);
            }
        }
        Ok(true)
    }

    fn key(&self, i: &Inst) -> [u8; 32] {
        envx::storage_digest(&i.e, true)
    }

    fn model_digest(&self, m: &Model) -> u64 {
        // the whole observable model (present and recorded past) is a function of storage +
        // ledger if the implementation is right: differential oracle at merge time
        vh::engine::dig(&(&m.units, &m.deleg, &m.past, m.now))
    }
}

fn main() {
    main_with(
        "C13",
        "model_checking",
        "level-BFS over histories of mint / burn / transfer (incl. self-transfer, full balance; holder and pre-approved-spender paths) / delegate(a->b incl. self and re-delegation) / advance(1|3) on 3 accounts, amounts {1,2,balance} (thorough: +0, balance+1), on the real FungibleVotes wrapper, the fungible-votes example and a NonFungibleVotes wrapper (explicit and sequential ids); seeds {empty at ledger 10, empty at ledger 0 (no ledger has ended yet), a 5-checkpoint history ending at ledger 16, thorough: balance ~ i128::MAX}; after every accepted operation: balance = voting units, get_votes = sum of units of current delegators, total = sum of units, get_delegate, and get_votes_at_checkpoint / get_total_supply_at_checkpoint for ledger 0 and EVERY ledger start-1..now-1 against a dense end-of-ledger table, queries at now / now+1 / u32::MAX refused; idle probe in every expanded state of every world: on a rebuilt copy 600000 ledgers pass without any call (beyond every temporary lifetime and VOTES_EXTEND_AMOUNT = 518400), then, at the new ledger, balances, voting units, get_votes, get_delegate and the total are unchanged, ledger 0 and every recorded ledger still answer what the table says, the ledgers old now / old now+1 / the middle of the idle period / new now-1 answer the values that held at the old now, and new now / new now+1 / u32::MAX are refused; states merged by canonical storage digest + ledger, with the model (incl. its whole past table) as differential oracle at merge; non-trivial = distinct state reached through >=1 accepted operation",
        |tier: Tier, r: &mut Runner| {
            let th = tier == Tier::Thorough;
            // (flavour, seed, depth, wall cap in s). Measured cost per transition: ~0.7 ms from the
            // empty seed, ~3 ms from the long-history seed (15-17 replayed calls + ~45 queries).
            // Whole plan: quick ~110 CPU-s (~100k transitions), thorough ~4000 CPU-s (~3.5M
            // transitions); the caps only bite on a machine that is busy with other work (their
            // sums, 40 s and 540 s, leave room for the engine's per-chunk overshoot).
            use Flavour::*;
            let plan: Vec<(Flavour, usize, usize, u64)> = if th {
                vec![
                    (Wrapper, 0, 5, 70),
                    (Wrapper, 1, 4, 160),
                    (Wrapper, 2, 3, 6),
                    (WrapperSpender, 0, 4, 20),
                    (WrapperSpender, 1, 3, 25),
                    (Example, 0, 4, 12),
                    (Example, 1, 3, 18),
                    (Nft, 0, 6, 145),
                    (Nft, 1, 4, 70),
                    (NftSeq, 0, 4, 6),
                    (NftSeq, 1, 3, 8),
                    (Wrapper, 3, 4, 20),
                    (Example, 3, 3, 10),
                    (ExampleSelfSpender, 0, 4, 12),
                    (Nft, 3, 4, 20),
                ]
            } else {
                vec![
                    (Wrapper, 0, 4, 7),
                    // (3.3-3.8 s on a free machine incl. 490 idle probes; 7.9 s measured next to a
                    //  16-thread job)
                    (Wrapper, 1, 3, 10),
                    (WrapperSpender, 0, 3, 3),
                    (WrapperSpender, 1, 2, 2),
                    (Example, 0, 3, 2),
                    (Example, 1, 2, 2),
                    (ExampleSelfSpender, 0, 3, 2),
                    (Nft, 0, 4, 4),
                    (Nft, 1, 3, 4),
                    (NftSeq, 0, 3, 2),
                    (Wrapper, 3, 3, 2),
                    (Nft, 3, 3, 2),
                    // amounts at the top of the i128 range (units and votes are u128; nothing may be narrower)
                    (Wrapper, 2, 2, 3),
                ]
            };
            for (flavour, seed, depth, wall) in plan {
                r.world(&Vw { flavour, thorough: th, seed }, &Bounds::new(depth, wall));
            }
            if let Some(rep) = r.report() {
                rep.require(
                    &["mint", "burn", "burn_from", "transfer", "transfer_from", "delegate", "redelegate", "advance"],
                    &["burn", "burn_from", "transfer", "transfer_from", "redelegate"],
                );
                rep.require_counter(&[
                    "idle-probes",
                    "getter-comparisons-after-long-idle",
                    "past-queries",
                    "future-queries-refused",
                    "self-delegations",
                    "self-transfers",
                    "full-balance-transfers",
                    "states-with->=2-vote-operations-in-one-ledger",
                    "states-with-account-checkpoints>=3",
                    "states-with-account-checkpoints>=5",
                ]);
            }
        },
    );
}

#[allow(dead_code)]
fn _unused() {
    let _ = (SString::from_str, B, C);
}
