//! C03 — smart-account authorization is sound and follows rule precedence.
//!
//! Phase 1 (BFS): histories of add/remove context rule, add/remove signer, add/remove policy,
//! update valid_until on the real `multisig-smart-account/account` example contract (the account's
//! own authorization is mocked here; configuration is C20's subject).
//! Phase 2 (exhaustive, for EVERY configuration reached): the real `__check_auth` is called for
//! every single context of {call T1, call T2 (no rule of its own), create W}, every supplied-signer
//! map (s1, s2 in {absent, valid, invalid}; delegated d in {absent, authorized, not authorized};
//! unknown u in {absent, valid, invalid}), ledger in {now, now+2}, every assignment of can_enforce
//! answers and one enforce refusal for the policies present; plus ordered pairs of contexts with a
//! smaller signer family. An independent resolver written from the statement predicts success and
//! the exact multiset of enforce calls (policy, rule id, context, authenticated signers).

use soroban_sdk::auth::{Context, ContractContext, ContractExecutable, CreateContractHostFnContext, CreateContractWithConstructorHostFnContext};
use soroban_sdk::testutils::{Address as _, Ledger as _};
use soroban_sdk::xdr::{ScVal, SorobanAuthorizationEntry};
use soroban_sdk::{Address, Bytes, BytesN, Env, IntoVal, Map, String as SString, Symbol, TryFromVal, Val, Vec as SVec};
use stellar_accounts::smart_account::{ContextRule, ContextRuleType, Signatures, Signer, SmartAccountError};
use std::collections::BTreeSet;
use vh::auth::{self, call_entries, call_mocked, view};
use vh::cli::{main_with, Runner};
use vh::engine::{Bounds, StepCtx, Violation, World};
use vh::ensure;
use vh::envx;
use vh::report::Tier;

#[path = "../shared/c03_wrap.rs"]
mod wrap;
#[path = "/repo/examples/multisig-smart-account/account/src/contract.rs"]
mod account_example;

// signer universe: 0 = s1, 1 = s2 (External), 2 = d (Delegated), 3 = u (External, in no rule)
const S1: usize = 0;
const S2: usize = 1;
const D: usize = 2;
const U: usize = 3;
const SNAMES: [&str; 4] = ["s1", "s2", "d", "u"];

#[derive(Clone, Copy, Debug, PartialEq, Eq, PartialOrd, Ord, Hash)]
enum CType {
    Default,
    CallT1,
    CreateW,
}

#[derive(Clone, Copy, Debug, PartialEq, Eq, PartialOrd, Ord, Hash)]
enum Ctx {
    CallT1,
    /// another call of the same contract T1 (function `withdraw`): same context type as CallT1
    CallT1b,
    CallT2,
    CreateW,
    /// creation (with constructor) of a wasm hash no rule names: only Default rules apply
    CreateOther,
}

#[derive(Clone, Copy, Debug, PartialEq, Eq)]
enum Valid {
    None,
    Now,
    Next,
}

#[derive(Clone, Debug, PartialEq, Eq)]
enum Op {
    AddRule { t: CType, signers: Vec<usize>, policies: Vec<usize>, valid: Valid },
    RemoveRule { id: u32 },
    AddSigner { id: u32, s: usize },
    RemoveSigner { id: u32, s: usize },
    AddPolicy { id: u32, p: usize },
    RemovePolicy { id: u32, p: usize },
    SetValid { id: u32, valid: Valid },
    /// update_context_rule_name: must not touch anything that decides the rule's requirement or lifetime
    Rename { id: u32 },
}

#[derive(Clone, Debug, PartialEq, Eq, Hash)]
struct Rule {
    id: u32,
    t: CType,
    signers: BTreeSet<usize>,
    policies: BTreeSet<usize>,
    valid_until: Option<u32>,
}

#[derive(Clone, Copy, Debug, PartialEq, Eq, PartialOrd, Ord)]
enum Sig {
    Absent,
    Valid,
    Invalid,
    /// external signers only: the verifier contract fails instead of returning false
    Trap,
}

thread_local! {
    /// which scripted policies are in only-transfer mode during the current group of probes
    static ONLY_TRANSFER: std::cell::Cell<[bool; 2]> = const { std::cell::Cell::new([false, false]) };
}

struct Acc {
    thorough: bool,
    /// which seed configuration forms level 0 (0 = the constructor's rule, 1 = six rules)
    seed: usize,
    /// the signer no rule names is "S1's key bytes under ANOTHER verifier contract" instead of
    /// "another key under the same verifier"
    alias_u: bool,
}

struct Inst {
    e: Env,
    acc: Address,
    verifier: Address,
    /// a second, equally accepting verifier contract that no rule names
    verifier2: Address,
    alias_u: bool,
    pol: [Address; 2],
    t1: Address,
    t2: Address,
    target: Address,
    d: Address,
    wasm: BytesN<32>,
    base: u32,
}

impl Inst {
    fn signer(&self, k: usize) -> Signer {
        match k {
            D => Signer::Delegated(self.d.clone()),
            U if self.alias_u => Signer::External(self.verifier2.clone(), Bytes::from_array(&self.e, &[S1 as u8 + 1; 4])),
            _ => Signer::External(self.verifier.clone(), Bytes::from_array(&self.e, &[k as u8 + 1; 4])),
        }
    }
    fn signer_idx(&self, s: &Signer) -> usize {
        (0..4).find(|k| self.signer(*k) == *s).unwrap_or(99)
    }
    fn ctype(&self, t: CType) -> ContextRuleType {
        match t {
            CType::Default => ContextRuleType::Default,
            CType::CallT1 => ContextRuleType::CallContract(self.t1.clone()),
            CType::CreateW => ContextRuleType::CreateContract(self.wasm.clone()),
        }
    }
    fn context(&self, c: Ctx) -> Context {
        let e = &self.e;
        match c {
            Ctx::CallT1 => Context::Contract(ContractContext { contract: self.t1.clone(), fn_name: Symbol::new(e, "transfer"), args: (1u32,).into_val(e) }),
            Ctx::CallT1b => Context::Contract(ContractContext { contract: self.t1.clone(), fn_name: Symbol::new(e, "withdraw"), args: (2u32,).into_val(e) }),
            Ctx::CallT2 => Context::Contract(ContractContext { contract: self.t2.clone(), fn_name: Symbol::new(e, "other"), args: SVec::new(e) }),
            Ctx::CreateW => Context::CreateContractHostFn(CreateContractHostFnContext {
                executable: ContractExecutable::Wasm(self.wasm.clone()),
                salt: BytesN::from_array(e, &[2u8; 32]),
            }),
            Ctx::CreateOther => Context::CreateContractWithCtorHostFn(CreateContractWithConstructorHostFnContext {
                executable: ContractExecutable::Wasm(BytesN::from_array(e, &[0x77u8; 32])),
                salt: BytesN::from_array(e, &[3u8; 32]),
                constructor_args: (5u32,).into_val(e),
            }),
        }
    }
    fn valid(&self, v: Valid) -> Option<u32> {
        match v {
            Valid::None => None,
            Valid::Now => Some(self.base),
            Valid::Next => Some(self.base + 1),
        }
    }
}

impl Acc {
    fn call(&self, i: &Inst, op: &Op) -> (&'static str, SVec<Val>) {
        let e = &i.e;
        match op {
            Op::AddRule { t, signers, policies, valid } => {
                let mut sv: SVec<Signer> = SVec::new(e);
                for s in signers {
                    sv.push_back(i.signer(*s));
                }
                let mut pm: Map<Address, Val> = Map::new(e);
                for p in policies {
                    pm.set(i.pol[*p].clone(), ().into_val(e));
                }
                ("add_context_rule", (i.ctype(*t), SString::from_str(e, "r"), i.valid(*valid), sv, pm).into_val(e))
            }
            Op::RemoveRule { id } => ("remove_context_rule", (*id,).into_val(e)),
            Op::AddSigner { id, s } => ("add_signer", (*id, i.signer(*s)).into_val(e)),
            Op::RemoveSigner { id, s } => ("remove_signer", (*id, i.signer(*s)).into_val(e)),
            Op::AddPolicy { id, p } => ("add_policy", (*id, i.pol[*p].clone(), ()).into_val(e)),
            Op::RemovePolicy { id, p } => ("remove_policy", (*id, i.pol[*p].clone()).into_val(e)),
            Op::SetValid { id, valid } => ("update_context_rule_valid_until", (*id, i.valid(*valid)).into_val(e)),
            Op::Rename { id } => ("update_context_rule_name", (*id, soroban_sdk::String::from_str(e, "renamed")).into_val(e)),
        }
    }
    fn exec(&self, i: &Inst, op: &Op) -> bool {
        let (f, a) = self.call(i, op);
        call_mocked(&i.e, &i.acc, f, a).is_ok()
    }

    /// The configuration as the account's getters report it.
    fn rules(&self, i: &Inst) -> Result<Vec<Rule>, Violation> {
        let e = &i.e;
        let mut out = vec![];
        for t in [CType::Default, CType::CallT1, CType::CreateW] {
            let v = view(e, &i.acc, "get_context_rules", (i.ctype(t),).into_val(e)).map_err(|x| Violation::new("getter", format!("get_context_rules: {x:?}")))?;
            let rs: SVec<ContextRule> = SVec::try_from_val(e, &v).map_err(|_| Violation::new("getter", "decode rules".into()))?;
            for r in rs.iter() {
                out.push(Rule {
                    id: r.id,
                    t,
                    signers: r.signers.iter().map(|s| i.signer_idx(&s)).collect(),
                    policies: r.policies.iter().map(|p| i.pol.iter().position(|x| *x == p).unwrap_or(99)).collect(),
                    valid_until: r.valid_until,
                });
            }
        }
        Ok(out)
    }

    /// Reference resolver, written from the statement: unexpired rules of the context's type,
    /// newest first, then unexpired Default rules, newest first; the first whose requirement the
    /// supplied signers meet wins.
    fn resolve(rules: &[Rule], ctx: Ctx, supplied: &BTreeSet<usize>, ledger: u32, can: [bool; 2]) -> Option<(u32, BTreeSet<usize>, BTreeSet<usize>)> {
        let only_t = ONLY_TRANSFER.with(|c| c.get());
        // a policy in only-transfer mode accepts nothing but calls of a function named `transfer`
        let can = [can[0] && !(only_t[0] && ctx != Ctx::CallT1), can[1] && !(only_t[1] && ctx != Ctx::CallT1)];
        let want = match ctx {
            Ctx::CallT1 | Ctx::CallT1b => Some(CType::CallT1),
            Ctx::CallT2 | Ctx::CreateOther => None,
            Ctx::CreateW => Some(CType::CreateW),
        };
        let live = |r: &&Rule| r.valid_until.map(|v| ledger <= v).unwrap_or(true);
        let mut specific: Vec<&Rule> = rules.iter().filter(|r| Some(r.t) == want).filter(live).collect();
        specific.sort_by(|a, b| b.id.cmp(&a.id));
        let mut defaults: Vec<&Rule> = rules.iter().filter(|r| r.t == CType::Default).filter(live).collect();
        defaults.sort_by(|a, b| b.id.cmp(&a.id));
        for r in specific.into_iter().chain(defaults) {
            let authd: BTreeSet<usize> = r.signers.intersection(supplied).cloned().collect();
            let met = if r.policies.is_empty() { authd == r.signers } else { r.policies.iter().all(|p| *p < 2 && can[*p]) };
            if met {
                return Some((r.id, authd, r.policies.clone()));
            }
        }
        None
    }

    /// One call of the real `__check_auth`; returns (accepted, enforce log as (policy, rule id, context index, signers)).
    #[allow(clippy::too_many_arguments)]
    fn probe(&self, i: &Inst, ctxs: &[Ctx], sigs: [Sig; 4], present: &BTreeSet<usize>) -> (bool, Vec<(usize, u32, usize, BTreeSet<usize>)>) {
        let e = &i.e;
        let payload = BytesN::<32>::from_array(e, &[9u8; 32]);
        let mut map: Map<Signer, Bytes> = Map::new(e);
        let mut entries: Vec<SorobanAuthorizationEntry> = vec![];
        for k in 0..4 {
            match (k, sigs[k]) {
                (_, Sig::Absent) => {}
                (D, v) => {
                    map.set(i.signer(D), Bytes::new(e));
                    if v == Sig::Valid {
                        let args: SVec<Val> = (payload.clone(),).into_val(e);
                        entries.push(auth::entry(e, &auth::sc(&i.d), &auth::invocation(e, &i.acc, "__check_auth", &args)));
                    }
                }
                (_, Sig::Trap) => map.set(i.signer(k), Bytes::from_array(e, b"trap")),
                (_, v) => map.set(i.signer(k), Bytes::from_array(e, if v == Sig::Valid { b"ok" } else { b"no" })),
            }
        }
        e.set_auths(&entries);
        let mut cv: SVec<Context> = SVec::new(e);
        for c in ctxs {
            cv.push_back(i.context(*c));
        }
        let r = e.try_invoke_contract_check_auth::<SmartAccountError>(&i.acc, &payload, Signatures(map).into_val(e), &cv);
        let ok = r.is_ok();
        let mut log = vec![];
        for p in present.iter().cloned().filter(|p| *p < 2) {
            let v = view(e, &i.pol[p], "log", SVec::new(e)).expect("log");
            let l: SVec<Val> = SVec::try_from_val(e, &v).unwrap();
            for rec in l.iter() {
                let (rid, ctx, signers): (u32, Context, SVec<Signer>) = <(u32, Context, SVec<Signer>)>::try_from_val(e, &rec).expect("log record");
                let sc = |c: &Context| -> ScVal {
                    let v: Val = c.clone().into_val(e);
                    ScVal::try_from_val(e, &v).expect("ctx scval")
                };
                let got = sc(&ctx);
                let ci = ctxs.iter().position(|c| sc(&i.context(*c)) == got).unwrap_or(99);
                log.push((p, rid, ci, signers.iter().map(|s| i.signer_idx(&s)).collect()));
            }
            if !l.is_empty() {
                call_mocked(e, &i.pol[p], "reset_log", SVec::new(e)).expect("reset");
            }
        }
        log.sort();
        (ok, log)
    }

    /// Environment of a group of probes: ledger position and the scripted policies' answers.
    fn set_env(&self, i: &Inst, ledger: u32, can: [bool; 2], refuse: [bool; 2]) {
        i.e.ledger().with_mut(|li| li.sequence_number = ledger);
        for p in 0..2 {
            call_mocked(&i.e, &i.pol[p], "set_flags", (can[p], refuse[p]).into_val(&i.e)).expect("flags");
        }
    }

    fn expected(rules: &[Rule], ctxs: &[Ctx], sigs: [Sig; 4], ledger: u32, can: [bool; 2], refuse: [bool; 2]) -> (bool, Vec<(usize, u32, usize, BTreeSet<usize>)>, String) {
        if sigs.iter().any(|s| *s == Sig::Invalid || *s == Sig::Trap) {
            return (false, vec![], "a supplied signature does not verify".into());
        }
        let supplied: BTreeSet<usize> = (0..4).filter(|k| sigs[*k] == Sig::Valid).collect();
        let mut log = vec![];
        let mut refused = false;
        let mut chosen = vec![];
        for c in ctxs.iter() {
            // equal contexts in one batch are indistinguishable in the policies' logs: both are
            // recorded under the first position, and the multiset keeps "once per context"
            let ci = ctxs.iter().position(|x| x == c).unwrap();
            match Self::resolve(rules, *c, &supplied, ledger, can) {
                None => return (false, vec![], format!("no rule covers context {c:?}")),
                Some((rid, authd, pols)) => {
                    chosen.push(rid);
                    for p in pols {
                        if p < 2 && refuse[p] {
                            refused = true;
                        }
                        log.push((p, rid, ci, authd.clone()));
                    }
                }
            }
        }
        if refused {
            return (false, vec![], format!("rules {chosen:?} chosen but an enforce hook refuses"));
        }
        log.sort();
        (true, log, format!("rules {chosen:?} chosen"))
    }

    /// Phase 2 for the configuration currently held by `i`.
    fn check_all(&self, i: &Inst, cx: &mut StepCtx<Self>) -> Result<(), Violation> {
        let rules = self.rules(i)?;
        let pols_present: BTreeSet<usize> = rules.iter().flat_map(|r| r.policies.iter().cloned()).collect();
        let flag_sets: Vec<([bool; 2], [bool; 2])> = {
            let mut v = vec![];
            let opts = |p: usize| if pols_present.contains(&p) { vec![true, false] } else { vec![true] };
            for c0 in opts(0) {
                for c1 in opts(1) {
                    v.push(([c0, c1], [false, false]));
                    if pols_present.contains(&0) {
                        v.push(([c0, c1], [true, false]));
                    }
                    if self.thorough && pols_present.contains(&1) {
                        v.push(([c0, c1], [false, true]));
                    }
                }
            }
            v
        };
        let tri = [Sig::Absent, Sig::Valid, Sig::Invalid];
        let mut sig_maps: Vec<[Sig; 4]> = vec![];
        for a in tri {
            for b in tri {
                for d in tri {
                    for u in if self.thorough { tri.to_vec() } else { vec![Sig::Absent, Sig::Valid] } {
                        if !self.thorough && u == Sig::Valid && (a == Sig::Invalid || b == Sig::Invalid) {
                            continue;
                        }
                        sig_maps.push([a, b, d, u]);
                    }
                }
            }
        }
        // a verifier that fails instead of answering false: alone, and next to otherwise sufficient signers
        for rest in [[Sig::Absent; 4], [Sig::Absent, Sig::Valid, Sig::Valid, Sig::Absent], [Sig::Valid, Sig::Valid, Sig::Valid, Sig::Absent]] {
            for k in [S1, S2, U] {
                let mut m = rest;
                m[k] = Sig::Trap;
                sig_maps.push(m);
            }
        }
        let ledgers = [i.base, i.base + 2];
        let mut n = 0u64;
        let mut accepted = 0u64;
        let mut run = |ctxs: &[Ctx], sigs: [Sig; 4], ledger: u32, can: [bool; 2], refuse: [bool; 2]| -> Result<(), Violation> {
            let (want_ok, want_log, why) = Self::expected(&rules, ctxs, sigs, ledger, can, refuse);
            let (ok, log) = self.probe(i, ctxs, sigs, &pols_present);
            n += 1;
            if ok {
                accepted += 1;
            }
            let desc = || {
                format!(
                    "contexts {:?}, supplied {:?}, ledger {} (rules created at {}), can_enforce {:?}, enforce refuses {:?}; configuration {:?}",
                    ctxs,
                    (0..4).filter(|k| sigs[*k] != Sig::Absent).map(|k| format!("{}:{:?}", SNAMES[k], sigs[k])).collect::<Vec<_>>(),
                    ledger,
                    i.base,
                    can,
                    refuse,
                    rules
                )
            };
            ensure!(
                ok == want_ok,
                if ok { "check_auth-accepted-unsoundly" } else { "check_auth-refused-covered-request" },
                "__check_auth returned ok={} but the statement gives {} ({}) for {}",
                ok,
                want_ok,
                why,
                desc()
            );
            ensure!(log == want_log, "enforce-calls", "policies received enforce calls {:?}, expected {:?} ({}) for {}", log, want_log, why, desc());
            Ok(())
        };
        let timed = rules.iter().any(|r| r.valid_until.is_some());
        for (can, refuse) in &flag_sets {
            for ledger in ledgers {
                if ledger != i.base && !timed && !self.thorough {
                    continue; // no rule can expire: the later ledger position is the same case
                }
                self.set_env(i, ledger, *can, *refuse);
                for c in [Ctx::CallT1, Ctx::CallT2, Ctx::CreateW, Ctx::CreateOther] {
                    for sigs in &sig_maps {
                        run(&[c], *sigs, ledger, *can, *refuse)?;
                    }
                }
            }
        }
        // batches of two contexts: a smaller signer family
        let fam: Vec<[Sig; 4]> = vec![
            [Sig::Absent; 4],
            [Sig::Valid, Sig::Absent, Sig::Absent, Sig::Absent],
            [Sig::Absent, Sig::Valid, Sig::Absent, Sig::Absent],
            [Sig::Absent, Sig::Absent, Sig::Valid, Sig::Absent],
            [Sig::Valid, Sig::Valid, Sig::Absent, Sig::Absent],
            [Sig::Valid, Sig::Valid, Sig::Valid, Sig::Valid],
            [Sig::Valid, Sig::Valid, Sig::Invalid, Sig::Absent],
        ];
        for (can, refuse) in &flag_sets {
            self.set_env(i, i.base, *can, *refuse);
            for a in [Ctx::CallT1, Ctx::CallT2, Ctx::CreateW, Ctx::CreateOther] {
                for b in [Ctx::CallT1, Ctx::CallT2, Ctx::CreateW] {
                    if !self.thorough && a == b && a == Ctx::CallT2 {
                        continue;
                    }
                    for sigs in &fam {
                        run(&[a, b], *sigs, i.base, *can, *refuse)?;
                    }
                }
            }
        }
        // context-dependent policies: two calls of the SAME contract in one batch, of which a policy in
        // only-transfer mode accepts one and refuses the other (both orders); every context must be put
        // to the policies of its rule
        if !pols_present.is_empty() {
            self.set_env(i, i.base, [true, true], [false, false]);
            for only in [[true, false], [false, true], [true, true]] {
                if (only[0] && !pols_present.contains(&0)) || (only[1] && !pols_present.contains(&1)) {
                    continue;
                }
                for p in 0..2 {
                    call_mocked(&i.e, &i.pol[p], "set_only_transfer", (only[p],).into_val(&i.e)).expect("only-transfer");
                }
                ONLY_TRANSFER.with(|c| c.set(only));
                let mut r = Ok(());
                'outer: for pair in [[Ctx::CallT1, Ctx::CallT1b], [Ctx::CallT1b, Ctx::CallT1], [Ctx::CallT1, Ctx::CallT1]] {
                    for sigs in [[Sig::Valid, Sig::Valid, Sig::Valid, Sig::Absent], [Sig::Absent; 4]] {
                        r = run(&pair, sigs, i.base, [true, true], [false, false]);
                        if r.is_err() {
                            break 'outer;
                        }
                    }
                }
                ONLY_TRANSFER.with(|c| c.set([false, false]));
                for p in 0..2 {
                    call_mocked(&i.e, &i.pol[p], "set_only_transfer", (false,).into_val(&i.e)).expect("only-transfer off");
                }
                r?;
            }
        }
        self.set_env(i, i.base, [true, true], [false, false]);
        cx.stats.count("check_auth-calls", n);
        cx.stats.count("check_auth-accepted", accepted);
        cx.stats.count("check_auth-refused", n - accepted);
        cx.stats.count("configurations-checked", 1);
        // end-to-end: `execute` through the account under enforcing auth with a crafted signature
        for sigs in [[Sig::Valid, Sig::Absent, Sig::Absent, Sig::Absent], [Sig::Valid, Sig::Valid, Sig::Absent, Sig::Absent], [Sig::Invalid, Sig::Valid, Sig::Absent, Sig::Absent], [Sig::Absent; 4]] {
            let e = &i.e;
            let args: SVec<Val> = (i.target.clone(), Symbol::new(e, "ping"), SVec::<Val>::new(e)).into_val(e);
            let mut map: Map<Signer, Bytes> = Map::new(e);
            for k in 0..2 {
                if sigs[k] != Sig::Absent {
                    map.set(i.signer(k), Bytes::from_array(e, if sigs[k] == Sig::Valid { b"ok" } else { b"no" }));
                }
            }
            let sv: Val = Signatures(map).into_val(e);
            let entry = auth::entry_with_sig(e, &auth::sc(&i.acc), &auth::invocation(e, &i.acc, "execute", &args), ScVal::try_from_val(e, &sv).unwrap());
            let before = u32::try_from_val(e, &view(e, &i.target, "calls", SVec::new(e)).unwrap()).unwrap();
            let ok = call_entries(e, &i.acc, "execute", args, &[entry]).is_ok();
            let after = u32::try_from_val(e, &view(e, &i.target, "calls", SVec::new(e)).unwrap()).unwrap();
            // the context of this invocation is a call of the account itself (address not in any
            // rule's type) -> only Default rules apply
            let supplied: BTreeSet<usize> = (0..4).filter(|k| sigs[*k] == Sig::Valid).collect();
            let want = !sigs.iter().any(|s| *s == Sig::Invalid) && {
                // resolve as for an unlisted contract (only Default rules), all policies at defaults
                Self::resolve(&rules, Ctx::CallT2, &supplied, i.base, [true, true]).is_some()
            };
            ensure!(ok == want, "end-to-end", "execute through the account returned ok={} expected {} with supplied {:?}; configuration {:?}", ok, want, sigs, rules);
            ensure!(after == before + ok as u32, "end-to-end", "target invoked {} times by an execute that returned ok={}", after - before, ok);
            if ok {
                // undo the observable effect so that the state digest is that of the configuration
                // (policy logs of an accepted end-to-end call)
                for p in 0..2 {
                    call_mocked(e, &i.pol[p], "reset_log", SVec::new(e)).expect("reset");
                }
            }
            cx.stats.count("end-to-end-calls", 1);
        }
        Ok(())
    }
}

impl World for Acc {
    type Op = Op;
    type Model = u32; // unused
    type Inst = Inst;

    fn name(&self) -> String {
        format!("multisig-smart-account{}-seed{}{}", if self.thorough { "-t" } else { "" }, self.seed, if self.alias_u { "-foreign-verifier-alias" } else { "" })
    }

    fn seed_name(&self, _s: usize) -> String {
        ["one-default-rule", "three-default+three-call-rules"][self.seed].into()
    }

    fn fresh(&self, _seed: usize) -> (Inst, u32) {
        let seed = self.seed;
        let e = envx::mk_env(100);
        let verifier = e.register(wrap::MockVerifier, ());
        let verifier2 = e.register(wrap::MockVerifier, ());
        let pol = [e.register(wrap::MockPolicy, ()), e.register(wrap::MockPolicy, ())];
        // P2's uninstall hook always fails: a removed policy must stop gating its rule all the same
        call_mocked(&e, &pol[1], "set_trap_uninstall", (true,).into_val(&e)).expect("set_trap_uninstall");
        for p in &pol {
            call_mocked(&e, p, "set_flags", (true, false).into_val(&e)).expect("flags");
        }
        let t1 = Address::generate(&e);
        let t2 = Address::generate(&e);
        let d = Address::generate(&e);
        auth::back(&e, &d);
        let target = e.register(wrap::Target, ());
        let wasm = BytesN::from_array(&e, &[1u8; 32]);
        let mut i = Inst { e, acc: t1.clone(), verifier, verifier2, alias_u: self.alias_u, pol, t1, t2, target, d, wasm, base: 100 };
        let mut sv: SVec<Signer> = SVec::new(&i.e);
        sv.push_back(i.signer(S1));
        let pm: Map<Address, Val> = Map::new(&i.e);
        i.acc = i.e.register(account_example::MultisigContract, (sv, pm));
        if seed == 1 {
            // several rules of one type with different requirements, so that removals, expiry and
            // precedence among >= 3 same-type rules are reached within the depth bound
            for op in [
                Op::AddRule { t: CType::Default, signers: vec![S1, S2], policies: vec![], valid: Valid::None },
                Op::AddRule { t: CType::Default, signers: vec![S1], policies: vec![0], valid: Valid::None },
                Op::AddRule { t: CType::CallT1, signers: vec![D], policies: vec![], valid: Valid::None },
                Op::AddRule { t: CType::CallT1, signers: vec![S1], policies: vec![1], valid: Valid::Next },
                Op::AddRule { t: CType::CallT1, signers: vec![S1, D], policies: vec![0], valid: Valid::None },
            ] {
                assert!(self.exec(&i, &op), "seed op {op:?} refused");
            }
        }
        (i, 0)
    }

    fn ops(&self, i: &Inst, _m: &u32, _d: usize) -> Vec<Op> {
        let mut v = vec![];
        let th = self.thorough;
        let signer_sets: Vec<Vec<usize>> = if th { vec![vec![], vec![S1], vec![S1, S2], vec![D], vec![S1, D], vec![S2]] } else { vec![vec![], vec![S1], vec![S1, S2], vec![D]] };
        let policy_sets: Vec<Vec<usize>> = if th { vec![vec![], vec![0], vec![0, 1], vec![1]] } else { vec![vec![], vec![0]] };
        let valids = if th { vec![Valid::None, Valid::Now, Valid::Next] } else { vec![Valid::None, Valid::Next] };
        for t in [CType::Default, CType::CallT1, CType::CreateW] {
            for s in &signer_sets {
                for p in &policy_sets {
                    if s.is_empty() && p.is_empty() {
                        continue;
                    }
                    for valid in &valids {
                        v.push(Op::AddRule { t, signers: s.clone(), policies: p.clone(), valid: *valid });
                    }
                }
            }
        }
        let ids: Vec<u32> = self.rules(i).map(|r| r.iter().map(|x| x.id).collect()).unwrap_or_default();
        v.push(Op::RemoveRule { id: 77 });
        for id in ids {
            v.push(Op::RemoveRule { id });
            for s in [S1, S2, D] {
                v.push(Op::AddSigner { id, s });
                v.push(Op::RemoveSigner { id, s });
            }
            for p in 0..2 {
                v.push(Op::AddPolicy { id, p });
                v.push(Op::RemovePolicy { id, p });
            }
            for valid in [Valid::None, Valid::Now, Valid::Next] {
                v.push(Op::SetValid { id, valid });
            }
            v.push(Op::Rename { id });
        }
        v
    }

    fn kind(&self, op: &Op) -> String {
        match op {
            Op::AddRule { .. } => "add_context_rule",
            Op::RemoveRule { .. } => "remove_context_rule",
            Op::AddSigner { .. } => "add_signer",
            Op::RemoveSigner { .. } => "remove_signer",
            Op::AddPolicy { .. } => "add_policy",
            Op::RemovePolicy { .. } => "remove_policy",
            Op::SetValid { .. } => "update_valid_until",
            Op::Rename { .. } => "update_name",
        }
        .into()
    }
    fn apply(&self, i: &mut Inst, op: &Op) {
        self.exec(i, op);
    }

    fn step(&self, i: &mut Inst, _m: &mut u32, op: &Op, cx: &mut StepCtx<Self>) -> Result<bool, Violation> {
        let before = self.rules(i).unwrap_or_default();
        if !self.exec(i, op) {
            return Ok(false);
        }
        // The rule requirement the statement speaks of is the one the edit history implies: an
        // accepted edit must have exactly its effect on the rule it names (the full registry
        // semantics are C20's subject; here only what decides which requirement is in force).
        {
            let after = self.rules(i)?;
            let find = |rs: &Vec<Rule>, id: u32| rs.iter().find(|r| r.id == id).cloned();
            match op {
                Op::AddPolicy { id, p } | Op::RemovePolicy { id, p } => {
                    let (b, a) = (find(&before, *id), find(&after, *id));
                    if let (Some(b), Some(a)) = (b, a) {
                        let mut want = b.policies.clone();
                        if matches!(op, Op::AddPolicy { .. }) {
                            want.insert(*p);
                        } else {
                            want.remove(p);
                        }
                        ensure!(a.policies == want && a.signers == b.signers, "edit-effect", "after accepted {:?}: rule {} has policies {:?} signers {:?}, expected policies {:?} signers {:?}", op, id, a.policies, a.signers, want, b.signers);
                    }
                }
                Op::AddSigner { id, s } | Op::RemoveSigner { id, s } => {
                    let (b, a) = (find(&before, *id), find(&after, *id));
                    if let (Some(b), Some(a)) = (b, a) {
                        let mut want = b.signers.clone();
                        if matches!(op, Op::AddSigner { .. }) {
                            want.insert(*s);
                        } else {
                            want.remove(s);
                        }
                        ensure!(a.signers == want && a.policies == b.policies, "edit-effect", "after accepted {:?}: rule {} has signers {:?} policies {:?}, expected signers {:?} policies {:?}", op, id, a.signers, a.policies, want, b.policies);
                    }
                }
                Op::RemoveRule { id } => {
                    ensure!(find(&after, *id).is_none(), "edit-effect", "after accepted {:?} the rule is still listed", op);
                }
                Op::Rename { id } => {
                    let (b, a) = (find(&before, *id), find(&after, *id));
                    ensure!(
                        a == b,
                        "edit-effect",
                        "after accepted {:?}: renaming changed what decides the rule's requirement or lifetime: before {:?}, after {:?}",
                        op,
                        b,
                        a
                    );
                }
                _ => {}
            }
        }
        // phase 2 runs on a rebuilt copy of the new configuration, so that the explored instance
        // keeps exactly the storage the configuration history produced
        let p = cx.rebuild();
        if !self.exec(&p, op) {
            return Err(Violation::new("determinism", "replayed configuration step was refused".into()));
        }
        self.check_all(&p, cx)?;
        Ok(true)
    }

    fn key(&self, i: &Inst) -> [u8; 32] {
        envx::storage_digest(&i.e, false)
    }
    /// every accepted step runs thousands of __check_auth probes: always one task per operation
    fn wide_expand(&self, _n: usize) -> bool {
        true
    }
}

fn main() {
    main_with(
        "C03",
        "model_checking",
        "phase 1: level-BFS over add/remove context rule (types Default, Call(T1), Create(W); signer sets over {s1,s2 external, d delegated}; policy sets over {P1,P2}; valid_until none|now|now+1), add/remove signer, add/remove policy, update valid_until on the real account example; phase 2, for every configuration reached: the real __check_auth for every single context x every supplied-signer map (absent/valid/invalid per signer incl. an unknown one) x ledger {now, now+2} x every can_enforce assignment x enforce refusal, and ordered context pairs with a 7-map signer family; an independent resolver predicts acceptance and the exact multiset of enforce calls; end-to-end execute through the account with crafted signatures",
        |tier: Tier, r: &mut Runner| {
            let th = tier == Tier::Thorough;
            r.world(&Acc { thorough: th, seed: 0, alias_u: false }, &Bounds::new(2, tier.pick(40, 420)));
            // the six-rule seed: every single edit of it (quick), every pair of edits with the quick alphabet (thorough);
            // here the unnamed signer is S1's key under a second verifier contract
            r.world(&Acc { thorough: false, seed: 1, alias_u: true }, &Bounds::new(tier.pick(1, 2), tier.pick(15, 150)));
            if th {
                r.world(&Acc { thorough: false, seed: 0, alias_u: true }, &Bounds::new(2, 150));
                r.world(&Acc { thorough: false, seed: 1, alias_u: false }, &Bounds::new(1, 60));
            }
            if let Some(rep) = r.report() {
                rep.require(
                    &["add_context_rule", "remove_context_rule", "add_signer", "remove_signer", "add_policy", "remove_policy", "update_valid_until"],
                    &["add_context_rule", "remove_context_rule", "add_signer", "remove_signer", "add_policy", "remove_policy"],
                );
                rep.require_counter(&["check_auth-accepted", "check_auth-refused", "end-to-end-calls"]);
            }
        },
    );
}
