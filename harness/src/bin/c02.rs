//! C02 — tokens move only with the holder's authorization or a live allowance.
//!
//! Worlds: Base+Burnable wrapper, AllowList / BlockList example contracts, fungible-vault example
//! (share allowance spent by withdraw/redeem of operator != owner; asset allowance spent by
//! deposit/mint of operator != from). The BFS itself runs every call in recording mode; for every
//! accepted call the demanded authorization trees are compared with the principal the statement
//! names, and the call is re-run from the rebuilt pre-state under ENFORCING authorization with
//! the full set (must succeed), each principal dropped (must fail), a bystander signing the very
//! same tree (must fail). The allowance model (amount, live_until) decides every spend.

use soroban_sdk::testutils::Address as _;
use soroban_sdk::{Address, Env, IntoVal, String as SString, TryFromVal, Val, Vec as SVec};
use vh::auth::{self, call_mocked, call_with, view};
use vh::cli::{main_with, Runner};
use vh::engine::{Bounds, StepCtx, Violation, World};
use vh::ensure;
use vh::envx;
use vh::report::Tier;

#[path = "../shared/tokens.rs"]
mod tokens;
#[path = "../shared/rwa_wrap.rs"]
mod rwa_wrap;
#[path = "/repo/examples/fungible-allowlist/src/contract.rs"]
mod allowlist_example;
#[path = "/repo/examples/fungible-blocklist/src/contract.rs"]
mod blocklist_example;
#[path = "/repo/examples/fungible-vault/src/contract.rs"]
mod vault_example;

const N: usize = 3;
const NAMES: [&str; N] = ["A", "B", "S"];

#[derive(Clone, Copy, Debug, PartialEq, Eq)]
enum Flavour {
    Base,
    AllowList,
    BlockList,
    Votes,
    /// RWA wrapper, gates open; only the holder-initiated moves (transfer, transfer_from, approve)
    Rwa,
    /// fungible-vault example with this decimals offset
    Vault(u32),
}

#[derive(Clone, Debug, PartialEq, Eq)]
enum Op {
    Approve { o: usize, s: usize, a: i128, live: u32 },
    Transfer { from: usize, to: usize, a: i128 },
    TransferFrom { s: usize, from: usize, to: usize, a: i128 },
    Burn { from: usize, a: i128 },
    BurnFrom { s: usize, from: usize, a: i128 },
    /// vault: `op` withdraws/redeems `a` on behalf of `owner`, assets to `op`
    VWithdraw { op: usize, owner: usize, a: i128 },
    VRedeem { op: usize, owner: usize, a: i128 },
    /// as VRedeem / VWithdraw but the assets go back to the owner (receiver != operator)
    VRedeemToOwner { op: usize, owner: usize, a: i128 },
    VWithdrawToOwner { op: usize, owner: usize, a: i128 },
    /// vault: `op` deposits `a` assets of `from` (asset allowance when op != from), shares to `op`
    VDeposit { op: usize, from: usize, a: i128 },
    /// approve on the underlying asset token (vault world)
    AssetApprove { o: usize, s: usize, a: i128, live: u32 },
    Advance(u32),
    /// an allowance over the tokens held by the token contract's OWN address, requested from outside:
    /// nobody can supply that owner's authorization, so this must be refused whoever signs
    ApproveForTokenItself { s: usize, a: i128 },
}

#[derive(Clone, Debug, PartialEq, Eq, Hash)]
struct Obs {
    bal: [i128; N],
    allow: [[i128; N]; N],
    /// vault world: asset balances and asset allowances
    abal: [i128; N],
    aallow: [[i128; N]; N],
}

#[derive(Clone, Debug, PartialEq, Eq, Hash)]
struct Model {
    obs: Obs,
    /// logical allowances: (amount, live_until) as last approved minus spent
    allow: [[(i128, u32); N]; N],
    aallow: [[(i128, u32); N]; N],
}

struct Tok {
    flavour: Flavour,
    thorough: bool,
}

struct Inst {
    e: Env,
    c: Address,
    u: [Address; N],
    bystander: Address,
    asset: Option<Address>,
}

fn i128_of(e: &Env, v: Val) -> i128 {
    i128::try_from_val(e, &v).expect("i128")
}

fn live_amount(al: (i128, u32), now: u32) -> i128 {
    if now <= al.1 {
        al.0
    } else {
        0
    }
}

impl Tok {
    fn observe(&self, i: &Inst) -> Result<Obs, Violation> {
        let e = &i.e;
        let get = |c: &Address, f: &str, args: SVec<Val>| -> Result<i128, Violation> {
            view(e, c, f, args).map(|v| i128_of(e, v)).map_err(|x| Violation::new("getter", format!("{f}: {x:?}")))
        };
        let mut o = Obs { bal: [0; N], allow: [[0; N]; N], abal: [0; N], aallow: [[0; N]; N] };
        for a in 0..N {
            o.bal[a] = get(&i.c, "balance", (i.u[a].clone(),).into_val(e))?;
            for s in 0..N {
                o.allow[a][s] = get(&i.c, "allowance", (i.u[a].clone(), i.u[s].clone()).into_val(e))?;
            }
            if let Some(asset) = &i.asset {
                o.abal[a] = get(asset, "balance", (i.u[a].clone(),).into_val(e))?;
                for s in 0..N {
                    o.aallow[a][s] = get(asset, "allowance", (i.u[a].clone(), i.u[s].clone()).into_val(e))?;
                }
            }
        }
        Ok(o)
    }

    fn call(&self, i: &Inst, op: &Op) -> (Address, &'static str, SVec<Val>) {
        let e = &i.e;
        let u = |k: usize| i.u[k].clone();
        let c = i.c.clone();
        match op {
            Op::Approve { o, s, a, live } => (c, "approve", (u(*o), u(*s), *a, *live).into_val(e)),
            Op::Transfer { from, to, a } => (c, "transfer", (u(*from), u(*to), *a).into_val(e)),
            Op::TransferFrom { s, from, to, a } => (c, "transfer_from", (u(*s), u(*from), u(*to), *a).into_val(e)),
            Op::Burn { from, a } => (c, "burn", (u(*from), *a).into_val(e)),
            Op::BurnFrom { s, from, a } => (c, "burn_from", (u(*s), u(*from), *a).into_val(e)),
            Op::VWithdraw { op, owner, a } => (c, "withdraw", (*a, u(*op), u(*owner), u(*op)).into_val(e)),
            Op::VRedeem { op, owner, a } => (c, "redeem", (*a, u(*op), u(*owner), u(*op)).into_val(e)),
            Op::VRedeemToOwner { op, owner, a } => (c, "redeem", (*a, u(*owner), u(*owner), u(*op)).into_val(e)),
            Op::VWithdrawToOwner { op, owner, a } => (c, "withdraw", (*a, u(*owner), u(*owner), u(*op)).into_val(e)),
            Op::VDeposit { op, from, a } => (c, "deposit", (*a, u(*op), u(*from), u(*op)).into_val(e)),
            Op::AssetApprove { o, s, a, live } => (i.asset.clone().unwrap(), "approve", (u(*o), u(*s), *a, *live).into_val(e)),
            Op::Advance(_) => unreachable!(),
            Op::ApproveForTokenItself { s, a } => (c.clone(), "approve", (c, u(*s), *a, envx::now(e) + 100).into_val(e)),
        }
    }

    fn exec(&self, i: &Inst, op: &Op) -> bool {
        if let Op::Advance(k) = op {
            envx::advance(&i.e, *k);
            return true;
        }
        if let Op::ApproveForTokenItself { .. } = op {
            let (c, f, args) = self.call(i, op);
            return auth::call_signed(&i.e, &c, f, args, &[]).is_ok();
        }
        let (c, f, args) = self.call(i, op);
        call_mocked(&i.e, &c, f, args).is_ok()
    }
}

impl World for Tok {
    type Op = Op;
    type Model = Model;
    type Inst = Inst;

    fn name(&self) -> String {
        format!("auth-{:?}{}", self.flavour, if self.thorough { "-t" } else { "" })
    }

    fn seeds(&self) -> usize {
        if matches!(self.flavour, Flavour::Vault(_)) {
            2
        } else {
            1
        }
    }
    fn seed_name(&self, s: usize) -> String {
        ["empty", "operator C holds a share allowance of A that ends at the next ledger while its storage entry lives on (it replaced a long-lived approval)"][s].into()
    }

    fn fresh(&self, _seed: usize) -> (Inst, Model) {
        let e = envx::mk_env(100);
        let u = [Address::generate(&e), Address::generate(&e), Address::generate(&e)];
        let bystander = Address::generate(&e);
        let manager = Address::generate(&e);
        for x in u.iter().chain([&bystander, &manager]) {
            auth::back(&e, x);
        }
        let name = SString::from_str(&e, "n");
        let sym = SString::from_str(&e, "s");
        let mut asset = None;
        let c = match self.flavour {
            Flavour::Base => {
                let c = e.register(tokens::BaseTok, ());
                call_mocked(&e, &c, "mint", (u[0].clone(), 5i128).into_val(&e)).expect("mint");
                call_mocked(&e, &c, "mint", (u[1].clone(), 3i128).into_val(&e)).expect("mint");
                c
            }
            Flavour::Votes => {
                let c = e.register(tokens::VotesTok, ());
                call_mocked(&e, &c, "mint", (u[0].clone(), 5i128).into_val(&e)).expect("mint");
                call_mocked(&e, &c, "mint", (u[1].clone(), 3i128).into_val(&e)).expect("mint");
                c
            }
            Flavour::Rwa => {
                let comp = e.register(rwa_wrap::MockCompliance, ());
                let ver = e.register(rwa_wrap::MockVerifier, ());
                for k in 0..N {
                    call_mocked(&e, &ver, "set_verified", (u[k].clone(), true).into_val(&e)).expect("verify");
                }
                let c = e.register(rwa_wrap::RwaTok, (comp, ver));
                call_mocked(&e, &c, "mint", (u[0].clone(), 5i128).into_val(&e)).expect("mint");
                call_mocked(&e, &c, "mint", (u[1].clone(), 3i128).into_val(&e)).expect("mint");
                c
            }
            Flavour::AllowList => {
                let c = e.register(allowlist_example::ExampleContract, (name, sym, u[0].clone(), manager.clone(), 8i128));
                for k in 1..N {
                    call_mocked(&e, &c, "allow_user", (u[k].clone(), manager.clone()).into_val(&e)).expect("allow");
                }
                call_mocked(&e, &c, "transfer", (u[0].clone(), u[1].clone(), 3i128).into_val(&e)).expect("seed transfer");
                c
            }
            Flavour::BlockList => {
                let c = e.register(blocklist_example::ExampleContract, (name, sym, u[0].clone(), manager.clone(), 8i128));
                call_mocked(&e, &c, "transfer", (u[0].clone(), u[1].clone(), 3i128).into_val(&e)).expect("seed transfer");
                c
            }
            Flavour::Vault(off) => {
                let a = e.register(tokens::BaseTok, ());
                let v = e.register(vault_example::ExampleContract, (name, sym, a.clone(), off));
                for k in 0..N {
                    call_mocked(&e, &a, "mint", (u[k].clone(), 6i128).into_val(&e)).expect("asset mint");
                }
                call_mocked(&e, &v, "deposit", (4i128, u[0].clone(), u[0].clone(), u[0].clone()).into_val(&e)).expect("seed deposit");
                call_mocked(&e, &v, "deposit", (2i128, u[1].clone(), u[1].clone(), u[1].clone()).into_val(&e)).expect("seed deposit");
                asset = Some(a);
                v
            }
        };
        let i = Inst { e, c, u, bystander, asset };
        let mut allow = [[(0, 0); N]; N];
        if let (1, Flavour::Vault(off)) = (_seed, self.flavour) {
            let now = envx::now(&i.e);
            let max = i.e.ledger().max_live_until_ledger();
            let amt = 2 * 10i128.pow(off);
            // a long-lived approval, then replaced by one that ends at the next ledger: the temporary entry
            // keeps the long lifetime (lifetimes are only ever extended), the allowance does not
            call_mocked(&i.e, &i.c, "approve", (i.u[0].clone(), i.u[2].clone(), amt, max).into_val(&i.e)).expect("seed approve (long)");
            call_mocked(&i.e, &i.c, "approve", (i.u[0].clone(), i.u[2].clone(), amt, now + 1).into_val(&i.e)).expect("seed approve (short)");
            allow[0][2] = (amt, now + 1);
        }
        let obs = self.observe(&i).expect("observe seed");
        (i, Model { obs, allow, aallow: [[(0, 0); N]; N] })
    }

    fn ops(&self, i: &Inst, m: &Model, _d: usize) -> Vec<Op> {
        let now = envx::now(&i.e);
        let max = i.e.ledger().max_live_until_ledger();
        let th = self.thorough;
        let lives: Vec<u32> =
            if th { vec![0, now - 1, now, now + 1, now + 3, max, max.saturating_add(1)] } else { vec![0, now - 1, now, now + 1, max.saturating_add(1)] };
        let pairs: Vec<(usize, usize)> = if th { vec![(0, 2), (1, 2), (0, 1), (1, 0), (2, 0), (0, 0)] } else { vec![(0, 2), (1, 2), (0, 1)] };
        let dedup = |xs: Vec<i128>| {
            let mut out: Vec<i128> = vec![];
            for x in xs {
                if !out.contains(&x) {
                    out.push(x);
                }
            }
            out
        };
        let o = &m.obs;
        let vault = matches!(self.flavour, Flavour::Vault(_));
        let mut v = vec![];
        for (ow, s) in &pairs {
            for a in if th { vec![0, 1, 3, i128::MAX] } else { vec![0, 3, i128::MAX] } {
                for l in &lives {
                    v.push(Op::Approve { o: *ow, s: *s, a, live: *l });
                }
            }
        }
        for from in 0..N {
            for to in 0..N {
                if from == to && !th {
                    continue;
                }
                for a in dedup(vec![0, 1, o.bal[from]]) {
                    v.push(Op::Transfer { from, to, a });
                }
            }
        }
        if !th {
            // the holder named as its own spender (thorough has the full (0,0) pair): no self-allowance
            // exists unless approved, and the call still needs the holder's authorization
            v.push(Op::TransferFrom { s: 0, from: 0, to: 1, a: 1 });
            if !vault && self.flavour != Flavour::BlockList && self.flavour != Flavour::Rwa {
                v.push(Op::BurnFrom { s: 0, from: 0, a: 1 });
            }
        }
        for (from, s) in &pairs {
            let al = o.allow[*from][*s];
            for to in 0..N {
                if !th && to == *from {
                    continue;
                }
                for a in dedup(vec![0, 1, al, al.saturating_add(1)]) {
                    v.push(Op::TransferFrom { s: *s, from: *from, to, a });
                }
            }
            if !vault && self.flavour != Flavour::BlockList && self.flavour != Flavour::Rwa {
                for a in dedup(vec![0, 1, al, al.saturating_add(1)]) {
                    v.push(Op::BurnFrom { s: *s, from: *from, a });
                }
            }
            if vault {
                for a in dedup(vec![0, 1, al, al.saturating_add(1)]) {
                    v.push(Op::VRedeem { op: *s, owner: *from, a });
                    v.push(Op::VWithdraw { op: *s, owner: *from, a });
                    if a > 0 {
                        v.push(Op::VRedeemToOwner { op: *s, owner: *from, a });
                        v.push(Op::VWithdrawToOwner { op: *s, owner: *from, a });
                    }
                }
                let aal = o.aallow[*from][*s];
                for a in dedup(vec![0, 1, aal, aal.saturating_add(1)]) {
                    v.push(Op::VDeposit { op: *s, from: *from, a });
                }
                for a in [0, 2] {
                    for l in [now, now + 1] {
                        v.push(Op::AssetApprove { o: *from, s: *s, a, live: l });
                    }
                }
            }
        }
        if vault {
            for k in 0..N {
                for a in dedup(vec![0, 1, o.bal[k]]) {
                    v.push(Op::VRedeem { op: k, owner: k, a });
                }
                v.push(Op::VDeposit { op: k, from: k, a: 1 });
            }
        }
        if !vault && self.flavour != Flavour::BlockList && self.flavour != Flavour::Rwa {
            for from in 0..N {
                for a in dedup(vec![0, 1, o.bal[from]]) {
                    v.push(Op::Burn { from, a });
                }
            }
        }
        v.push(Op::ApproveForTokenItself { s: 0, a: 1 });
        v.push(Op::Advance(1));
        v.push(Op::Advance(3));
        if th {
            v.push(Op::Advance(20));
        }
        v
    }

    fn kind(&self, op: &Op) -> String {
        match op {
            Op::Approve { .. } => "approve",
            Op::Transfer { .. } => "transfer",
            Op::TransferFrom { .. } => "transfer_from",
            Op::Burn { .. } => "burn",
            Op::BurnFrom { .. } => "burn_from",
            Op::VRedeemToOwner { .. } | Op::VWithdrawToOwner { .. } => "vault.redeem/withdraw(operator, receiver=owner)",
            Op::VWithdraw { op, owner, .. } if op != owner => "vault.withdraw(operator)",
            Op::VWithdraw { .. } => "vault.withdraw(owner)",
            Op::VRedeem { op, owner, .. } if op != owner => "vault.redeem(operator)",
            Op::VRedeem { .. } => "vault.redeem(owner)",
            Op::VDeposit { op, from, .. } if op != from => "vault.deposit(operator)",
            Op::VDeposit { .. } => "vault.deposit(owner)",
            Op::AssetApprove { .. } => "asset.approve",
            Op::Advance(_) => "advance",
            Op::ApproveForTokenItself { .. } => "approve(owner = the token contract itself)",
        }
        .to_string()
    }

    fn apply(&self, i: &mut Inst, op: &Op) {
        self.exec(i, op);
    }

    fn atomic_on_refusal(&self, op: &Op) -> bool {
        !matches!(op, Op::Advance(_))
    }

    fn step(&self, i: &mut Inst, m: &mut Model, op: &Op, cx: &mut StepCtx<Self>) -> Result<bool, Violation> {
        let now = envx::now(&i.e);
        let pre = m.obs.clone();
        if let Op::Advance(k) = op {
            envx::advance(&i.e, *k);
            let post = self.observe(i)?;
            let now2 = envx::now(&i.e);
            for a in 0..N {
                for s in 0..N {
                    ensure!(
                        post.allow[a][s] == live_amount(m.allow[a][s], now2),
                        "allowance-expiry",
                        "at ledger {}: allowance({},{}) reads {} but the logical allowance is {:?}",
                        now2,
                        NAMES[a],
                        NAMES[s],
                        post.allow[a][s],
                        m.allow[a][s]
                    );
                }
            }
            ensure!(post.bal == pre.bal && post.abal == pre.abal, "balances-on-advance", "balances changed by time passing");
            m.obs = post;
            return Ok(true);
        }
        if let Op::ApproveForTokenItself { s, .. } = op {
            let (c, f, args) = self.call(i, op);
            let bystander = Address::generate(&i.e);
            auth::back(&i.e, &bystander);
            for (who, signers) in [("nobody", vec![]), ("the spender", vec![i.u[*s].clone()]), ("a bystander", vec![bystander])] {
                let r = auth::call_signed(&i.e, &c, f, args.clone(), &signers);
                ensure!(
                    r.is_err(),
                    "allowance-without-owner-authorization",
                    "approve(owner = the token contract's own address, spender {}, ..) succeeded with {} signing: an allowance over the contract's holdings was created without the owner's authorization",
                    NAMES[*s],
                    who
                );
                cx.stats.count("approve-for-the-token-itself-refused", 1);
            }
            return Ok(false);
        }
        let (c, f, args) = self.call(i, op);
        let r = call_mocked(&i.e, &c, f, args.clone());
        if r.is_err() {
            return Ok(false);
        }
        let recs = auth::recorded(&i.e);
        let post = self.observe(i)?;
        cx.stats.count("getter-comparisons", (N + N * N) as u64);

        // ---- who had to authorize, and was a spend covered by a live allowance?
        let mut expect_principal: usize;
        let mut x_allow = m.allow;
        let mut x_aallow = m.aallow;
        let spend = |tab: &mut [[(i128, u32); N]; N], owner: usize, spender: usize, amount: i128, what: &str| -> Result<(), Violation> {
            let al = tab[owner][spender];
            ensure!(
                amount == 0 || (now <= al.1 && al.0 >= amount),
                "spend-without-live-allowance",
                "{:?} succeeded at ledger {} but {}'s {} allowance for {} is {:?} (amount, live_until)",
                op,
                now,
                NAMES[owner],
                what,
                NAMES[spender],
                al
            );
            if amount > 0 {
                tab[owner][spender] = (al.0 - amount, al.1);
            }
            Ok(())
        };
        let mut moved_from: Option<(usize, i128)> = None; // (holder whose share/token balance must drop, amount) when known
        match op {
            Op::Approve { o, s, a, live } => {
                expect_principal = *o;
                ensure!(*a >= 0, "approve", "negative approval accepted");
                x_allow[*o][*s] = (*a, *live);
            }
            Op::AssetApprove { o, s, a, live } => {
                expect_principal = *o;
                x_aallow[*o][*s] = (*a, *live);
            }
            Op::Transfer { from, a, .. } | Op::Burn { from, a } => {
                expect_principal = *from;
                moved_from = Some((*from, *a));
            }
            Op::TransferFrom { s, from, a, .. } | Op::BurnFrom { s, from, a } => {
                expect_principal = *s;
                spend(&mut x_allow, *from, *s, *a, "token")?;
                moved_from = Some((*from, *a));
            }
            Op::VWithdraw { op: oper, owner, .. }
            | Op::VRedeem { op: oper, owner, .. }
            | Op::VRedeemToOwner { op: oper, owner, .. }
            | Op::VWithdrawToOwner { op: oper, owner, .. } => {
                expect_principal = *oper;
                let burned = pre.bal[*owner] - post.bal[*owner];
                if oper != owner {
                    spend(&mut x_allow, *owner, *oper, burned, "share")?;
                }
            }
            Op::VDeposit { op: oper, from, .. } => {
                expect_principal = *oper;
                let paid = pre.abal[*from] - post.abal[*from];
                if oper != from {
                    spend(&mut x_aallow, *from, *oper, paid, "asset")?;
                }
            }
            Op::Advance(_) | Op::ApproveForTokenItself { .. } => unreachable!(),
        }
        let _ = &mut expect_principal;
        // ---- nobody else's balance may decrease
        for k in 0..N {
            let allowed_share = match op {
                Op::Transfer { from, .. } | Op::Burn { from, .. } | Op::TransferFrom { from, .. } | Op::BurnFrom { from, .. } => k == *from,
                Op::VWithdraw { owner, .. } | Op::VRedeem { owner, .. } | Op::VRedeemToOwner { owner, .. } | Op::VWithdrawToOwner { owner, .. } => k == *owner,
                _ => false,
            };
            ensure!(post.bal[k] >= pre.bal[k] || allowed_share, "unauthorized-decrease", "{:?} decreased the balance of {}", op, NAMES[k]);
            let allowed_asset = matches!(op, Op::VDeposit { from, .. } if k == *from);
            ensure!(post.abal[k] >= pre.abal[k] || allowed_asset, "unauthorized-decrease", "{:?} decreased the asset balance of {}", op, NAMES[k]);
        }
        if let Some((from, a)) = moved_from {
            ensure!(a >= 0, "negative-amount-accepted", "{:?}", op);
            let to_same = matches!(op, Op::Transfer { from: f, to, .. } | Op::TransferFrom { from: f, to, .. } if f == to);
            if !to_same {
                ensure!(pre.bal[from] - post.bal[from] == a, "exact-debit", "{:?}: {}'s balance went {} -> {}", op, NAMES[from], pre.bal[from], post.bal[from]);
            }
        }
        // ---- allowance getters equal the logical allowances
        for a in 0..N {
            for s in 0..N {
                ensure!(
                    post.allow[a][s] == live_amount(x_allow[a][s], now),
                    "allowance-lockstep",
                    "after {:?} at ledger {}: allowance({},{}) reads {} but last-approved-minus-spent is {:?}",
                    op,
                    now,
                    NAMES[a],
                    NAMES[s],
                    post.allow[a][s],
                    x_allow[a][s]
                );
                if i.asset.is_some() {
                    ensure!(
                        post.aallow[a][s] == live_amount(x_aallow[a][s], now),
                        "allowance-lockstep",
                        "after {:?}: asset allowance({},{}) reads {} but model has {:?}",
                        op,
                        NAMES[a],
                        NAMES[s],
                        post.aallow[a][s],
                        x_aallow[a][s]
                    );
                }
            }
        }
        // ---- demanded principals
        let demanded = auth::principals(&recs);
        let want = auth::sc(&i.u[expect_principal]);
        ensure!(
            demanded == vec![want.clone()],
            "demanded-principals",
            "{:?} demanded authorization from {:?}, the statement names exactly {}",
            op,
            demanded.iter().map(|p| i.u.iter().position(|x| auth::sc(x) == *p).map(|k| NAMES[k].to_string()).unwrap_or(format!("{p:?}"))).collect::<Vec<_>>(),
            NAMES[expect_principal]
        );
        // ---- enforcing-mode probes from the rebuilt pre-state
        let post_key = self.key(i);
        for var in auth::variants(&i.e, &recs, Some(&i.bystander)) {
            let p = cx.rebuild();
            let pre_key = self.key(&p);
            let (c2, f2, a2) = self.call(&p, op);
            let r2 = call_with(&p.e, &c2, f2, a2, &var.recs);
            cx.stats.count("auth-probes", 1);
            if var.expect_ok {
                ensure!(r2.is_ok(), "auth-probe", "{:?} under enforcing auth with its own recorded entries failed: {:?}", op, r2.err());
                ensure!(self.key(&p) == post_key, "auth-probe", "{:?}: enforcing-mode run reached a different state than the recording-mode run", op);
            } else {
                ensure!(r2.is_err(), "missing-authorization-accepted", "{:?} succeeded with authorization variant '{}'", op, var.label);
                ensure!(self.key(&p) == pre_key, "failure-atomicity", "{:?} refused under '{}' but changed storage", op, var.label);
            }
        }
        m.obs = post;
        m.allow = x_allow;
        m.aallow = x_aallow;
        Ok(true)
    }

    fn key(&self, i: &Inst) -> [u8; 32] {
        envx::storage_digest(&i.e, true)
    }
    fn model_key(&self, m: &Model) -> u64 {
        vh::engine::dig(&(m.allow, m.aallow))
    }
    fn model_digest(&self, m: &Model) -> u64 {
        vh::engine::dig(&m.obs)
    }
}

fn main() {
    main_with(
        "C02",
        "model_checking",
        "level-BFS over histories of approve(owner,spender,amount,live_until in {0,now-1,now,now+1,now+3,max,max+1}) / transfer / transfer_from / burn / burn_from / vault withdraw,redeem,deposit by operator / advance(1|3|20) on 3 accounts + bystander; every accepted call: demanded principals = the one the statement names, re-run under enforcing auth from the rebuilt pre-state with full set / each principal dropped / bystander signing; logical allowance (amount, live_until) model compared with allowance() for all pairs after every step and after every ledger advance",
        |tier: Tier, r: &mut Runner| {
            let th = tier == Tier::Thorough;
            for fl in [Flavour::Base, Flavour::AllowList, Flavour::BlockList, Flavour::Votes, Flavour::Rwa, Flavour::Vault(0), Flavour::Vault(2)] {
                // quick: depth 3 for the Base and RWA code paths, depth 2 (complete) for the others
                let d = match fl {
                    Flavour::Vault(_) => tier.pick(2, 3),
                    Flavour::Base | Flavour::Rwa => tier.pick(3, 4),
                    _ => tier.pick(2, 4),
                };
                r.world(&Tok { flavour: fl, thorough: th }, &Bounds::new(d, tier.pick(20, 150)));
            }
            if let Some(rep) = r.report() {
                rep.require(
                    &["approve", "transfer", "transfer_from", "burn", "burn_from", "vault.redeem(operator)", "vault.withdraw(operator)", "vault.deposit(operator)", "asset.approve", "advance"],
                    &["approve", "transfer", "transfer_from", "burn", "burn_from", "vault.redeem(operator)", "vault.withdraw(operator)", "vault.deposit(operator)"],
                );
                rep.require_counter(&["auth-probes", "approve-for-the-token-itself-refused"]);
            }
        },
    );
}
