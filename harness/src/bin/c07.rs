//! C07 — admin and ownership change hands only through a live two-step handshake.
//!
//! Worlds: the `ownable` example (Ownable) and the `nft-access-control` example (AccessControl
//! admin transfer), both compiled from /repo's working tree. Every call runs under *enforcing*
//! authorization signed by exactly one chosen principal (or nobody), so the authorization
//! subset is part of the operation. min_temp_entry_ttl = 1 (DESIGN §2.2).

use soroban_sdk::testutils::Address as _;
use soroban_sdk::{Address, Env, IntoVal, String as SString, TryFromVal, Val, Vec as SVec};
use vh::auth::{self, call_signed, view};
use vh::engine::{explore, replay, Bounds, StepCtx, Violation, World};
use vh::ensure;
use vh::envx;
use vh::report::{parse_args, read_replay, Mode, Report, Tier};

#[path = "/repo/examples/ownable/src/contract.rs"]
mod ownable_example;
#[path = "/repo/examples/nft-access-control/src/contract.rs"]
mod nft_ac_example;
#[path = "../shared/ac_wrap.rs"]
mod ac_wrap;
#[path = "/repo/examples/timelock-controller/src/contract.rs"]
mod tlc;

#[derive(Clone, Copy, Debug, PartialEq, Eq, PartialOrd, Ord, Hash)]
enum Who {
    O,
    A,
    B,
    Nobody,
}
const SIGNERS: [Who; 4] = [Who::O, Who::A, Who::B, Who::Nobody];

#[derive(Clone, Debug, PartialEq, Eq)]
enum Op {
    Offer { new: Who, live_until: u32, by: Who },
    Accept { by: Who },
    Renounce { by: Who },
    /// the holder-only entry point of the example (leaf probe)
    Use { by: Who },
    Advance(u32),
}

#[derive(Clone, Debug)]
struct Model {
    holder: Option<Who>,
    /// latest successful offer not yet cancelled / accepted: (account, live_until)
    pending: Option<(Who, u32)>,
}

#[derive(Clone, Copy)]
enum Flavour {
    Ownable,
    AdminTransfer,
    /// the timelock-controller example deployed with an EXTERNAL admin (its bootstrap configuration)
    TimelockExternalAdmin,
}

struct Hs {
    flavour: Flavour,
    start: u32,
    thorough: bool,
}

struct Inst {
    e: Env,
    c: Address,
    o: Address,
    a: Address,
    b: Address,
}

impl Inst {
    fn addr(&self, w: Who) -> Option<Address> {
        match w {
            Who::O => Some(self.o.clone()),
            Who::A => Some(self.a.clone()),
            Who::B => Some(self.b.clone()),
            Who::Nobody => None,
        }
    }
    fn who(&self, a: &Address) -> Option<Who> {
        if *a == self.o {
            Some(Who::O)
        } else if *a == self.a {
            Some(Who::A)
        } else if *a == self.b {
            Some(Who::B)
        } else {
            None
        }
    }
    fn signers(&self, w: Who) -> Vec<Address> {
        self.addr(w).into_iter().collect()
    }
}

impl Hs {
    fn f(&self, what: &str) -> &'static str {
        match (self.flavour, what) {
            (Flavour::Ownable, "offer") => "transfer_ownership",
            (Flavour::Ownable, "accept") => "accept_ownership",
            (Flavour::Ownable, "renounce") => "renounce_ownership",
            (Flavour::Ownable, "use") => "increment",
            (Flavour::Ownable, "get") => "get_owner",
            (Flavour::AdminTransfer, "offer") => "transfer_admin_role",
            (Flavour::AdminTransfer, "accept") => "accept_admin_transfer",
            (Flavour::AdminTransfer, "renounce") => "renounce_admin",
            (Flavour::AdminTransfer, "use") => "admin_restricted_function",
            (Flavour::AdminTransfer, "get") => "get_admin",
            (Flavour::TimelockExternalAdmin, "offer") => "transfer_admin_role",
            (Flavour::TimelockExternalAdmin, "accept") => "accept_admin_transfer",
            (Flavour::TimelockExternalAdmin, "renounce") => "renounce_admin",
            (Flavour::TimelockExternalAdmin, "use") => "update_delay",
            (Flavour::TimelockExternalAdmin, "get") => "get_admin",
            _ => unreachable!(),
        }
    }

    fn exec(&self, i: &Inst, op: &Op) -> bool {
        let e = &i.e;
        match op {
            Op::Offer { new, live_until, by } => {
                let args: SVec<Val> = (i.addr(*new).unwrap(), *live_until).into_val(e);
                call_signed(e, &i.c, self.f("offer"), args, &i.signers(*by)).is_ok()
            }
            Op::Accept { by } => call_signed(e, &i.c, self.f("accept"), SVec::new(e), &i.signers(*by)).is_ok(),
            Op::Renounce { by } => call_signed(e, &i.c, self.f("renounce"), SVec::new(e), &i.signers(*by)).is_ok(),
            Op::Use { by } => {
                let args: SVec<Val> = if matches!(self.flavour, Flavour::TimelockExternalAdmin) { (2u32,).into_val(e) } else { SVec::new(e) };
                call_signed(e, &i.c, self.f("use"), args, &i.signers(*by)).is_ok()
            }
            Op::Advance(k) => {
                envx::advance(e, *k);
                true
            }
        }
    }

    fn holder(&self, i: &Inst) -> Result<Option<Who>, Violation> {
        let v = view(&i.e, &i.c, self.f("get"), SVec::new(&i.e)).map_err(|x| Violation::new("getter", format!("{:?}", x)))?;
        let o: Option<Address> = Option::<Address>::try_from_val(&i.e, &v).map_err(|_| Violation::new("getter", "decode".into()))?;
        match o {
            None => Ok(None),
            Some(a) => match i.who(&a) {
                Some(w) => Ok(Some(w)),
                None => Err(Violation::new("holder", "holder is an address outside the universe".into())),
            },
        }
    }
}

impl World for Hs {
    type Op = Op;
    type Model = Model;
    type Inst = Inst;

    fn name(&self) -> String {
        match self.flavour {
            Flavour::Ownable => format!("ownable-example@{}", self.start),
            Flavour::AdminTransfer => format!("access-control-admin-transfer@{}", self.start),
            Flavour::TimelockExternalAdmin => format!("timelock-controller-with-external-admin@{}", self.start),
        }
    }

    fn fresh(&self, _seed: usize) -> (Inst, Model) {
        let e = envx::mk_env(self.start);
        let o = Address::generate(&e);
        let a = Address::generate(&e);
        let b = Address::generate(&e);
        for x in [&o, &a, &b] {
            auth::back(&e, x);
        }
        let c = match self.flavour {
            Flavour::Ownable => e.register(ownable_example::ExampleContract, (o.clone(),)),
            Flavour::AdminTransfer => e.register(
                nft_ac_example::ExampleContract,
                (SString::from_str(&e, "u"), SString::from_str(&e, "n"), SString::from_str(&e, "s"), o.clone()),
            ),
            Flavour::TimelockExternalAdmin => {
                let mut proposers: SVec<Address> = SVec::new(&e);
                proposers.push_back(a.clone());
                let executors: SVec<Address> = SVec::new(&e);
                e.register(tlc::TimelockController, (2u32, proposers, executors, Some(o.clone())))
            }
        };
        (Inst { e, c, o, a, b }, Model { holder: Some(Who::O), pending: None })
    }

    fn ops(&self, i: &Inst, _m: &Model, _depth: usize) -> Vec<Op> {
        let now = envx::now(&i.e);
        let max = i.e.ledger().max_live_until_ledger();
        let mut lives = vec![0u32, now.saturating_sub(1), now, now + 1, now + 3, max, max.saturating_add(1)];
        if self.thorough {
            lives.extend([now + 2, now + 5]);
        }
        lives.dedup();
        let mut v = vec![];
        let news: &[Who] = &[Who::A, Who::B, Who::O]; // incl. an offer of the holder to itself
        for new in news {
            for l in &lives {
                for by in SIGNERS {
                    v.push(Op::Offer { new: *new, live_until: *l, by });
                }
            }
        }
        for by in SIGNERS {
            v.push(Op::Accept { by });
        }
        for by in SIGNERS {
            v.push(Op::Renounce { by });
        }
        for by in SIGNERS {
            v.push(Op::Use { by });
        }
        v.push(Op::Advance(1));
        v.push(Op::Advance(3));
        v
    }

    fn kind(&self, op: &Op) -> String {
        match op {
            Op::Offer { live_until: 0, .. } => "cancel".into(),
            Op::Offer { .. } => "offer".into(),
            Op::Accept { .. } => "accept".into(),
            Op::Renounce { .. } => "renounce".into(),
            Op::Use { .. } => "holder-only-call".into(),
            Op::Advance(_) => "advance".into(),
        }
    }

    fn apply(&self, i: &mut Inst, op: &Op) {
        self.exec(i, op);
    }

    fn leaf_only(&self, op: &Op) -> bool {
        matches!(op, Op::Use { .. })
    }

    fn atomic_on_refusal(&self, op: &Op) -> bool {
        !matches!(op, Op::Advance(_))
    }

    fn step(&self, i: &mut Inst, m: &mut Model, op: &Op, cx: &mut StepCtx<Self>) -> Result<bool, Violation> {
        let now = envx::now(&i.e);
        let max = i.e.ledger().max_live_until_ledger();
        let before = self.holder(i)?;
        ensure!(before == m.holder, "lockstep", "holder before step: impl {:?}, model {:?}", before, m.holder);
        let ok = self.exec(i, op);
        let pending_live = m.pending.filter(|(_, l)| now <= *l);
        match op {
            Op::Offer { new, live_until, by } => {
                let by_holder = m.holder.is_some() && Some(*by) == m.holder;
                if ok {
                    ensure!(by_holder, "authority", "offer/cancel succeeded although signed by {:?}, holder is {:?}", by, m.holder);
                    if *live_until == 0 {
                        ensure!(
                            m.pending.map(|p| p.0) == Some(*new),
                            "cancel",
                            "cancel for {:?} succeeded but pending is {:?}",
                            new,
                            m.pending
                        );
                        m.pending = None;
                    } else {
                        ensure!(*live_until >= now, "offer", "offer with past live_until {} accepted at ledger {}", live_until, now);
                        m.pending = Some((*new, *live_until));
                    }
                } else if by_holder {
                    if *live_until == 0 {
                        ensure!(
                            pending_live.map(|p| p.0) != Some(*new),
                            "holder-keeps-control",
                            "holder could not cancel the live offer {:?}",
                            m.pending
                        );
                    } else {
                        // an offer that would expire with the current ledger (live_until == now) may
                        // be refused: the statement does not require every offer to be creatable
                        ensure!(
                            !(*live_until > now && *live_until <= max),
                            "holder-keeps-control",
                            "holder's valid offer (live_until {} at ledger {}) was refused",
                            live_until,
                            now
                        );
                    }
                }
            }
            Op::Accept { by } => {
                let should = pending_live.is_some() && pending_live.map(|p| p.0) == Some(*by) && m.holder.is_some();
                if ok {
                    ensure!(
                        should,
                        "accept",
                        "accept signed by {:?} succeeded at ledger {} but the latest offer is {:?} (live only while ledger <= live_until)",
                        by,
                        now,
                        m.pending
                    );
                    m.holder = Some(*by);
                    m.pending = None;
                } else {
                    ensure!(!should, "accept-live-offer", "pending account {:?} could not accept live offer {:?} at ledger {}", by, m.pending, now);
                }
            }
            Op::Renounce { by } => {
                let by_holder = m.holder.is_some() && Some(*by) == m.holder;
                if ok {
                    ensure!(by_holder, "authority", "renounce succeeded although signed by {:?}, holder is {:?}", by, m.holder);
                    ensure!(pending_live.is_none(), "renounce-while-pending", "renounce succeeded while offer {:?} is live at ledger {}", m.pending, now);
                    m.holder = None;
                    m.pending = None;
                } else if by_holder {
                    ensure!(m.pending.is_some(), "holder-keeps-control", "holder could not renounce although no offer was ever left pending");
                }
            }
            Op::Use { by } => {
                let by_holder = m.holder.is_some() && Some(*by) == m.holder;
                ensure!(ok == by_holder, "holder-only-call", "holder-only entry point signed by {:?} returned ok={} while holder is {:?}", by, ok, m.holder);
            }
            Op::Advance(_) => {}
        }
        let after = self.holder(i)?;
        ensure!(after == m.holder, "lockstep", "holder after {:?}: impl {:?}, model {:?}", op, after, m.holder);
        cx.stats.count("getter-comparisons", 2);
        Ok(ok)
    }

    fn key(&self, i: &Inst) -> [u8; 32] {
        envx::storage_digest(&i.e, true)
    }

    fn model_key(&self, m: &Model) -> u64 {
        // the logical (account, live_until) of the latest offer is not a function of storage
        // when an implementation keeps an older entry's lifetime: keep such states apart
        vh::engine::dig(&m.pending)
    }

    fn model_digest(&self, m: &Model) -> u64 {
        // only the holder is a function of storage (the pending offer's logical expiry is what
        // the property is about, so it must not be forced to agree at merge time)
        match m.holder {
            None => 0,
            Some(w) => 1 + w as u64,
        }
    }
}

fn worlds(tier: Tier) -> Vec<Hs> {
    let th = tier == Tier::Thorough;
    vec![
        Hs { flavour: Flavour::Ownable, start: 100, thorough: th },
        Hs { flavour: Flavour::AdminTransfer, start: 100, thorough: th },
        Hs { flavour: Flavour::TimelockExternalAdmin, start: 100, thorough: th },
    ]
}

// ---------------------------------------------------------------------------------------------
// A contract that is its own admin: no account can stand in for the holder, so no offer can be made,
// nothing can be accepted or renounced, and the admin stays the contract itself.

#[derive(Clone, Debug, PartialEq, Eq)]
enum SaOp {
    Offer { new: Who, live_until: u32, by: Who },
    Accept { by: Who },
    Renounce { by: Who },
    Use { by: Who },
    Advance(u32),
}

struct SelfAdm;

impl SelfAdm {
    fn exec(&self, i: &Inst, op: &SaOp) -> bool {
        let e = &i.e;
        match op {
            SaOp::Offer { new, live_until, by } => {
                let args: SVec<Val> = (i.addr(*new).unwrap(), *live_until).into_val(e);
                call_signed(e, &i.c, "transfer_admin_role", args, &i.signers(*by)).is_ok()
            }
            SaOp::Accept { by } => call_signed(e, &i.c, "accept_admin_transfer", SVec::new(e), &i.signers(*by)).is_ok(),
            SaOp::Renounce { by } => call_signed(e, &i.c, "renounce_admin", SVec::new(e), &i.signers(*by)).is_ok(),
            SaOp::Use { by } => call_signed(e, &i.c, "admin_restricted_function", SVec::new(e), &i.signers(*by)).is_ok(),
            SaOp::Advance(k) => {
                envx::advance(e, *k);
                true
            }
        }
    }
}

impl World for SelfAdm {
    type Op = SaOp;
    type Model = u32;
    type Inst = Inst;

    fn name(&self) -> String {
        "self-administered-access-control".into()
    }
    fn fresh(&self, _seed: usize) -> (Inst, u32) {
        let e = envx::mk_env(100);
        let (o, a, b) = (Address::generate(&e), Address::generate(&e), Address::generate(&e));
        for x in [&o, &a, &b] {
            vh::auth::back(&e, x);
        }
        let c = e.register(ac_wrap::SelfAdmin, ());
        (Inst { e, c, o, a, b }, 0)
    }
    fn ops(&self, i: &Inst, _m: &u32, _d: usize) -> Vec<SaOp> {
        let now = envx::now(&i.e);
        let mut v = vec![];
        for by in SIGNERS {
            for new in [Who::A, Who::B] {
                for live_until in [0, now, now + 5] {
                    v.push(SaOp::Offer { new, live_until, by });
                }
            }
            v.push(SaOp::Accept { by });
            v.push(SaOp::Renounce { by });
            v.push(SaOp::Use { by });
        }
        v.push(SaOp::Advance(1));
        v
    }
    fn kind(&self, op: &SaOp) -> String {
        match op {
            SaOp::Offer { .. } => "self-admin.offer",
            SaOp::Accept { .. } => "self-admin.accept",
            SaOp::Renounce { .. } => "self-admin.renounce",
            SaOp::Use { .. } => "self-admin.holder-only-call",
            SaOp::Advance(_) => "advance",
        }
        .into()
    }
    fn apply(&self, i: &mut Inst, op: &SaOp) {
        self.exec(i, op);
    }
    fn atomic_on_refusal(&self, op: &SaOp) -> bool {
        !matches!(op, SaOp::Advance(_))
    }
    fn step(&self, i: &mut Inst, m: &mut u32, op: &SaOp, cx: &mut StepCtx<Self>) -> Result<bool, Violation> {
        let ok = self.exec(i, op);
        if let SaOp::Advance(k) = op {
            *m += k;
            return Ok(true);
        }
        ensure!(
            !ok,
            "holder-keeps-control",
            "{:?} succeeded on a contract that is its own admin: none of the signing accounts is the holder, and the holder's authorization cannot come from outside",
            op
        );
        cx.stats.count("self-admin calls refused", 1);
        let v = view(&i.e, &i.c, "get_admin", SVec::new(&i.e)).map_err(|x| Violation::new("getter", format!("{:?}", x)))?;
        let adm: Option<Address> = Option::<Address>::try_from_val(&i.e, &v).map_err(|_| Violation::new("getter", "decode".into()))?;
        ensure!(adm == Some(i.c.clone()), "holder", "the admin of the self-administered contract became {:?}", adm);
        Ok(false)
    }
    fn key(&self, i: &Inst) -> [u8; 32] {
        envx::storage_digest(&i.e, true)
    }
}

fn main() {
    vh::report::run_main(real_main)
}

fn real_main() -> i32 {
    match parse_args() {
        Mode::Replay(p) => {
            let r = read_replay(&p);
            for t in [Tier::Quick, Tier::Thorough] {
                for w in worlds(t) {
                    if w.name() == r.world {
                        match replay(&w, r.seed, &r.history) {
                            Ok(()) => std::process::exit(0),
                            Err(_) if t == Tier::Quick => continue,
                            Err(e) => {
                                eprintln!("{e}");
                                std::process::exit(2)
                            }
                        }
                    }
                }
            }
            if r.world == SelfAdm.name() {
                match replay(&SelfAdm, r.seed, &r.history) {
                    Ok(()) => std::process::exit(0),
                    Err(e) => {
                        eprintln!("{e}");
                        std::process::exit(2)
                    }
                }
            }
            eprintln!("unknown world {}", r.world);
            std::process::exit(2);
        }
        Mode::Run(tier) => {
            let mut rep = Report::new("C07", tier, "model_checking");
            rep.rule("level-BFS over histories of offer(new, live_until, signer) / cancel / accept(signer) / renounce(signer) / holder-only call(signer) / advance(1|3) on the real ownable and access-control example contracts under enforcing authorization; live_until in {0, now-1, now, now+1, now+3, max, max+1}; states merged by canonical storage digest + ledger; non-trivial = distinct state reached through at least one accepted state-changing call");
            let b = Bounds::new(tier.pick(8, 12), tier.pick(40, 600));
            for w in worlds(tier) {
                explore(&w, &b, &mut rep);
            }
            explore(&SelfAdm, &Bounds::new(3, 20), &mut rep);
            rep.require_counter(&["self-admin calls refused"]);
            rep.require(&["offer", "cancel", "accept", "renounce", "holder-only-call"], &["offer", "cancel", "accept", "renounce", "holder-only-call"]);
            rep.finish()
        }
    }
}
