//! C18 — signature verifiers accept exactly genuine, well-formed assertions.
//!
//! Stateless exhaustive enumeration on the real code:
//! * the `webauthn-verifier` and `ed25519-verifier` example contracts (working tree), registered in
//!   a native soroban Env and invoked through `verify(payload, key_data, sig_data)`;
//! * the library's `base64_url_encode`, called directly.
//!
//! Genuine assertions are produced in the harness (p256 ECDSA with low-S normalisation,
//! ed25519-dalek, sha2, the `base64` crate) from fixed byte seeds. Every case is a
//! self-contained descriptor string (`wa:<pair>:<family>:<arg>`, `ed:<pair>:<family>:<arg>`,
//! `b64:<hex input>`); run mode and `--replay` evaluate a case through the very same function.
//!
//! Oracle (from the property statement, never from the code): a genuine assertion is accepted;
//! each listed single change is rejected (`false`, contract error, host error or panic — all the
//! same to the oracle). The flag rule is accepted ⇔ UP ∧ UV ∧ ¬(BS ∧ ¬BE) with the bit positions
//! of the WebAuthn specification; the client-data bound is 1024 bytes, the authenticator-data
//! minimum 37 bytes (rpIdHash 32 + flags 1 + counter 4).

use base64::engine::general_purpose::{STANDARD, STANDARD_NO_PAD, URL_SAFE_NO_PAD};
use base64::Engine as _;
use ed25519_dalek::Signer as _;
use p256::ecdsa::signature::hazmat::PrehashSigner;
use rayon::prelude::*;
use serde_json::json;
use sha2::{Digest, Sha256};
use soroban_sdk::xdr::ToXdr;
use soroban_sdk::{Address, Bytes, BytesN, Env, IntoVal, TryFromVal};
use std::collections::{BTreeMap, BTreeSet};
use std::panic::{catch_unwind, AssertUnwindSafe};
use std::time::Instant;
use stellar_accounts::verifiers::utils::base64_url_encode;
use stellar_accounts::verifiers::webauthn::WebAuthnSigData;
use vh::auth::{view, CallErr};
use vh::cli::main_with;
use vh::engine::Stats;
use vh::report::{Tier, WorldSummary};

#[path = "/repo/examples/multisig-smart-account/ed25519-verifier/src/contract.rs"]
mod ed25519_example;
#[path = "/repo/examples/multisig-smart-account/webauthn-verifier/src/contract.rs"]
mod webauthn_example;

const WORLD: &str = "c18";
const K: usize = 4;

// WebAuthn §6.1 authenticator data flags (bit 0, 2, 3, 4).
const UP: u8 = 0x01;
const UV: u8 = 0x04;
const BE: u8 = 0x08;
const BS: u8 = 0x10;
/// Documented bound of the verifier on clientDataJSON.
const CLIENT_DATA_BOUND: usize = 1024;
/// rpIdHash (32) + flags (1) + signCount (4).
const AUTH_DATA_MIN: usize = 37;

fn flags_ok(f: u8) -> bool {
    (f & UP) != 0 && (f & UV) != 0 && !((f & BS) != 0 && (f & BE) == 0)
}

fn sha(b: &[u8]) -> [u8; 32] {
    Sha256::digest(b).into()
}

// ------------------------------------------------------------------------------------------
// fixed (key, payload) pairs

struct Pair {
    seed: [u8; 32],
    payload: [u8; 32],
    auth: Vec<u8>,
    layout: usize,
    cred: Vec<u8>,
}

fn pair(k: usize) -> Pair {
    let mut payload = sha(format!("C18 payload {k}").as_bytes());
    // make sure the URL-safe alphabet matters: 0xFB 0xFF .. encodes to "-_.."
    let at = [0usize, 9, 18, 27][k];
    payload[at] = 0xFB;
    payload[at + 1] = 0xFF;
    let seed: [u8; 32] = if k == 0 {
        core::array::from_fn(|i| 33 + i as u8)
    } else {
        sha(format!("C18 signing key {k}").as_bytes())
    };
    let auth: Vec<u8> = match k {
        0 => {
            let mut a = sha(b"example.com").to_vec();
            a.push(UP | UV);
            a.extend_from_slice(&[0, 0, 0, 0]);
            a
        }
        1 => {
            let mut a = vec![0u8; 37];
            a[32] = UP | UV | BE | BS;
            a
        }
        2 => {
            let mut a = sha(b"localhost").to_vec();
            a.push(UP | UV | BE);
            a.extend_from_slice(&[0, 0, 0, 41]);
            a
        }
        _ => {
            // neighbours of the flags byte look like acceptable flags; extension data present
            let mut a = vec![UP | UV | BE | BS; 48];
            a[32] = 0x80 | UP | UV | BE | BS;
            a
        }
    };
    let cred = vec![0xC0 + k as u8; [0usize, 16, 32, 64][k]];
    Pair { seed, payload, auth, layout: k, cred }
}

fn p256_pub(seed: &[u8; 32]) -> [u8; 65] {
    let sk = p256::ecdsa::SigningKey::from_slice(seed).expect("p256 secret");
    let pt = sk.verifying_key().to_encoded_point(false);
    let mut out = [0u8; 65];
    out.copy_from_slice(pt.as_bytes());
    out
}

/// ECDSA/P-256 over sha256(authenticator_data ‖ sha256(client_data)), low-S (or its high-S twin).
fn p256_sign(seed: &[u8; 32], auth: &[u8], client: &[u8], high_s: bool) -> [u8; 64] {
    let sk = p256::ecdsa::SigningKey::from_slice(seed).expect("p256 secret");
    let mut msg = auth.to_vec();
    msg.extend_from_slice(&sha(client));
    let digest = sha(&msg);
    let sig: p256::ecdsa::Signature = sk.sign_prehash(&digest).expect("sign");
    let low = sig.normalize_s().unwrap_or(sig);
    let sig = if high_s {
        let (r, s) = low.split_scalars();
        let neg: p256::Scalar = -*s;
        let hi = p256::ecdsa::Signature::from_scalars(*r, neg).expect("high s");
        assert!(hi.normalize_s().is_some(), "high-S twin is not high");
        hi
    } else {
        low
    };
    let mut out = [0u8; 64];
    out.copy_from_slice(&sig.to_bytes());
    out
}

fn b64url(b: &[u8]) -> String {
    URL_SAFE_NO_PAD.encode(b)
}

/// clientDataJSON in one of four layouts; `pad` = (style, exact total length).
fn client_json(layout: usize, ty: Option<&[u8]>, ch: Option<&[u8]>, pad: Option<(&str, usize)>, lead: Option<&[u8]>) -> Result<Vec<u8>, String> {
    let item = |k: &str, v: &[u8]| -> Vec<u8> {
        let colon = if layout == 1 { "\": \"" } else { "\":\"" };
        let mut o = format!("\"{k}{colon}").into_bytes();
        o.extend_from_slice(v);
        o.push(b'"');
        o
    };
    let raw = |s: &str| s.as_bytes().to_vec();
    let t = ty.map(|v| item("type", v));
    let c = ch.map(|v| item("challenge", v));
    let (open, sep, close, mut items): (&str, &str, &str, Vec<Option<Vec<u8>>>) = match layout {
        0 => ("{", ",", "}", vec![t, c, Some(raw("\"origin\":\"https://example.com\"")), Some(raw("\"crossOrigin\":false"))]),
        1 => (
            "{\n            ",
            ",\n            ",
            "\n        }",
            vec![t, c, Some(raw("\"origin\": \"https://example.com\"")), Some(raw("\"crossOrigin\": false"))],
        ),
        2 => ("{", ",", "}", vec![c, Some(raw("\"origin\":\"http://localhost:4507\"")), Some(raw("\"crossOrigin\":true")), t]),
        3 => (
            "{",
            ",",
            "}",
            vec![
                t,
                c,
                Some(raw("\"origin\":\"https://app.example\"")),
                Some(raw("\"crossOrigin\":false")),
                Some(raw("\"other_keys_can_be_added_here\":\"do not compare clientDataJSON against a template. See https://goo.gl/yabPex\"")),
            ],
        ),
        _ => return Err(format!("layout {layout}")),
    };
    if let Some(l) = lead {
        items.insert(0, Some(l.to_vec()));
    }
    let build = |items: &[Option<Vec<u8>>], inner_ws: usize, trail_ws: usize| -> Vec<u8> {
        let mut o = open.as_bytes().to_vec();
        let mut first = true;
        for it in items.iter().flatten() {
            if !first {
                o.extend_from_slice(sep.as_bytes());
            }
            first = false;
            o.extend_from_slice(it);
        }
        o.extend(std::iter::repeat(b' ').take(inner_ws));
        o.extend_from_slice(close.as_bytes());
        o.extend(std::iter::repeat(b' ').take(trail_ws));
        o
    };
    let base = build(&items, 0, 0);
    let Some((style, total)) = pad else { return Ok(base) };
    let out = match style {
        "ws" if total >= base.len() => build(&items, total - base.len(), 0),
        "trail" if total >= base.len() => build(&items, 0, total - base.len()),
        "field" => {
            items.push(Some(item("pad", b"")));
            let b0 = build(&items, 0, 0);
            if total < b0.len() {
                return Err(format!("cannot pad to {total}"));
            }
            let n = total - b0.len();
            *items.last_mut().unwrap() = Some(item("pad", &vec![b'a'; n]));
            build(&items, 0, 0)
        }
        _ => return Err(format!("cannot pad ({style}) to {total}")),
    };
    if out.len() != total {
        return Err(format!("padding produced {} bytes, wanted {total}", out.len()));
    }
    Ok(out)
}

// ------------------------------------------------------------------------------------------
// the real code

struct Ctx {
    e: Env,
    wa: Address,
    ed: Address,
    uses: u32,
}

impl Ctx {
    fn new() -> Self {
        let e = vh::envx::mk_env(100);
        let wa = e.register(webauthn_example::WebauthnVerifierContract, ());
        let ed = e.register(ed25519_example::Ed25519VerifierContract, ());
        Ctx { e, wa, ed, uses: 0 }
    }
    fn tick(&mut self) {
        self.uses += 1;
        if self.uses > 400 {
            *self = Ctx::new();
        }
    }
}

/// (accepted, how it ended) — accepted means `verify` returned `true`; everything else is a rejection.
fn classify(e: &Env, r: std::thread::Result<vh::auth::CallRes>) -> (bool, String) {
    match r {
        Ok(Ok(v)) => match bool::try_from_val(e, &v) {
            Ok(true) => (true, "true".into()),
            Ok(false) => (false, "false".into()),
            Err(_) => (false, "non-bool".into()),
        },
        Ok(Err(CallErr::Contract(c))) => (false, format!("contract#{c}")),
        Ok(Err(CallErr::Other(s))) => {
            let short: String = s.chars().filter(|c| !c.is_whitespace()).take(48).collect();
            (false, format!("host:{short}"))
        }
        Err(_) => (false, "escaped-panic".into()),
    }
}

fn call_wa(ctx: &mut Ctx, payload: &[u8], key_data: &[u8], sig: &[u8; 64], auth: &[u8], client: &[u8]) -> (bool, String) {
    ctx.tick();
    let r = {
        let e = &ctx.e;
        let wa = &ctx.wa;
        catch_unwind(AssertUnwindSafe(|| {
            let sd = WebAuthnSigData {
                signature: BytesN::from_array(e, sig),
                authenticator_data: Bytes::from_slice(e, auth),
                client_data: Bytes::from_slice(e, client),
            };
            let args = (Bytes::from_slice(e, payload), Bytes::from_slice(e, key_data), sd.to_xdr(e)).into_val(e);
            view(e, wa, "verify", args)
        }))
    };
    let poisoned = r.is_err();
    let out = classify(&ctx.e, r);
    if poisoned {
        *ctx = Ctx::new();
    }
    out
}

fn call_ed(ctx: &mut Ctx, payload: &[u8], key: &[u8; 32], sig: &[u8; 64]) -> (bool, String) {
    ctx.tick();
    let r = {
        let e = &ctx.e;
        let ed = &ctx.ed;
        catch_unwind(AssertUnwindSafe(|| {
            let args = (Bytes::from_slice(e, payload), BytesN::from_array(e, key), BytesN::from_array(e, sig)).into_val(e);
            view(e, ed, "verify", args)
        }))
    };
    let poisoned = r.is_err();
    let out = classify(&ctx.e, r);
    if poisoned {
        *ctx = Ctx::new();
    }
    out
}

// ------------------------------------------------------------------------------------------
// case evaluation

struct Outcome {
    kind: String,
    expect: bool,
    accepted: bool,
    how: String,
    /// digest of the exact inputs handed to the implementation (distinctness)
    input: [u8; 32],
}

fn flip(v: &mut [u8], bit: usize) -> Result<(), String> {
    if bit / 8 >= v.len() {
        return Err(format!("bit {bit} outside {} bytes", v.len()));
    }
    v[bit / 8] ^= 1 << (bit % 8);
    Ok(())
}

fn num(s: &str) -> Result<usize, String> {
    s.parse::<usize>().map_err(|_| format!("bad number '{s}'"))
}

const TYPES: [&str; 9] =
    ["webauthn.get", "webauthn.create", "", "payment.get", "webauthn.get ", " webauthn.get", "Webauthn.get", "webauthn.ge", "webauthn.gets"];
const CHALLENGES: [&str; 9] = ["other", "padded", "std", "std-padded", "empty", "short42", "long44", "hex", "swapcase"];
const PAD_STYLES: [&str; 3] = ["ws", "field", "trail"];

fn eval_wa(ctx: &mut Ctx, k: usize, fam: &str, arg: &str) -> Result<Outcome, String> {
    if k >= K {
        return Err(format!("pair {k}"));
    }
    let p = pair(k);
    let mut payload = p.payload.to_vec();
    let mut ty: Option<Vec<u8>> = Some(b"webauthn.get".to_vec());
    let mut ch: Option<Vec<u8>> = Some(b64url(&p.payload).into_bytes());
    let mut auth = p.auth.clone();
    let mut key_data = p256_pub(&p.seed).to_vec();
    key_data.extend_from_slice(&p.cred);
    let mut pad: Option<(&str, usize)> = None;
    // an extra leading member of the client data object
    let mut lead: Option<Vec<u8>> = None;
    let mut signer = p.seed;
    let mut high_s = false;
    // (target, bit) applied after signing
    let mut post: Option<(&str, usize)> = None;
    let expect: bool;
    match fam {
        "genuine" => expect = true,
        "flags" => {
            let f = num(arg)?;
            if f > 255 {
                return Err("flags > 255".into());
            }
            auth[32] = f as u8;
            expect = flags_ok(f as u8);
        }
        "flip-sig" | "flip-key" | "flip-auth" | "flip-payload" | "flip-client" => {
            post = Some((fam, num(arg)?));
            expect = false;
        }
        "type" => {
            ty = Some(arg.as_bytes().to_vec());
            expect = arg == "webauthn.get";
        }
        "type-flip" => {
            flip(ty.as_mut().unwrap(), num(arg)?)?;
            expect = false;
        }
        "chal-flip" => {
            flip(ch.as_mut().unwrap(), num(arg)?)?;
            expect = false;
        }
        "challenge" => {
            let own = b64url(&p.payload);
            let v: String = match arg {
                "other" => b64url(&pair((k + 1) % K).payload),
                "padded" => format!("{own}="),
                "std" => STANDARD_NO_PAD.encode(p.payload),
                "std-padded" => STANDARD.encode(p.payload),
                "empty" => String::new(),
                "short42" => own[..42].to_string(),
                "long44" => format!("{own}A"),
                "hex" => hex::encode(p.payload),
                "swapcase" => own.chars().map(|c| if c.is_ascii_lowercase() { c.to_ascii_uppercase() } else { c.to_ascii_lowercase() }).collect(),
                _ => return Err(format!("challenge kind {arg}")),
            };
            if v == own {
                return Err(format!("challenge variant {arg} coincides with the genuine challenge"));
            }
            ch = Some(v.into_bytes());
            expect = false;
        }
        "decoy" => {
            // the top-level type / challenge are wrong; the right ones appear only inside another member
            let own = b64url(&p.payload);
            let (l, wrong_type): (String, bool) = match arg {
                "nested-type" => (format!("\"extra\":{{\"type\":\"webauthn.get\",\"challenge\":\"{own}\"}}"), true),
                "nested-challenge" => (format!("\"extra\":{{\"type\":\"webauthn.get\",\"challenge\":\"{own}\"}}"), false),
                "array-type" => (format!("\"extra\":[\"type\",\"webauthn.get\",\"challenge\",\"{own}\"]"), true),
                "array-challenge" => (format!("\"extra\":[\"type\",\"webauthn.get\",\"challenge\",\"{own}\"]"), false),
                _ => return Err(format!("decoy {arg}")),
            };
            lead = Some(l.into_bytes());
            if wrong_type {
                ty = Some(b"webauthn.create".to_vec());
            } else {
                ch = Some(b64url(&pair((k + 1) % K).payload).into_bytes());
            }
            expect = false;
        }
        "missing" => {
            match arg {
                "type" => ty = None,
                "challenge" => ch = None,
                _ => return Err(format!("missing {arg}")),
            }
            expect = false;
        }
        "client-len" => {
            let (style, l) = arg.split_once(':').ok_or("client-len:<style>:<len>")?;
            let l = num(l)?;
            let style = PAD_STYLES.iter().find(|s| **s == style).ok_or("pad style")?;
            pad = Some((style, l));
            expect = l <= CLIENT_DATA_BOUND;
        }
        "auth-len" => {
            let l = num(arg)?;
            auth.resize(l, 0x41);
            expect = l >= AUTH_DATA_MIN;
        }
        "key-len" => {
            let l = num(arg)?;
            key_data.resize(l, 0x5A);
            expect = l >= 65;
        }
        "payload-len" => {
            let l = num(arg)?;
            if l >= 32 {
                return Err("payload-len covers truncations only (longer payloads are out of scope)".into());
            }
            payload.truncate(l);
            expect = false;
        }
        "wrong-signer" => {
            signer = pair((k + 1) % K).seed;
            expect = false;
        }
        "high-s" => {
            high_s = true;
            expect = false;
        }
        _ => return Err(format!("unknown webauthn family {fam}")),
    }
    let mut client = client_json(p.layout, ty.as_deref(), ch.as_deref(), pad, lead.as_deref())?;
    let mut sig = p256_sign(&signer, &auth, &client, high_s);
    if let Some((t, bit)) = post {
        match t {
            "flip-sig" => flip(&mut sig, bit)?,
            "flip-key" => {
                if bit >= 65 * 8 {
                    return Err("flip-key covers the 65-byte public key".into());
                }
                flip(&mut key_data, bit)?
            }
            "flip-auth" => flip(&mut auth, bit)?,
            "flip-payload" => flip(&mut payload, bit)?,
            _ => flip(&mut client, bit)?,
        }
    }
    let mut h = Sha256::new();
    for part in [&b"wa"[..], &payload, &key_data, &sig, &auth, &client] {
        h.update((part.len() as u32).to_be_bytes());
        h.update(part);
    }
    let (accepted, how) = call_wa(ctx, &payload, &key_data, &sig, &auth, &client);
    Ok(Outcome { kind: format!("wa-{fam}"), expect, accepted, how, input: h.finalize().into() })
}

fn ed_pair(k: usize) -> (ed25519_dalek::SigningKey, [u8; 32]) {
    let seed = sha(format!("C18 ed25519 key {k}").as_bytes());
    (ed25519_dalek::SigningKey::from_bytes(&seed), sha(format!("C18 ed25519 payload {k}").as_bytes()))
}

fn eval_ed(ctx: &mut Ctx, k: usize, fam: &str, arg: &str) -> Result<Outcome, String> {
    if k >= K {
        return Err(format!("pair {k}"));
    }
    let (sk, pl) = ed_pair(k);
    let mut payload = pl.to_vec();
    let mut key = sk.verifying_key().to_bytes();
    let mut sig = sk.sign(&pl).to_bytes();
    let expect = fam == "genuine";
    match fam {
        "genuine" => {}
        "flip-sig" => flip(&mut sig, num(arg)?)?,
        "flip-key" => flip(&mut key, num(arg)?)?,
        "flip-payload" => flip(&mut payload, num(arg)?)?,
        "payload-len" => {
            let l = num(arg)?;
            if l == 32 {
                return Err("payload-len 32 is the genuine case".into());
            }
            payload.resize(l, 0);
        }
        "wrong-signer" => sig = ed_pair((k + 1) % K).0.sign(&pl).to_bytes(),
        "other-payload" => sig = sk.sign(&ed_pair((k + 1) % K).1).to_bytes(),
        _ => return Err(format!("unknown ed25519 family {fam}")),
    }
    let mut h = Sha256::new();
    for part in [&b"ed"[..], &payload, &key, &sig] {
        h.update((part.len() as u32).to_be_bytes());
        h.update(part);
    }
    let (accepted, how) = call_ed(ctx, &payload, &key, &sig);
    Ok(Outcome { kind: format!("ed-{fam}"), expect, accepted, how, input: h.finalize().into() })
}

/// base64url helper against RFC 4648 §5 without padding (reference: the `base64` crate).
/// Checked twice: with a destination of exactly the encoded length (as the verifier uses it) and
/// with a longer zeroed destination (nothing may be written past the encoding, e.g. padding).
fn b64_check(src: &[u8]) -> Result<(), String> {
    let mut want = [0u8; 128];
    let n = URL_SAFE_NO_PAD.encode_slice(src, &mut want).map_err(|e| format!("reference: {e}"))?;
    if n != (src.len() * 4 + 2) / 3 {
        return Err(format!("reference length {n}"));
    }
    let mut got = [0u8; 132];
    if catch_unwind(AssertUnwindSafe(|| base64_url_encode(&mut got[..n], src))).is_err() {
        return Err(format!("panicked with a destination of exactly {n} bytes"));
    }
    if got[..n] != want[..n] {
        return Err(format!(
            "encoded {:?}, RFC 4648 §5 says {:?}",
            String::from_utf8_lossy(&got[..n]),
            String::from_utf8_lossy(&want[..n])
        ));
    }
    let mut big = [0u8; 132];
    if catch_unwind(AssertUnwindSafe(|| base64_url_encode(&mut big[..n + 4], src))).is_err() {
        return Err("panicked with a longer destination".into());
    }
    if big[..n] != want[..n] || big[n..n + 4] != [0u8; 4] {
        return Err(format!("with a longer destination wrote {:?}", String::from_utf8_lossy(&big[..n + 4])));
    }
    Ok(())
}

fn eval_case(ctx: &mut Ctx, case: &str) -> Result<Outcome, String> {
    let mut it = case.splitn(4, ':');
    let scheme = it.next().unwrap_or("");
    if scheme == "b64" {
        let src = hex::decode(it.next().unwrap_or("")).map_err(|e| format!("hex: {e}"))?;
        let r = b64_check(&src);
        return Ok(Outcome {
            kind: "b64".into(),
            expect: true,
            accepted: r.is_ok(),
            how: r.err().unwrap_or_else(|| "equal".into()),
            input: sha(&src),
        });
    }
    let k = num(it.next().unwrap_or(""))?;
    let fam = it.next().unwrap_or("");
    let arg = it.next().unwrap_or("");
    match scheme {
        "wa" => eval_wa(ctx, k, fam, arg),
        "ed" => eval_ed(ctx, k, fam, arg),
        _ => Err(format!("unknown scheme in case '{case}'")),
    }
}

fn oracle_of(o: &Outcome) -> Option<(&'static str, String)> {
    if o.kind == "b64" {
        return (!o.accepted).then(|| ("base64url-rfc4648", o.how.clone()));
    }
    match (o.expect, o.accepted) {
        (true, false) => Some(("genuine-accepted", format!("a genuine, well-formed assertion was rejected ({})", o.how))),
        (false, true) => Some(("corruption-rejected", "an assertion that is not genuine for (payload, key) was accepted: verify returned true".to_string())),
        _ => None,
    }
}

// ------------------------------------------------------------------------------------------
// enumeration

fn verifier_cases(tier: Tier) -> Vec<String> {
    let mut v: Vec<String> = vec![];
    for k in 0..K {
        let p = pair(k);
        let client_len = client_json(p.layout, Some(b"webauthn.get"), Some(b64url(&p.payload).as_bytes()), None, None).unwrap().len();
        let w = |v: &mut Vec<String>, s: String| v.push(format!("wa:{k}:{s}"));
        w(&mut v, "genuine:".into());
        for f in 0..256 {
            w(&mut v, format!("flags:{f}"));
        }
        for t in TYPES {
            w(&mut v, format!("type:{t}"));
        }
        for c in CHALLENGES {
            w(&mut v, format!("challenge:{c}"));
        }
        for d in ["nested-type", "nested-challenge", "array-type", "array-challenge"] {
            w(&mut v, format!("decoy:{d}"));
        }
        w(&mut v, "missing:type".into());
        w(&mut v, "missing:challenge".into());
        w(&mut v, "wrong-signer:".into());
        w(&mut v, "high-s:".into());
        for l in (0..=40).chain([64]) {
            w(&mut v, format!("auth-len:{l}"));
        }
        for l in [0usize, 1, 32, 33, 64, 65, 66, 65 + 16, 65 + 64] {
            w(&mut v, format!("key-len:{l}"));
        }
        for l in 0..32 {
            w(&mut v, format!("payload-len:{l}"));
        }
        for style in PAD_STYLES {
            for l in 1000..=1030 {
                w(&mut v, format!("client-len:{style}:{l}"));
            }
        }
        for b in 0..512 {
            w(&mut v, format!("flip-sig:{b}"));
        }
        for b in 0..520 {
            w(&mut v, format!("flip-key:{b}"));
        }
        for b in 0..p.auth.len() * 8 {
            w(&mut v, format!("flip-auth:{b}"));
        }
        for b in 0..256 {
            w(&mut v, format!("flip-payload:{b}"));
        }
        for pos in 0..client_len {
            // quick: one bit per byte position (rotating); thorough: every bit
            for bit in 0..8 {
                if tier == Tier::Thorough || bit == pos % 8 {
                    w(&mut v, format!("flip-client:{}", pos * 8 + bit));
                }
            }
        }
        // re-signed single-bit changes inside the type and challenge values
        for b in 0..12 * 8 {
            w(&mut v, format!("type-flip:{b}"));
        }
        for b in 0..43 * 8 {
            w(&mut v, format!("chal-flip:{b}"));
        }
    }
    for k in 0..K {
        let w = |v: &mut Vec<String>, s: String| v.push(format!("ed:{k}:{s}"));
        w(&mut v, "genuine:".into());
        for b in 0..512 {
            w(&mut v, format!("flip-sig:{b}"));
        }
        for b in 0..256 {
            w(&mut v, format!("flip-key:{b}"));
        }
        for b in 0..256 {
            w(&mut v, format!("flip-payload:{b}"));
        }
        for l in [0usize, 31, 33, 64] {
            w(&mut v, format!("payload-len:{l}"));
        }
        w(&mut v, "wrong-signer:".into());
        w(&mut v, "other-payload:".into());
    }
    v
}

#[derive(Default)]
struct B64Out {
    n: u64,
    distinct_nonempty: u64,
    bad: Option<(Vec<u8>, String)>,
}

impl B64Out {
    fn one(&mut self, src: &[u8]) {
        self.n += 1;
        if !src.is_empty() {
            self.distinct_nonempty += 1;
        }
        if let Err(d) = b64_check(src) {
            if self.bad.as_ref().map_or(true, |(b, _)| (src.len(), src) < (b.len(), b.as_slice())) {
                self.bad = Some((src.to_vec(), d));
            }
        }
    }
    fn merge(mut self, o: B64Out) -> B64Out {
        self.n += o.n;
        self.distinct_nonempty += o.distinct_nonempty;
        if let Some((s, d)) = o.bad {
            if self.bad.as_ref().map_or(true, |(b, _)| (s.len(), s.as_slice()) < (b.len(), b.as_slice())) {
                self.bad = Some((s, d));
            }
        }
        self
    }
}

const L3_QUICK_FIRST: [u8; 16] = [0x00, 0x01, 0x03, 0x04, 0x0F, 0x10, 0x3F, 0x40, 0x7F, 0x80, 0xAA, 0xC0, 0xF0, 0xFB, 0xFC, 0xFF];

/// All byte strings of length 0..=3 (quick: length 3 restricted to 16 first bytes). Every input
/// is generated exactly once.
fn b64_short(tier: Tier) -> B64Out {
    let firsts: Vec<u8> = match tier {
        Tier::Quick => L3_QUICK_FIRST.to_vec(),
        Tier::Thorough => (0..=255).collect(),
    };
    let mut base = B64Out::default();
    base.one(&[]);
    for a in 0..=255u8 {
        base.one(&[a]);
        for b in 0..=255u8 {
            base.one(&[a, b]);
        }
    }
    let l3 = firsts
        .par_iter()
        .map(|&a| {
            let mut o = B64Out::default();
            for b in 0..=255u8 {
                for c in 0..=255u8 {
                    o.one(&[a, b, c]);
                }
            }
            o
        })
        .reduce(B64Out::default, B64Out::merge);
    base.merge(l3)
}

fn background(which: usize, len: usize) -> Vec<u8> {
    (0..len)
        .map(|i| match which {
            0 => 0x00,
            1 => 0xFF,
            _ => (i as u8).wrapping_mul(37).wrapping_add(11),
        })
        .collect()
}

/// Whether `s` is produced from background `bg` by the enumeration below (the background itself,
/// one byte changed, or two adjacent bytes both changed).
fn reach(bg: &[u8], s: &[u8]) -> bool {
    let mut d = [0usize; 2];
    let mut n = 0;
    for i in 0..s.len() {
        if s[i] != bg[i] {
            if n == 2 {
                return false;
            }
            d[n] = i;
            n += 1;
        }
    }
    n <= 1 || d[1] == d[0] + 1
}

/// Lengths 4..=64 over three backgrounds: every (position, byte value), and — for lengths up to
/// `pair_max_len` — every pair of values at every two adjacent positions (each output character
/// of base64 depends on at most two adjacent input bytes). Every input is generated exactly
/// once: a variant equal to the background, to a single-byte variant or to a variant of an
/// earlier background is skipped.
fn b64_long(pair_max_len: usize) -> B64Out {
    let mut tasks: Vec<(usize, usize, usize)> = vec![];
    for len in 4usize..=64 {
        for which in 0..3 {
            for pos in 0..len {
                tasks.push((len, which, pos));
            }
        }
    }
    tasks
        .par_iter()
        .map(|&(len, which, pos)| {
            let mut o = B64Out::default();
            let bg = background(which, len);
            let earlier: Vec<Vec<u8>> = (0..which).map(|w| background(w, len)).collect();
            let fresh = |s: &[u8]| !earlier.iter().any(|b| reach(b, s));
            if pos == 0 && fresh(&bg) {
                o.one(&bg);
            }
            let mut s = bg.clone();
            for v in 0..=255u8 {
                if v != bg[pos] {
                    s[pos] = v;
                    if fresh(&s) {
                        o.one(&s);
                    }
                }
            }
            if pos + 1 < len && len <= pair_max_len {
                for a in 0..=255u8 {
                    if a == bg[pos] {
                        continue;
                    }
                    s[pos] = a;
                    for b in 0..=255u8 {
                        if b != bg[pos + 1] {
                            s[pos + 1] = b;
                            if fresh(&s) {
                                o.one(&s);
                            }
                        }
                    }
                }
            }
            o
        })
        .reduce(B64Out::default, B64Out::merge)
}

fn reference_self_test() -> Result<(), String> {
    // RFC 4648 §10 vectors (without padding) and the two URL-safe characters
    for (i, o) in [("", ""), ("f", "Zg"), ("fo", "Zm8"), ("foo", "Zm9v"), ("foob", "Zm9vYg"), ("fooba", "Zm9vYmE"), ("foobar", "Zm9vYmFy")] {
        if URL_SAFE_NO_PAD.encode(i) != o {
            return Err(format!("reference encoder disagrees with RFC 4648 on {i:?}"));
        }
    }
    if URL_SAFE_NO_PAD.encode([0xFB, 0xFF]) != "-_8" || URL_SAFE_NO_PAD.encode([0xFB, 0xFF, 0xBE]) != "-_--" {
        return Err("reference encoder: URL-safe characters".into());
    }
    for k in 0..K {
        let p = pair(k);
        let u = b64url(&p.payload);
        if u.len() != 43 || u == STANDARD_NO_PAD.encode(p.payload) || !u.contains('-') || !u.contains('_') {
            return Err(format!("payload {k} does not exercise the URL-safe alphabet"));
        }
        for j in 0..k {
            if pair(j).payload == p.payload || pair(j).seed == p.seed {
                return Err("pairs are not distinct".into());
            }
        }
    }
    Ok(())
}

fn main() {
    main_with(
        "C18",
        "exploration",
        "stateless exhaustive enumeration on the real webauthn-verifier / ed25519-verifier example contracts and base64_url_encode: for each of 4 fixed (key, payload) pairs a genuine assertion made in the harness (p256 low-S ECDSA / ed25519-dalek, sha2, base64 crate; four clientDataJSON layouts, four authenticator-data shapes) must be accepted; all 256 flag bytes (re-signed) accepted iff UP & UV & !(BS & !BE); every single-bit flip of signature (512), public key (520), authenticator data, payload (256) and of clientDataJSON (quick: one bit per byte position, thorough: every bit), re-signed bit flips inside the type (96) and challenge (344) values, 9 type strings, 9 challenge encodings (other payload, padded, standard alphabet, ...), missing fields, wrong signer, high-S twin, truncated payload / key data must be rejected; clientDataJSON padded three ways to every length 1000..=1030 accepted iff <= 1024; authenticator data of every length 0..=40 and 64 accepted iff >= 37; ed25519: genuine accepted, every bit flip of signature / key / payload, wrong signer, other payload, other payload lengths rejected; base64url = RFC 4648 section 5 unpadded (base64 crate) for all byte strings of length 0..=3 (quick: length 3 with 16 first bytes) and for lengths 4..=64 every (position, byte value) plus (lengths <= 8 quick, <= 64 thorough) every pair of values at two adjacent positions, over three backgrounds, each input generated once. distinct = distinct input tuples handed to the implementation (sha-256 of the inputs, measured); non-trivial = distinct verifier inputs plus distinct non-empty encoder inputs",
        |tier, runner| {
            if let Some(case) = runner.replay_case(WORLD) {
                println!("replaying case {case}");
                let mut ctx = Ctx::new();
                match eval_case(&mut ctx, &case) {
                    Err(m) => println!("  cannot evaluate: {m}"),
                    Ok(o) => {
                        println!(
                            "  kind={} expected={} observed={} ({})",
                            o.kind,
                            if o.expect { "accept" } else { "reject" },
                            if o.accepted { "accept" } else { "reject" },
                            o.how
                        );
                        match oracle_of(&o) {
                            Some((oracle, d)) => println!("  VIOLATED oracle={oracle} : {d}"),
                            None => println!("replay finished: no oracle violated on this case"),
                        }
                    }
                }
                return;
            }
            let Some(rep) = runner.report() else { return };
            let t0 = Instant::now();
            if let Err(m) = reference_self_test() {
                rep.machinery_error(&m);
                return;
            }
            let mut stats = Stats::default();

            // ---- verifiers
            let cases = verifier_cases(tier);
            let outs: Vec<Result<Outcome, String>> =
                cases.par_iter().with_min_len(32).map_init(Ctx::new, |ctx, c| eval_case(ctx, c)).collect();
            let mut distinct: BTreeSet<[u8; 32]> = BTreeSet::new();
            let mut how: BTreeMap<String, u64> = BTreeMap::new();
            let mut sampled: BTreeSet<String> = BTreeSet::new();
            for (c, o) in cases.iter().zip(outs.iter()) {
                match o {
                    Err(m) => rep.machinery_error(&format!("case {c}: {m}")),
                    Ok(o) => {
                        stats.op(&o.kind, o.accepted);
                        *how.entry(format!("{} -> {}", o.kind, o.how)).or_default() += 1;
                        distinct.insert(o.input);
                        if let Some((oracle, d)) = oracle_of(o) {
                            rep.case_violation(
                                WORLD,
                                oracle,
                                &o.kind,
                                c.clone(),
                                format!("{c}: expected {}, the verifier {} ({}) — {d}", if o.expect { "accept" } else { "reject" }, if o.accepted { "accepted" } else { "rejected" }, o.how),
                            );
                        }
                        let tag = format!("{}{}", o.kind, o.accepted);
                        if ["wa-flagstrue", "wa-client-lenfalse", "ed-flip-sigfalse", "wa-chal-flipfalse"].contains(&tag.as_str()) && sampled.insert(tag) {
                            rep.sample(json!({"case": c, "expected": if o.expect {"accept"} else {"reject"}, "observed": if o.accepted {"accept"} else {"reject"}, "ended": o.how}));
                        }
                    }
                }
            }
            rep.evaluations += cases.len() as u64;
            rep.distinct_nontrivial += distinct.len() as u64;
            stats.count("verifier-cases", cases.len() as u64);
            stats.count("verifier-distinct-inputs", distinct.len() as u64);
            for (k, n) in &how {
                stats.count(k, *n);
            }

            // ---- base64url
            let short = b64_short(tier);
            let long = b64_long(tier.pick(8, 64));
            for (kind, o) in [("b64-len0-3", &short), ("b64-len4-64", &long)] {
                let bad = o.bad.is_some() as u64;
                let e = stats.ops.entry(kind.to_string()).or_default();
                e.0 += o.n - bad;
                e.1 += bad;
                rep.evaluations += o.n;
                rep.distinct_nontrivial += o.distinct_nonempty;
                if let Some((src, d)) = &o.bad {
                    let case = format!("b64:{}", hex::encode(src));
                    rep.case_violation(WORLD, "base64url-rfc4648", kind, case.clone(), format!("{case}: {d}"));
                }
            }
            let mut d = [0u8; 4];
            base64_url_encode(&mut d, &[0xFB, 0xFF, 0xBE]);
            rep.sample(json!({"case": "b64:fbffbe", "expected": "-_--", "observed": String::from_utf8_lossy(&d).to_string()}));
            rep.extra("base64url_inputs", json!({"len0_3": short.n, "len4_64": long.n}));

            rep.world_done(WorldSummary {
                world: WORLD.into(),
                states: 0,
                transitions: 0,
                nontrivial: 0,
                completed_depth: 0,
                target_depth: 0,
                exhaustive: true,
                saturated: true,
                cap_note: "(stateless enumeration: no state graph; the counts are in evaluations / distinct_nontrivial; ok = accepted / equal, refused = rejected)".into(),
                stats,
                samples: vec![],
                wall_s: t0.elapsed().as_secs_f64(),
            });
            rep.require(
                &["wa-genuine", "wa-flags", "wa-type", "wa-client-len", "wa-auth-len", "wa-key-len", "ed-genuine", "b64-len0-3", "b64-len4-64"],
                &[
                    "wa-flags", "wa-type", "wa-challenge", "wa-decoy", "wa-missing", "wa-client-len", "wa-auth-len", "wa-key-len", "wa-payload-len",
                    "wa-wrong-signer", "wa-high-s", "wa-flip-sig", "wa-flip-key", "wa-flip-auth", "wa-flip-payload", "wa-flip-client",
                    "wa-type-flip", "wa-chal-flip", "ed-flip-sig", "ed-flip-key", "ed-flip-payload", "ed-payload-len", "ed-wrong-signer",
                    "ed-other-payload",
                ],
            );
        },
    )
}
