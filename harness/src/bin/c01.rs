//! C01 — fungible supply is conserved and reconstructible from events.
//!
//! Flavours: plain Base+Burnable (wrapper), AllowList / BlockList (the example contracts),
//! Votes (wrapper over FungibleVotes), Vault shares (fungible-vault example over a Base asset).
//! RWA (wrapper over the RWA library with every gate open; the gates are C04's subject). All calls run under recording authorization: who may call is
//! C02's subject; this check is about amounts.

use num_bigint::BigInt;
use soroban_sdk::testutils::Address as _;
use soroban_sdk::{Address, Env, IntoVal, String as SString, TryFromVal, Val, Vec as SVec};
use vh::auth::{self, call_mocked, view};
use vh::cli::{main_with, Runner};
use vh::engine::{Bounds, StepCtx, Violation, World};
use vh::ensure;
use vh::envx;
use vh::ev::last_events;
use vh::report::Tier;

#[path = "../shared/tokens.rs"]
mod tokens;
#[path = "../shared/rwa_wrap.rs"]
mod rwa_wrap;
#[path = "/repo/examples/fungible-allowlist/src/contract.rs"]
mod allowlist_example;
#[path = "/repo/examples/fungible-blocklist/src/contract.rs"]
mod blocklist_example;
#[path = "/repo/examples/fungible-vault/src/contract.rs"]
mod vault_example;

const N: usize = 3;
const NAMES: [&str; N] = ["A", "B", "C"];

#[derive(Clone, Copy, Debug, PartialEq, Eq)]
enum Flavour {
    Base,
    AllowList,
    BlockList,
    Votes,
    Vault(u32),
    /// RWA wrapper token, every gate open (the gates themselves are C04's subject); `burn` is the
    /// supervisory burn, `forced_transfer` is explored as a second kind of transfer
    Rwa,
}

#[derive(Clone, Debug, PartialEq, Eq)]
enum Op {
    Mint { to: usize, a: i128 },
    Transfer { from: usize, to: usize, a: i128 },
    Approve { o: usize, s: usize, a: i128, live: u32 },
    TransferFrom { s: usize, from: usize, to: usize, a: i128 },
    Burn { from: usize, a: i128 },
    BurnFrom { s: usize, from: usize, a: i128 },
    /// vault: deposit `a` assets of `who` (operator = from = who), shares to `recv`
    VDeposit { who: usize, recv: usize, a: i128 },
    VMint { who: usize, recv: usize, a: i128 },
    VWithdraw { who: usize, recv: usize, a: i128 },
    VRedeem { who: usize, recv: usize, a: i128 },
    /// vault: `op` withdraws / redeems `owner`'s shares through a share allowance, assets to `recv`
    VWithdrawBy { op: usize, owner: usize, recv: usize, a: i128 },
    VRedeemBy { op: usize, owner: usize, recv: usize, a: i128 },
    /// vault: `who` sends `a` underlying assets straight to the vault (a donation / yield: no shares move)
    VDonate { who: usize, a: i128 },
    /// probe on a rebuilt copy: 600000 ledgers pass without a call; balances and supply must be the same
    IdleProbe,
    /// probe on a rebuilt copy: `from` sends 1 token to the token contract's OWN address — a transfer like
    /// any other: the supply must not move, the contract's balance must grow by 1
    ToTokenItselfProbe { from: usize },
    Forced { from: usize, to: usize, a: i128 },
    /// RWA: recover the whole balance of `old` to its registered recovery target `new`
    Recover { old: usize, new: usize },
}

#[derive(Clone, Debug, PartialEq, Eq, Hash)]
struct Obs {
    bal: [i128; N],
    allow: [[i128; N]; N],
    supply: i128,
}

#[derive(Clone, Debug)]
struct Model {
    obs: Obs,
    /// balances reconstructed from the token's events only
    ledger: [BigInt; N],
}

struct Tok {
    flavour: Flavour,
    thorough: bool,
}

struct Inst {
    e: Env,
    c: Address,
    u: [Address; N],
    asset: Option<Address>,
}

impl Inst {
    fn idx(&self, a: &Address) -> Option<usize> {
        self.u.iter().position(|x| x == a)
    }
}

fn i128_of(e: &Env, v: Val) -> i128 {
    i128::try_from_val(e, &v).expect("i128")
}

impl Tok {
    fn observe(&self, i: &Inst) -> Result<Obs, Violation> {
        let e = &i.e;
        let get = |f: &str, args: SVec<Val>| -> Result<i128, Violation> {
            view(e, &i.c, f, args).map(|v| i128_of(e, v)).map_err(|x| Violation::new("getter", format!("{f}: {x:?}")))
        };
        let mut o = Obs { bal: [0; N], allow: [[0; N]; N], supply: get("total_supply", SVec::new(e))? };
        for a in 0..N {
            o.bal[a] = get("balance", (i.u[a].clone(),).into_val(e))?;
            for s in 0..N {
                o.allow[a][s] = get("allowance", (i.u[a].clone(), i.u[s].clone()).into_val(e))?;
            }
        }
        Ok(o)
    }

    fn call(&self, i: &Inst, op: &Op) -> Option<(&'static str, SVec<Val>)> {
        let e = &i.e;
        let u = |k: usize| i.u[k].clone();
        let vault = matches!(self.flavour, Flavour::Vault(_));
        Some(match op {
            Op::Mint { to, a } => {
                if !matches!(self.flavour, Flavour::Base | Flavour::Votes | Flavour::Rwa) {
                    return None;
                }
                ("mint", (u(*to), *a).into_val(e))
            }
            Op::Transfer { from, to, a } => ("transfer", (u(*from), u(*to), *a).into_val(e)),
            Op::Approve { o, s, a, live } => ("approve", (u(*o), u(*s), *a, *live).into_val(e)),
            Op::TransferFrom { s, from, to, a } => ("transfer_from", (u(*s), u(*from), u(*to), *a).into_val(e)),
            Op::Burn { from, a } => {
                if vault || self.flavour == Flavour::BlockList {
                    return None;
                }
                ("burn", (u(*from), *a).into_val(e))
            }
            Op::Forced { from, to, a } => ("forced_transfer", (u(*from), u(*to), *a).into_val(e)),
            Op::Recover { old, new } => ("recover_balance", (u(*old), u(*new)).into_val(e)),
            Op::BurnFrom { s, from, a } => {
                if vault || self.flavour == Flavour::BlockList || self.flavour == Flavour::Rwa {
                    return None;
                }
                ("burn_from", (u(*s), u(*from), *a).into_val(e))
            }
            Op::VDeposit { who, recv, a } => ("deposit", (*a, u(*recv), u(*who), u(*who)).into_val(e)),
            Op::VMint { who, recv, a } => ("mint", (*a, u(*recv), u(*who), u(*who)).into_val(e)),
            Op::VWithdraw { who, recv, a } => ("withdraw", (*a, u(*recv), u(*who), u(*who)).into_val(e)),
            Op::VRedeem { who, recv, a } => ("redeem", (*a, u(*recv), u(*who), u(*who)).into_val(e)),
            Op::VWithdrawBy { op, owner, recv, a } => ("withdraw", (*a, u(*recv), u(*owner), u(*op)).into_val(e)),
            Op::VRedeemBy { op, owner, recv, a } => ("redeem", (*a, u(*recv), u(*owner), u(*op)).into_val(e)),
            Op::VDonate { .. } | Op::IdleProbe | Op::ToTokenItselfProbe { .. } => return None,
        })
    }

    fn exec(&self, i: &Inst, op: &Op) -> bool {
        if let Op::VDonate { who, a } = op {
            let asset = i.asset.as_ref().expect("vault flavour");
            return call_mocked(&i.e, asset, "transfer", (i.u[*who].clone(), i.c.clone(), *a).into_val(&i.e)).is_ok();
        }
        if matches!(op, Op::IdleProbe | Op::ToTokenItselfProbe { .. }) {
            return false;
        }
        let (f, args) = self.call(i, op).expect("op not available in flavour");
        let r = call_mocked(&i.e, &i.c, f, args);
        if std::env::var("VH_DEBUG").is_ok() {
            eprintln!("{op:?} -> {:?}", r.as_ref().map(|_| ()));
        }
        r.is_ok()
    }

    /// Fold the token's balance-relevant events of the last invocation into `ledger`.
    fn fold_events(&self, i: &Inst, ledger: &mut [BigInt; N]) -> Result<Vec<(String, Option<usize>, Option<usize>, i128)>, Violation> {
        self.fold(i, last_events(&i.e), ledger)
    }

    fn fold(&self, i: &Inst, evs: Vec<vh::ev::Ev>, ledger: &mut [BigInt; N]) -> Result<Vec<(String, Option<usize>, Option<usize>, i128)>, Violation> {
        let mut seen = vec![];
        for ev in evs {
            if ev.contract.as_ref() != Some(&i.c) {
                continue;
            }
            let party = |k: usize| -> Result<usize, Violation> {
                ev.topic_addr(&i.e, k)
                    .and_then(|a| i.idx(&a))
                    .ok_or_else(|| Violation::new("event-layout", format!("event {} topic {k} is not a known account", ev.name)))
            };
            let amt = |k: &str| ev.field_i128(k).ok_or_else(|| Violation::new("event-layout", format!("event {} lacks i128 field {k}", ev.name)));
            // vault shares: the statement names the deposit and withdraw events (plus transfers) as the
            // record of share balances; mint/burn events a vault may additionally emit for the same
            // movement must not be counted twice
            let vault = matches!(self.flavour, Flavour::Vault(_));
            match ev.name.as_str() {
                "mint" | "burn" if vault => {}
                "mint" => {
                    let (t, a) = (party(1)?, amt("amount")?);
                    ledger[t] += a;
                    seen.push(("mint".to_string(), None, Some(t), a));
                }
                "burn" => {
                    let (f, a) = (party(1)?, amt("amount")?);
                    ledger[f] -= a;
                    seen.push(("burn".to_string(), Some(f), None, a));
                }
                "transfer" => {
                    let (f, t, a) = (party(1)?, party(2)?, amt("amount")?);
                    ledger[f] -= a;
                    ledger[t] += a;
                    seen.push(("transfer".to_string(), Some(f), Some(t), a));
                }
                "deposit" => {
                    let (t, a) = (party(3)?, amt("shares")?);
                    ledger[t] += a;
                    seen.push(("deposit".to_string(), None, Some(t), a));
                }
                "withdraw" => {
                    let (f, a) = (party(3)?, amt("shares")?);
                    ledger[f] -= a;
                    seen.push(("withdraw".to_string(), Some(f), None, a));
                }
                _ => {}
            }
        }
        Ok(seen)
    }
}

fn zero_ledger() -> [BigInt; N] {
    [BigInt::from(0), BigInt::from(0), BigInt::from(0)]
}

impl World for Tok {
    type Op = Op;
    type Model = Model;
    type Inst = Inst;

    fn name(&self) -> String {
        format!("fungible-{:?}{}", self.flavour, if self.thorough { "-t" } else { "" })
    }
    fn seeds(&self) -> usize {
        if matches!(self.flavour, Flavour::Vault(_)) {
            3
        } else {
            2
        }
    }
    fn seed_name(&self, s: usize) -> String {
        ["small", "supply=i128::MAX-1", "priced vault: A and B hold shares, 7 assets donated, B and C operators of A"][s].to_string()
    }

    fn fresh(&self, seed: usize) -> (Inst, Model) {
        let e = envx::mk_env(100);
        let u = [Address::generate(&e), Address::generate(&e), Address::generate(&e)];
        let manager = Address::generate(&e);
        let init: i128 = if seed == 0 { 5 } else { i128::MAX - 1 };
        let mut ledger = zero_ledger();
        let mut asset = None;
        let name = SString::from_str(&e, "n");
        let sym = SString::from_str(&e, "s");
        let c = match self.flavour {
            Flavour::Base => e.register(tokens::BaseTok, ()),
            Flavour::Votes => e.register(tokens::VotesTok, ()),
            Flavour::AllowList => e.register(allowlist_example::ExampleContract, (name, sym, u[0].clone(), manager.clone(), init)),
            Flavour::BlockList => e.register(blocklist_example::ExampleContract, (name, sym, u[0].clone(), manager.clone(), init)),
            Flavour::Rwa => {
                let comp = e.register(rwa_wrap::MockCompliance, ());
                let ver = e.register(rwa_wrap::MockVerifier, ());
                for k in 0..N {
                    call_mocked(&e, &ver, "set_verified", (u[k].clone(), true).into_val(&e)).expect("verify");
                    call_mocked(&e, &ver, "set_recovery", (u[k].clone(), Some(u[(k + 1) % N].clone())).into_val(&e)).expect("recovery target");
                }
                e.register(rwa_wrap::RwaTok, (comp, ver))
            }
            Flavour::Vault(off) => {
                let a = e.register(tokens::BaseTok, ());
                let v = e.register(vault_example::ExampleContract, (name, sym, a.clone(), off));
                asset = Some(a);
                v
            }
        };
        let mut inst = Inst { e, c, u, asset };
        // genesis events of the constructor (the examples mint the initial supply there)
        let genesis = self.fold_events(&inst, &mut ledger);
        let e = &inst.e;
        match self.flavour {
            Flavour::Base | Flavour::Votes | Flavour::Rwa => {
                if seed == 1 {
                    call_mocked(e, &inst.c, "mint", (inst.u[0].clone(), init).into_val(e)).expect("seed mint");
                    self.fold_events(&inst, &mut ledger).expect("seed events");
                }
            }
            Flavour::AllowList => {
                for k in 1..N {
                    call_mocked(e, &inst.c, "allow_user", (inst.u[k].clone(), manager.clone()).into_val(e)).expect("allow");
                }
            }
            Flavour::BlockList => {}
            Flavour::Vault(_) => {
                let a = inst.asset.clone().unwrap();
                let amt: i128 = if seed == 1 { 1i128 << 100 } else { 20 };
                for k in 0..N {
                    call_mocked(e, &a, "mint", (inst.u[k].clone(), amt).into_val(e)).expect("asset mint");
                }
                if seed == 1 {
                    // a large first deposit so that share amounts are huge
                    call_mocked(e, &inst.c, "deposit", (amt - 7, inst.u[0].clone(), inst.u[0].clone(), inst.u[0].clone()).into_val(e)).expect("seed deposit");
                    self.fold_events(&inst, &mut ledger).expect("seed events");
                }
                if seed == 2 {
                    // share price != 1 (donation) and share-holding operators with a long-lived allowance
                    for (k, d) in [(0usize, 10i128), (1, 5)] {
                        call_mocked(e, &inst.c, "deposit", (d, inst.u[k].clone(), inst.u[k].clone(), inst.u[k].clone()).into_val(e)).expect("seed deposit");
                        self.fold_events(&inst, &mut ledger).expect("seed events");
                    }
                    call_mocked(e, &a, "transfer", (inst.u[2].clone(), inst.c.clone(), 7i128).into_val(e)).expect("seed donation");
                    let six = if let Flavour::Vault(off) = self.flavour { 6 * 10i128.pow(off) } else { 6 };
                    for k in [1usize, 2] {
                        call_mocked(e, &inst.c, "approve", (inst.u[0].clone(), inst.u[k].clone(), six, 5000u32).into_val(e)).expect("seed approve");
                    }
                }
            }
        }
        let obs = self.observe(&inst).expect("observe seed");
        // If the constructor's events are not observable in the test host, start the event ledger
        // from the observed genesis balances of the constructor-minted supply only.
        if genesis.map(|g| g.is_empty()).unwrap_or(true) && matches!(self.flavour, Flavour::AllowList | Flavour::BlockList) {
            ledger[0] = BigInt::from(init);
        }
        let _ = &mut inst;
        (inst, Model { obs, ledger })
    }

    fn ops(&self, i: &Inst, m: &Model, _d: usize) -> Vec<Op> {
        let now = envx::now(&i.e);
        let o = &m.obs;
        let room = i128::MAX - o.supply;
        let mut v = vec![];
        let dedup = |mut xs: Vec<i128>| {
            let mut out: Vec<i128> = vec![];
            for x in xs.drain(..) {
                if !out.contains(&x) {
                    out.push(x);
                }
            }
            out
        };
        let vault = matches!(self.flavour, Flavour::Vault(_));
        v.push(Op::IdleProbe);
        if self.flavour != Flavour::Rwa {
            for from in 0..N {
                if o.bal[from] > 0 {
                    v.push(Op::ToTokenItselfProbe { from });
                    break;
                }
            }
        }
        if matches!(self.flavour, Flavour::Base | Flavour::Votes | Flavour::Rwa) {
            for to in 0..N {
                for a in dedup(vec![-1, 0, 1, 2, room, room.saturating_add(1), i128::MAX]) {
                    v.push(Op::Mint { to, a });
                }
            }
        }
        for from in 0..N {
            for to in 0..N {
                let mut am = vec![-1, 0, 1, 2, o.bal[from], o.bal[from].saturating_add(1), i128::MAX];
                if self.thorough {
                    am.push(o.bal[from] - 1);
                }
                for a in dedup(am) {
                    v.push(Op::Transfer { from, to, a });
                }
            }
        }
        for ow in 0..N {
            for s in 0..N {
                let am: Vec<i128> = if self.thorough { vec![-1, 0, 1, 2, 3, i128::MAX] } else { vec![-1, 0, 2, i128::MAX] };
                for a in am {
                    v.push(Op::Approve { o: ow, s, a, live: now + 2 });
                }
            }
        }
        for s in 0..N {
            for from in 0..N {
                let al = o.allow[from][s];
                for to in 0..N {
                    if !self.thorough && to == s && s != from {
                        continue;
                    }
                    for a in dedup(vec![-1, 0, 1, al, al.saturating_add(1), o.bal[from]]) {
                        v.push(Op::TransferFrom { s, from, to, a });
                    }
                }
                if !vault && self.flavour != Flavour::BlockList && self.flavour != Flavour::Rwa {
                    for a in dedup(vec![-1, 0, 1, al, al.saturating_add(1)]) {
                        v.push(Op::BurnFrom { s, from, a });
                    }
                }
            }
        }
        if !vault && self.flavour != Flavour::BlockList {
            for from in 0..N {
                for a in dedup(vec![-1, 0, 1, o.bal[from], o.bal[from].saturating_add(1), i128::MAX]) {
                    v.push(Op::Burn { from, a });
                }
            }
        }
        if self.flavour == Flavour::Rwa {
            for old in 0..N {
                v.push(Op::Recover { old, new: (old + 1) % N });
            }
            for from in 0..N {
                for to in 0..N {
                    for a in dedup(vec![-1, 0, 1, o.bal[from], o.bal[from].saturating_add(1)]) {
                        v.push(Op::Forced { from, to, a });
                    }
                }
            }
        }
        if vault {
            for who in 0..N {
                for recv in [who, (who + 1) % N] {
                    for a in dedup(vec![-1, 0, 1, 3, 10, i128::MAX]) {
                        v.push(Op::VDeposit { who, recv, a });
                        v.push(Op::VMint { who, recv, a });
                    }
                    for a in dedup(vec![-1, 0, 1, 3, o.bal[who], o.bal[who].saturating_add(1)]) {
                        v.push(Op::VRedeem { who, recv, a });
                        v.push(Op::VWithdraw { who, recv, a });
                    }
                }
                for a in [1i128, 7] {
                    v.push(Op::VDonate { who, a });
                }
            }
            for owner in 0..N {
                for op in 0..N {
                    let al = o.allow[owner][op];
                    if op == owner || al <= 0 {
                        continue;
                    }
                    for recv in [op, owner] {
                        for a in dedup(vec![1, 3, al, al.saturating_add(1)]) {
                            v.push(Op::VRedeemBy { op, owner, recv, a });
                            v.push(Op::VWithdrawBy { op, owner, recv, a });
                        }
                    }
                }
            }
        }
        v
    }

    fn kind(&self, op: &Op) -> String {
        match op {
            Op::Mint { .. } => "mint",
            Op::Transfer { .. } => "transfer",
            Op::Approve { .. } => "approve",
            Op::TransferFrom { .. } => "transfer_from",
            Op::Burn { .. } => "burn",
            Op::BurnFrom { .. } => "burn_from",
            Op::VDeposit { .. } => "vault.deposit",
            Op::VMint { .. } => "vault.mint",
            Op::VWithdraw { .. } => "vault.withdraw",
            Op::VRedeem { .. } => "vault.redeem",
            Op::VWithdrawBy { .. } => "vault.withdraw(operator)",
            Op::VRedeemBy { .. } => "vault.redeem(operator)",
            Op::VDonate { .. } => "vault.donation",
            Op::IdleProbe => "idle-probe",
            Op::ToTokenItselfProbe { .. } => "transfer-to-the-token-contract-itself",
            Op::Forced { .. } => "rwa.forced_transfer",
            Op::Recover { .. } => "rwa.recover_balance",
        }
        .to_string()
    }

    fn apply(&self, i: &mut Inst, op: &Op) {
        self.exec(i, op);
    }

    fn step(&self, i: &mut Inst, m: &mut Model, op: &Op, cx: &mut StepCtx<Self>) -> Result<bool, Violation> {
        if matches!(op, Op::IdleProbe) {
            let copy = cx.rebuild();
            envx::advance(&copy.e, 600_000);
            let o = self.observe(&copy)?;
            ensure!(
                o.bal == m.obs.bal && o.supply == m.obs.supply,
                "state-survives-idle",
                "600000 ledgers without any call changed balances or supply: before {:?} / {}, after {:?} / {}",
                m.obs.bal,
                m.obs.supply,
                o.bal,
                o.supply
            );
            cx.stats.count("idle-probes", 1);
            return Ok(false);
        }
        if let Op::ToTokenItselfProbe { from } = op {
            let copy = cx.rebuild();
            let e = &copy.e;
            let bal = |who: &Address| view(e, &copy.c, "balance", (who.clone(),).into_val(e)).map(|v| i128_of(e, v)).map_err(|x| Violation::new("getter", format!("balance: {x:?}")));
            let own0 = bal(&copy.c)?;
            let ok = call_mocked(e, &copy.c, "transfer", (copy.u[*from].clone(), copy.c.clone(), 1i128).into_val(e)).is_ok();
            if ok {
                let o = self.observe(&copy)?;
                let own1 = bal(&copy.c)?;
                ensure!(o.supply == m.obs.supply, "supply-delta", "a transfer of 1 from {} to the token contract's own address changed the supply {} -> {}", NAMES[*from], m.obs.supply, o.supply);
                ensure!(
                    o.bal[*from] == m.obs.bal[*from] - 1 && own1 == own0 + 1,
                    "exact-delta",
                    "a transfer of 1 from {} to the token contract's own address: sender {} -> {}, the contract's own balance {} -> {}",
                    NAMES[*from],
                    m.obs.bal[*from],
                    o.bal[*from],
                    own0,
                    own1
                );
                cx.stats.count("transfers to the token contract itself accepted", 1);
            }
            return Ok(false);
        }
        let pre = m.obs.clone();
        let ok = self.exec(i, op);
        // events must be read before any further (getter) invocation clears the buffer
        let raw = last_events(&i.e);
        if !ok {
            // the engine compares the complete storage digest with the pre-state (failure
            // atomicity over balances, allowances and supply); here: no event may survive
            let evs = self.fold(i, raw, &mut m.ledger.clone())?;
            ensure!(evs.is_empty(), "events-of-failed-call", "refused {:?} left events {:?}", op, evs);
            return Ok(false);
        }
        let post = self.observe(i)?;
        cx.stats.count("getter-comparisons", (1 + N + N * N) as u64);
        // --- invariants on the new state
        let sum: BigInt = post.bal.iter().map(|b| BigInt::from(*b)).sum();
        ensure!(sum == BigInt::from(post.supply), "supply=sum(balances)", "after {:?}: total_supply {} but balances {:?}", op, post.supply, post.bal);
        ensure!(post.bal.iter().all(|b| *b >= 0) && post.supply >= 0, "non-negative", "after {:?}: {:?}", op, post);
        // --- per-operation deltas
        let d = |k: usize| BigInt::from(post.bal[k]) - BigInt::from(pre.bal[k]);
        let dsupply = BigInt::from(post.supply) - BigInt::from(pre.supply);
        let mut expect = [BigInt::from(0), BigInt::from(0), BigInt::from(0)];
        let mut exp_supply = BigInt::from(0);
        let amount_of = |op: &Op| match op {
            Op::Mint { a, .. } | Op::Transfer { a, .. } | Op::Approve { a, .. } | Op::TransferFrom { a, .. } | Op::Burn { a, .. } | Op::BurnFrom { a, .. } => *a,
            Op::VDeposit { a, .. } | Op::VMint { a, .. } | Op::VWithdraw { a, .. } | Op::VRedeem { a, .. } | Op::Forced { a, .. } => *a,
            Op::VWithdrawBy { a, .. } | Op::VRedeemBy { a, .. } | Op::VDonate { a, .. } => *a,
            Op::IdleProbe | Op::ToTokenItselfProbe { .. } => 0,
            Op::Recover { .. } => 0,
        };
        ensure!(amount_of(op) >= 0, "negative-amount-accepted", "{:?} succeeded with a negative amount", op);
        let evs = self.fold(i, raw, &mut m.ledger)?;
        let mut vault_move: Option<(Option<usize>, Option<usize>)> = None;
        match op {
            Op::Mint { to, a } => {
                expect[*to] += *a;
                exp_supply += *a;
                ensure!(evs == vec![("mint".to_string(), None, Some(*to), *a)], "events", "mint emitted {:?}", evs);
            }
            Op::Transfer { from, to, a } | Op::TransferFrom { from, to, a, .. } | Op::Forced { from, to, a } => {
                expect[*from] -= *a;
                expect[*to] += *a;
                ensure!(evs == vec![("transfer".to_string(), Some(*from), Some(*to), *a)], "events", "{:?} emitted {:?}", op, evs);
            }
            Op::Burn { from, a } | Op::BurnFrom { from, a, .. } => {
                expect[*from] -= *a;
                exp_supply -= *a;
                ensure!(evs == vec![("burn".to_string(), Some(*from), None, *a)], "events", "{:?} emitted {:?}", op, evs);
            }
            Op::Approve { .. } => {
                ensure!(evs.is_empty(), "events", "approve emitted balance events {:?}", evs);
            }
            Op::Recover { old, new } => {
                // the whole balance moves; announced by exactly one transfer event (none if there was nothing to move)
                let b = pre.bal[*old];
                expect[*old] -= b;
                expect[*new] += b;
                let want = if b > 0 { vec![("transfer".to_string(), Some(*old), Some(*new), b)] } else { vec![] };
                ensure!(evs == want, "events", "{:?} (balance {}) emitted {:?}", op, b, evs);
            }
            Op::VDeposit { recv, .. } | Op::VMint { recv, .. } => vault_move = Some((None, Some(*recv))),
            Op::VWithdraw { who, .. } | Op::VRedeem { who, .. } => vault_move = Some((Some(*who), None)),
            Op::VWithdrawBy { owner, .. } | Op::VRedeemBy { owner, .. } => vault_move = Some((Some(*owner), None)),
            Op::VDonate { .. } => {
                ensure!(evs.is_empty(), "events", "a donation of assets made the vault emit share events {:?}", evs);
            }
            Op::IdleProbe | Op::ToTokenItselfProbe { .. } => unreachable!(),
        }
        if let Some((f, t)) = vault_move {
            // the share amount is decided by the vault (C05); here: exactly one deposit/withdraw
            // event, whose share amount is the supply change and the named party's change
            ensure!(evs.len() == 1, "events", "{:?} emitted {:?}", op, evs);
            let (name, ef, et, shares) = evs[0].clone();
            ensure!(shares >= 0, "events", "{:?} event with negative shares", op);
            ensure!(ef == f && et == t && name == if t.is_some() { "deposit" } else { "withdraw" }, "events", "{:?} emitted {:?}", op, evs);
            if let Some(t) = t {
                expect[t] += shares;
                exp_supply += shares;
            }
            if let Some(f) = f {
                expect[f] -= shares;
                exp_supply -= shares;
            }
            if matches!(op, Op::VMint { .. } | Op::VRedeem { .. } | Op::VRedeemBy { .. }) {
                ensure!(shares == amount_of(op), "exact-delta", "{:?} moved {} shares", op, shares);
            }
        }
        ensure!(dsupply == exp_supply, "supply-delta", "{:?}: supply changed by {} (expected {})", op, dsupply, exp_supply);
        for k in 0..N {
            ensure!(d(k) == expect[k], "exact-delta", "{:?}: balance of {} changed by {} (expected {})", op, NAMES[k], d(k), expect[k]);
        }
        // --- event-sourced ledger reproduces every balance
        for k in 0..N {
            ensure!(
                m.ledger[k] == BigInt::from(post.bal[k]),
                "event-replay",
                "after {:?}: replaying events gives {} for {}, balance() says {}",
                op,
                m.ledger[k],
                NAMES[k],
                post.bal[k]
            );
        }
        m.obs = post;
        Ok(true)
    }

    fn key(&self, i: &Inst) -> [u8; 32] {
        envx::storage_digest(&i.e, false)
    }

    fn model_digest(&self, m: &Model) -> u64 {
        vh::engine::dig(&m.obs)
    }
}

fn main() {
    main_with(
        "C01",
        "model_checking",
        "level-BFS over histories of mint/transfer/approve/transfer_from/burn/burn_from (vault: deposit/mint/withdraw/redeem + share transfers) on 3 accounts incl. from==to, amounts {-1,0,1,2,balance,balance+1,allowance,allowance+1,i128::MAX-supply(+1),i128::MAX}, seeds {small, supply=i128::MAX-1}, on the real Base / AllowList-example / BlockList-example / FungibleVotes / fungible-vault-example contracts; after every step: all balances, allowances, supply observed, exact deltas, supply=sum(balances) in big integers, event-sourced ledger = balances; non-trivial = distinct storage state reached through >=1 accepted call",
        |tier: Tier, r: &mut Runner| {
            let th = tier == Tier::Thorough;
            let (d, wall) = (tier.pick(3, 4), tier.pick(25, 500));
            for fl in [Flavour::Base, Flavour::AllowList, Flavour::BlockList, Flavour::Votes, Flavour::Rwa, Flavour::Vault(0), Flavour::Vault(3)] {
                // thorough: depth 4 (about 16 M transitions, 5 min) for the plain token only; the other
                // flavours share `Base::update` and run the thorough alphabet to depth 3
                let dd = match fl {
                    Flavour::Base => d,
                    Flavour::Vault(_) | Flavour::Rwa => d - 1,
                    _ => 3,
                };
                r.world(&Tok { flavour: fl, thorough: th }, &Bounds::new(dd, wall));
            }
            if let Some(rep) = r.report() {
                rep.require(
                    &["mint", "transfer", "approve", "transfer_from", "burn", "burn_from", "vault.deposit", "vault.mint", "vault.withdraw", "vault.redeem", "vault.withdraw(operator)", "vault.redeem(operator)", "vault.donation", "rwa.forced_transfer", "rwa.recover_balance"],
                    &["mint", "transfer", "approve", "transfer_from", "burn", "burn_from", "vault.deposit", "vault.withdraw", "vault.redeem", "vault.withdraw(operator)", "vault.redeem(operator)", "vault.donation"],
                );
                rep.require_counter(&["idle-probes", "transfers to the token contract itself accepted"]);
            }
        },
    );
}

#[allow(dead_code)]
fn _unused(_: &Inst) {
    let _ = auth::back;
}
