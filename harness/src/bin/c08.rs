//! C08 — a timelocked operation runs once, only after its delay and its predecessor.
//!
//! World: a thin wrapper (`shared/timelock_wrap.rs`) over the timelock building block of
//! /repo/packages/governance (no role checks: those are C09's subject) and a target contract that
//! counts its invocations per tag in its own storage. Operations:
//!   X  = bump(1), no predecessor, salt 0        X' = the same fields, salt 1
//!   Y  = bump(2), predecessor = id(X)           W  = bump(3), predecessor = id(Z)
//!   Z  = bump(4), no predecessor — never scheduled (only execute / cancel probes)
//!   F  = fail(5), no predecessor — the target function panics (second, small world only)
//! (An operation whose predecessor is its own id is not expressible: the id is a hash over the
//! predecessor field.)
//!
//! Reference model (written from the property text): id -> Unset | Scheduled(ready = ledger of
//! scheduling + delay, as an unbounded integer) | Done. Reported state = Waiting while
//! now < ready, Ready from then on. The model is a monitor for schedule / cancel / set_min_delay
//! (a refusal is always acceptable) and exact for state reporting and for execute.

use soroban_sdk::testutils::Address as _;
use soroban_sdk::{Address, BytesN, Env, IntoVal, Symbol, TryFromVal, Val, Vec as SVec};
use stellar_governance::timelock::OperationState;
use vh::auth::{call_mocked, view};
use vh::cli::{main_with, Runner};
use vh::engine::{Bounds, StepCtx, Violation, World};
use vh::ensure;
use vh::envx;
use vh::report::Tier;

#[path = "../shared/timelock_wrap.rs"]
mod timelock_wrap;

/// Operation ids of the universe. The first `NSCHED` can be scheduled.
#[derive(Clone, Copy, Debug, PartialEq, Eq, PartialOrd, Ord, Hash)]
enum Id {
    X,
    Xp,
    Y,
    W,
    Z,
    F,
}
const ALL: [Id; 6] = [Id::X, Id::Xp, Id::Y, Id::W, Id::Z, Id::F];
const NOPS: usize = 6;
/// observed ids: the six operations and the all-zero id ("no predecessor")
const NOBS: usize = 7;
const NTAGS: usize = 5;

impl Id {
    fn k(self) -> usize {
        self as usize
    }
    fn tag(self) -> u32 {
        match self {
            Id::X | Id::Xp => 1,
            Id::Y => 2,
            Id::W => 3,
            Id::Z => 4,
            Id::F => 5,
        }
    }
    fn function(self) -> &'static str {
        match self {
            Id::F => "fail",
            _ => "bump",
        }
    }
    fn pred(self) -> Option<Id> {
        match self {
            Id::Y => Some(Id::X),
            Id::W => Some(Id::Z),
            _ => None,
        }
    }
    fn salt(self) -> u8 {
        match self {
            Id::Xp => 1,
            _ => 0,
        }
    }
}

#[derive(Clone, Debug, PartialEq, Eq)]
enum Op {
    Schedule(Id, u32),
    Execute(Id),
    /// `set_execute_operation`: mark executed without invoking the target
    MarkExecuted(Id),
    Cancel(Id),
    SetMinDelay(u32),
    Advance(u32),
}

const LONG_IDLE: u32 = 600_000;

#[derive(Clone, Copy, Debug, PartialEq, Eq, Hash)]
enum St {
    Unset,
    /// scheduled and neither cancelled nor executed since; `ready` = scheduling ledger + delay
    Sched { ready: u64 },
    Done,
}

#[derive(Clone, Copy, Debug, PartialEq, Eq, Hash)]
enum RState {
    Unset,
    Waiting,
    Ready,
    Done,
}

#[derive(Clone, Debug)]
struct Model {
    /// ids as computed by the instance the seed was built in (ids must not depend on the build)
    ids: [[u8; 32]; NOPS],
    st: [St; NOPS],
    min: u32,
    /// invocations of the target per tag 1..=4
    calls: [u32; NTAGS],
}

/// What every getter has to report for one id.
#[derive(Clone, Copy, Debug, PartialEq, Eq, Hash)]
struct Expect {
    state: RState,
    ledger: u32,
    exists: bool,
    pending: bool,
    ready: bool,
    done: bool,
}

impl Model {
    fn reported(&self, k: usize, now: u64) -> RState {
        match self.st[k] {
            St::Unset => RState::Unset,
            St::Done => RState::Done,
            // the scheduled delay has fully elapsed once `delay` ledgers have passed
            St::Sched { ready } => {
                if now >= ready {
                    RState::Ready
                } else {
                    RState::Waiting
                }
            }
        }
    }
    fn expect(&self, k: usize, now: u64) -> Expect {
        let s = self.reported(k, now);
        let ledger = match self.st[k] {
            St::Unset => 0,
            St::Done => 1,
            St::Sched { ready } => ready.min(u32::MAX as u64) as u32,
        };
        Expect {
            state: s,
            ledger,
            exists: s != RState::Unset,
            pending: s == RState::Waiting || s == RState::Ready,
            ready: s == RState::Ready,
            done: s == RState::Done,
        }
    }
}

struct Tl {
    start: u32,
    /// small universe {X, F} with a richer alphabet instead of {X, X', Y, W, Z}
    small: bool,
}

struct Inst {
    e: Env,
    c: Address,
    t: Address,
    t2: Address,
    ids: Vec<BytesN<32>>,
}

type Fields = (Address, Symbol, SVec<Val>, BytesN<32>, BytesN<32>);

fn viol(oracle: &str, d: String) -> Violation {
    Violation::new(oracle, d)
}

impl Inst {
    fn zero(&self) -> BytesN<32> {
        BytesN::from_array(&self.e, &[0u8; 32])
    }
    fn hash(&self, f: &Fields) -> Result<BytesN<32>, Violation> {
        let v = view(&self.e, &self.c, "hash_operation", f.clone().into_val(&self.e)).map_err(|x| viol("getter", format!("hash_operation: {x:?}")))?;
        BytesN::<32>::try_from_val(&self.e, &v).map_err(|_| viol("getter", "hash_operation: decode".into()))
    }
    /// The five fields of operation `id` (predecessor ids must already be known).
    fn fields(&self, id: Id) -> Fields {
        let e = &self.e;
        let pred = match id.pred() {
            None => self.zero(),
            Some(p) => self.ids[p.k()].clone(),
        };
        let mut salt = [0u8; 32];
        salt[31] = id.salt();
        (self.t.clone(), Symbol::new(e, id.function()), (id.tag(),).into_val(e), pred, BytesN::from_array(e, &salt))
    }
    fn obs_id(&self, k: usize) -> BytesN<32> {
        if k < NOPS {
            self.ids[k].clone()
        } else {
            self.zero()
        }
    }
}

const OBS_NAMES: [&str; NOBS] = ["X", "X'", "Y", "W", "Z", "F", "zero-id"];

impl Tl {
    fn exec(&self, i: &Inst, op: &Op) -> Result<Val, ()> {
        let e = &i.e;
        let r = match op {
            Op::Schedule(id, delay) => {
                let (t, f, a, p, s) = i.fields(*id);
                call_mocked(e, &i.c, "schedule", (t, f, a, p, s, *delay).into_val(e))
            }
            Op::Execute(id) => call_mocked(e, &i.c, "execute", i.fields(*id).into_val(e)),
            Op::MarkExecuted(id) => call_mocked(e, &i.c, "mark_executed", i.fields(*id).into_val(e)),
            Op::Cancel(id) => call_mocked(e, &i.c, "cancel", (i.ids[id.k()].clone(),).into_val(e)),
            Op::SetMinDelay(d) => call_mocked(e, &i.c, "set_min_delay", (*d,).into_val(e)),
            Op::Advance(k) => {
                envx::advance(e, *k);
                Ok(().into_val(e))
            }
        };
        if std::env::var("VH_DEBUG").is_ok() {
            eprintln!("{op:?} -> {:?}", r.as_ref().map(|_| ()));
        }
        r.map_err(|_| ())
    }

    /// Every getter for every id, the minimum delay, the target's counters, the ids again.
    fn observe_check(&self, i: &Inst, m: &Model, when: &str, cx: &mut StepCtx<Self>) -> Result<(), Violation> {
        let e = &i.e;
        let now = envx::now(e) as u64;
        let get = |f: &str, args: SVec<Val>| -> Result<Val, Violation> { view(e, &i.c, f, args).map_err(|x| viol("getter", format!("{f} {when}: {x:?}"))) };
        let b = |f: &str, id: &BytesN<32>| -> Result<bool, Violation> {
            let v = get(f, (id.clone(),).into_val(e))?;
            bool::try_from_val(e, &v).map_err(|_| viol("getter", format!("{f}: decode")))
        };
        for k in 0..NOBS {
            let id = i.obs_id(k);
            let want = if k < NOPS {
                m.expect(k, now)
            } else {
                Expect { state: RState::Unset, ledger: 0, exists: false, pending: false, ready: false, done: false }
            };
            let sv = get("get_operation_state", (id.clone(),).into_val(e))?;
            let state = match OperationState::try_from_val(e, &sv).map_err(|_| viol("getter", "get_operation_state: decode".into()))? {
                OperationState::Unset => RState::Unset,
                OperationState::Waiting => RState::Waiting,
                OperationState::Ready => RState::Ready,
                OperationState::Done => RState::Done,
            };
            let lv = get("get_operation_ledger", (id.clone(),).into_val(e))?;
            let ledger = u32::try_from_val(e, &lv).map_err(|_| viol("getter", "get_operation_ledger: decode".into()))?;
            let got = Expect {
                state,
                ledger,
                exists: b("operation_exists", &id)?,
                pending: b("is_operation_pending", &id)?,
                ready: b("is_operation_ready", &id)?,
                done: b("is_operation_done", &id)?,
            };
            ensure!(
                got.state == want.state,
                "reported-state",
                "{when}, ledger {now}: get_operation_state({}) = {:?}, model {:?} says {:?}",
                OBS_NAMES[k],
                state,
                if k < NOPS { m.st[k] } else { St::Unset },
                want
            );
            ensure!(got == want, "state-getters", "{when}, ledger {now}: getters of {} report {:?}, model expects {:?}", OBS_NAMES[k], got, want);
        }
        let mv = get("get_min_delay", SVec::new(e))?;
        let min = u32::try_from_val(e, &mv).map_err(|_| viol("getter", "get_min_delay: decode".into()))?;
        ensure!(min == m.min, "min-delay-getter", "{when}: get_min_delay = {min}, model {}", m.min);
        for tag in 1..=NTAGS as u32 {
            let v = view(e, &i.t, "count", (tag,).into_val(e)).map_err(|x| viol("getter", format!("count: {x:?}")))?;
            let n = u32::try_from_val(e, &v).map_err(|_| viol("getter", "count: decode".into()))?;
            ensure!(
                n == m.calls[tag as usize - 1],
                "target-invocations",
                "{when}: target was invoked {n} times with tag {tag}, but {} executions of such operations succeeded",
                m.calls[tag as usize - 1]
            );
        }
        // the id of an operation is a function of its five fields only (not of ledger or state)
        for id in ALL {
            let h = i.hash(&i.fields(id))?;
            ensure!(h.to_array() == m.ids[id.k()], "id-deterministic", "{when}: hash_operation({:?}) changed: {} vs {}", id, hex::encode(h.to_array()), hex::encode(m.ids[id.k()]));
        }
        cx.stats.count("getter-comparisons", (NOBS * 6 + 1 + NTAGS + NOPS) as u64);
        Ok(())
    }

    /// Ids are pairwise distinct for operations that differ in at least one field.
    fn injectivity(&self, i: &Inst, cx: &mut StepCtx<Self>) -> Result<(), Violation> {
        let e = &i.e;
        let x = i.fields(Id::X);
        let mut salt2 = [0u8; 32];
        salt2[0] = 1;
        let mut pred1 = [0u8; 32];
        pred1[31] = 1;
        let mut variants: Vec<(String, Fields)> = ALL.iter().map(|id| (format!("{id:?}"), i.fields(*id))).collect();
        variants.push(("X with other target".into(), (i.t2.clone(), x.1.clone(), x.2.clone(), x.3.clone(), x.4.clone())));
        variants.push(("X with function count".into(), (x.0.clone(), Symbol::new(e, "count"), x.2.clone(), x.3.clone(), x.4.clone())));
        variants.push(("X with args (5)".into(), (x.0.clone(), x.1.clone(), (5u32,).into_val(e), x.3.clone(), x.4.clone())));
        variants.push(("X with args (1,1)".into(), (x.0.clone(), x.1.clone(), (1u32, 1u32).into_val(e), x.3.clone(), x.4.clone())));
        variants.push(("X with args ()".into(), (x.0.clone(), x.1.clone(), SVec::new(e), x.3.clone(), x.4.clone())));
        variants.push(("X with predecessor 0..01".into(), (x.0.clone(), x.1.clone(), x.2.clone(), BytesN::from_array(e, &pred1), x.4.clone())));
        variants.push(("X with predecessor id(Y)".into(), (x.0.clone(), x.1.clone(), x.2.clone(), i.ids[Id::Y.k()].clone(), x.4.clone())));
        variants.push(("X with salt 10..0".into(), (x.0.clone(), x.1.clone(), x.2.clone(), x.3.clone(), BytesN::from_array(e, &salt2))));
        // predecessor and salt swapped (both are raw 32-byte strings in the preimage)
        variants.push(("X with predecessor 0..01 and salt swapped".into(), (x.0.clone(), x.1.clone(), x.2.clone(), BytesN::from_array(e, &salt2), BytesN::from_array(e, &pred1))));
        variants.push(("X with predecessor 10..0, salt 0".into(), (x.0.clone(), x.1.clone(), x.2.clone(), BytesN::from_array(e, &salt2), x.4.clone())));
        let mut hs: Vec<[u8; 32]> = vec![];
        for (_, f) in &variants {
            hs.push(i.hash(f)?.to_array());
        }
        for a in 0..hs.len() {
            ensure!(hs[a] != [0u8; 32], "id-distinct", "operation {} has the all-zero id (the no-predecessor marker)", variants[a].0);
            for b2 in a + 1..hs.len() {
                ensure!(hs[a] != hs[b2], "id-distinct", "operations {} and {} share the id {}", variants[a].0, variants[b2].0, hex::encode(hs[a]));
            }
        }
        cx.stats.count("id-pairs-compared", (hs.len() * (hs.len() - 1) / 2) as u64);
        Ok(())
    }
}

impl World for Tl {
    type Op = Op;
    type Model = Model;
    type Inst = Inst;

    fn name(&self) -> String {
        format!("timelock{}@{}", if self.small { "-failing-target" } else { "" }, self.start)
    }
    fn seeds(&self) -> usize {
        2
    }
    fn seed_name(&self, s: usize) -> String {
        ["min_delay=2", "min_delay=0"][s].to_string()
    }

    fn fresh(&self, seed: usize) -> (Inst, Model) {
        let e = envx::mk_env(self.start);
        let min: u32 = if seed == 0 { 2 } else { 0 };
        let t = e.register(timelock_wrap::Counter, ());
        let t2 = e.register(timelock_wrap::Counter, ());
        let c = e.register(timelock_wrap::TimelockWrap, (min,));
        let _ = Address::generate(&e);
        let mut inst = Inst { e, c, t, t2, ids: vec![] };
        // X, X', then Y (needs id(X)); Z before W (W needs id(Z)); stored in the order of `ALL`
        let zero = inst.zero();
        inst.ids = vec![zero.clone(), zero.clone(), zero.clone(), zero.clone(), zero.clone(), zero];
        for id in [Id::X, Id::Xp, Id::Y, Id::Z, Id::W, Id::F] {
            let h = inst.hash(&inst.fields(id)).expect("hash_operation");
            inst.ids[id.k()] = h;
        }
        let mut ids = [[0u8; 32]; NOPS];
        for k in 0..NOPS {
            ids[k] = inst.ids[k].to_array();
        }
        (inst, Model { ids, st: [St::Unset; NOPS], min, calls: [0; NTAGS] })
    }

    fn ops(&self, _i: &Inst, m: &Model, _d: usize) -> Vec<Op> {
        let (sched, probe): (&[Id], &[Id]) =
            if self.small { (&[Id::X, Id::F], &[Id::X, Id::F]) } else { (&[Id::X, Id::Xp, Id::Y, Id::W], &[Id::X, Id::Xp, Id::Y, Id::W, Id::Z]) };
        let mut cand = vec![Some(0u32), m.min.checked_sub(1), Some(m.min), m.min.checked_add(1), Some(u32::MAX)];
        if self.small {
            cand.extend([m.min.checked_add(2), Some(u32::MAX - 1)]);
        }
        let mut delays: Vec<u32> = vec![];
        for d in cand.into_iter().flatten() {
            if !delays.contains(&d) {
                delays.push(d);
            }
        }
        let mut v = vec![];
        for id in sched {
            for d in &delays {
                v.push(Op::Schedule(*id, *d));
            }
        }
        for id in probe {
            v.push(Op::Execute(*id));
            if self.small || matches!(id, Id::X | Id::Y) {
                v.push(Op::MarkExecuted(*id));
            }
        }
        for id in probe {
            v.push(Op::Cancel(*id));
        }
        v.push(Op::SetMinDelay(0));
        v.push(Op::SetMinDelay(2));
        if self.small {
            v.push(Op::SetMinDelay(u32::MAX));
        }
        v.push(Op::Advance(1));
        v.push(Op::Advance(2));
        if self.small {
            v.push(Op::Advance(3));
            // one long idle period (beyond the lifetime of any temporary entry and of the library's
            // TTL extension): Done must stay Done, Unset stay Unset, a scheduled operation stay scheduled
            if envx::now(&_i.e) < self.start + LONG_IDLE {
                v.push(Op::Advance(LONG_IDLE));
            }
        }
        v
    }

    fn kind(&self, op: &Op) -> String {
        match op {
            Op::Schedule(..) => "schedule",
            Op::Execute(_) => "execute",
            Op::MarkExecuted(_) => "set_execute_operation",
            Op::Cancel(_) => "cancel",
            Op::SetMinDelay(_) => "set_min_delay",
            Op::Advance(_) => "advance",
        }
        .to_string()
    }

    fn apply(&self, i: &mut Inst, op: &Op) {
        let _ = self.exec(i, op);
    }

    fn atomic_on_refusal(&self, op: &Op) -> bool {
        !matches!(op, Op::Advance(_))
    }

    fn step(&self, i: &mut Inst, m: &mut Model, op: &Op, cx: &mut StepCtx<Self>) -> Result<bool, Violation> {
        // ids must not depend on the environment instance they were computed in
        for id in ALL {
            ensure!(
                i.ids[id.k()].to_array() == m.ids[id.k()],
                "id-deterministic",
                "id of {:?} differs between two builds of the same world: {} vs {}",
                id,
                hex::encode(i.ids[id.k()].to_array()),
                hex::encode(m.ids[id.k()])
            );
        }
        if cx.hist.is_empty() {
            self.observe_check(i, m, "in the seed state", cx)?;
            self.injectivity(i, cx)?;
        }
        let now = envx::now(&i.e) as u64;
        let res = self.exec(i, op);
        let ok = res.is_ok();
        match op {
            Op::Schedule(id, delay) => {
                let k = id.k();
                let before = m.reported(k, now);
                if ok {
                    ensure!(before != RState::Done, "done-is-absorbing", "schedule({:?}, {}) succeeded although the operation is Done", id, delay);
                    ensure!(before == RState::Unset, "reschedule-pending", "schedule({:?}, {}) succeeded although the operation is {:?} ({:?})", id, delay, before, m.st[k]);
                    ensure!(*delay >= m.min, "min-delay", "schedule({:?}, delay {}) succeeded while the minimum delay in force is {}", id, delay, m.min);
                    let v = res.unwrap();
                    let rid = BytesN::<32>::try_from_val(&i.e, &v).map_err(|_| viol("schedule-id", "schedule did not return an id".into()))?;
                    ensure!(rid.to_array() == m.ids[k], "schedule-id", "schedule({:?}) returned id {} but hash_operation gives {}", id, hex::encode(rid.to_array()), hex::encode(m.ids[k]));
                    m.st[k] = St::Sched { ready: now + *delay as u64 };
                    cx.stats.count(if now + *delay as u64 > u32::MAX as u64 { "schedule ok, ready ledger saturated" } else if *delay == 0 { "schedule ok, delay 0" } else { "schedule ok, other delay" }, 1);
                } else {
                    let why = match before {
                        RState::Done => "schedule refused: Done",
                        RState::Waiting | RState::Ready => "schedule refused: pending",
                        RState::Unset if *delay < m.min => "schedule refused: delay < min",
                        RState::Unset => "schedule refused: OTHER (valid schedule)",
                    };
                    cx.stats.count(why, 1);
                }
            }
            Op::Execute(id) | Op::MarkExecuted(id) => {
                let invoke = matches!(op, Op::Execute(_));
                let k = id.k();
                let before = m.reported(k, now);
                let pred_done = match id.pred() {
                    None => true,
                    Some(p) => m.reported(p.k(), now) == RState::Done,
                };
                // the target function of F panics: such an execution can never complete
                let runnable = *id != Id::F || !invoke;
                if ok {
                    ensure!(runnable, "failed-target-call", "execute({:?}) reported success although the target call fails", id);
                    ensure!(before != RState::Done, "done-is-absorbing", "execute({:?}) succeeded although the operation had been executed before", id);
                    ensure!(
                        before == RState::Ready,
                        "execute-not-ready",
                        "execute({:?}) succeeded at ledger {} although the operation is {:?} ({:?})",
                        id,
                        now,
                        before,
                        m.st[k]
                    );
                    ensure!(pred_done, "execute-predecessor", "execute({:?}) succeeded although its predecessor {:?} is {:?}", id, id.pred(), id.pred().map(|p| m.reported(p.k(), now)));
                    m.st[k] = St::Done;
                    if invoke {
                        m.calls[id.tag() as usize - 1] += 1;
                    }
                    cx.stats.count(if id.pred().is_some() { "execute ok, predecessor Done" } else { "execute ok, no predecessor" }, 1);
                } else {
                    ensure!(
                        !(before == RState::Ready && pred_done && runnable),
                        "ready-is-executable",
                        "execute({:?}) was refused at ledger {} although the operation is Ready ({:?}) and its predecessor {:?} is satisfied",
                        id,
                        now,
                        m.st[k],
                        id.pred()
                    );
                    let why = match before {
                        RState::Unset => "execute refused: Unset",
                        RState::Waiting => "execute refused: Waiting",
                        RState::Done => "execute refused: Done",
                        RState::Ready => match id.pred().map(|p| m.reported(p.k(), now)) {
                            Some(RState::Unset) => "execute refused: Ready, predecessor Unset",
                            Some(RState::Waiting) => "execute refused: Ready, predecessor Waiting",
                            Some(RState::Ready) => "execute refused: Ready, predecessor Ready",
                            _ => "execute refused: Ready, target call fails",
                        },
                    };
                    cx.stats.count(why, 1);
                }
            }
            Op::Cancel(id) => {
                let k = id.k();
                let before = m.reported(k, now);
                if ok {
                    ensure!(before != RState::Done, "done-is-absorbing", "cancel({:?}) succeeded although the operation is Done", id);
                    ensure!(before == RState::Waiting || before == RState::Ready, "cancel-not-pending", "cancel({:?}) succeeded although the operation is {:?}", id, before);
                    m.st[k] = St::Unset;
                    cx.stats.count(if before == RState::Ready { "cancel ok: Ready" } else { "cancel ok: Waiting" }, 1);
                } else {
                    ensure!(
                        !(before == RState::Waiting || before == RState::Ready),
                        "pending-is-cancellable",
                        "cancel({:?}) was refused at ledger {} although the operation is {:?} ({:?}): a pending operation goes back to Unset by cancelling",
                        id,
                        now,
                        before,
                        m.st[k]
                    );
                    let why = match before {
                        RState::Unset => "cancel refused: Unset",
                        RState::Done => "cancel refused: Done",
                        _ => "cancel refused: OTHER (pending)",
                    };
                    cx.stats.count(why, 1);
                }
            }
            Op::SetMinDelay(d) => {
                if ok {
                    m.min = *d;
                }
            }
            Op::Advance(_) => {}
        }
        if ok {
            // a refused call is covered by the engine's storage-digest comparison (all getters
            // are functions of storage and ledger, and this state was observed when first reached)
            self.observe_check(i, m, &format!("after {op:?}"), cx)?;
        }
        Ok(ok)
    }

    fn key(&self, i: &Inst) -> [u8; 32] {
        envx::storage_digest(&i.e, true)
    }

    fn model_digest(&self, m: &Model) -> u64 {
        // observable part of the model: stored ready ledgers (saturated), min delay, call counts
        let obs: Vec<u32> = (0..NOPS).map(|k| m.expect(k, 0).ledger).collect();
        vh::engine::dig(&(obs, m.min, m.calls))
    }
}

fn main() {
    main_with(
        "C08",
        "model_checking",
        "level-BFS over histories of schedule(op, delay in {0, min-1, min, min+1, u32::MAX}) / execute(op) / cancel(op) / set_min_delay in {0,2} / advance(1|2) on a thin wrapper over the real timelock library plus a call-counting target; operations X (no predecessor), X' (other salt), Y (predecessor X), W (predecessor = never-scheduled Z), Z (never scheduled; execute/cancel probes); start ledgers 2 and 100, initial minimum delay 2 and 0; plus a small world {X, F = operation whose target call panics} with delays additionally {min+2, u32::MAX-1}, set_min_delay additionally u32::MAX, advance(3); after every accepted step: get_operation_state/get_operation_ledger/operation_exists/is_operation_pending/ready/done of 6 ids, get_min_delay, target counters and hash_operation of all operations compared with the reference model; states merged by canonical storage digest + ledger; non-trivial = distinct state reached through >=1 accepted call or ledger advance",
        |tier: Tier, r: &mut Runner| {
            let depth = tier.pick(5, 7);
            let wall = tier.pick(18, 275);
            for start in [2u32, 100] {
                r.world(&Tl { start, small: false }, &Bounds::new(depth, wall));
            }
            // universe {X, F = failing target call}, richer delays / min delays / advances
            r.world(&Tl { start: 100, small: true }, &Bounds::new(tier.pick(5, 7), tier.pick(6, 40)));
            if let Some(rep) = r.report() {
                rep.require(&["schedule", "execute", "cancel", "set_min_delay", "advance"], &["schedule", "execute", "cancel"]);
                rep.require_counter(&[
                    "schedule ok, ready ledger saturated",
                    "schedule ok, delay 0",
                    "schedule ok, other delay",
                    "schedule refused: Done",
                    "schedule refused: pending",
                    "schedule refused: delay < min",
                    "execute ok, no predecessor",
                    "execute ok, predecessor Done",
                    "execute refused: Unset",
                    "execute refused: Waiting",
                    "execute refused: Done",
                    "execute refused: Ready, predecessor Unset",
                    "execute refused: Ready, predecessor Waiting",
                    "execute refused: Ready, predecessor Ready",
                    "execute refused: Ready, target call fails",
                    "cancel ok: Ready",
                    "cancel ok: Waiting",
                    "cancel refused: Unset",
                    "cancel refused: Done",
                    "id-pairs-compared",
                ]);
            }
        },
    );
}
