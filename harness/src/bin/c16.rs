//! C16 — pause, allow/block lists, supply cap and migration flags cannot be bypassed.
//!
//! Worlds (all calls under ENFORCING authorization, signed by the account the entry point names):
//! * gated tokens: `fungible-pausable`, `fungible-allowlist`, `fungible-blocklist` examples and the
//!   wrapper tokens wiring `AllowList::burn*` / `BlockList::burn*`;
//! * the `pausable` example (when_not_paused / when_paused entry points);
//! * `fungible-capped` example with caps 0, 5, i128::MAX;
//! * contracts deriving `Upgradeable` / `UpgradeableMigratable` from the working tree's macros.

use soroban_sdk::testutils::Address as _;
use soroban_sdk::{Address, Bytes, BytesN, Env, IntoVal, String as SString, TryFromVal, Val, Vec as SVec};
use vh::auth::{self, call_mocked, call_signed, view};
use vh::cli::{main_with, Runner};
use vh::engine::{Bounds, StepCtx, Violation, World};
use vh::ensure;
use vh::envx;
use vh::report::Tier;

#[path = "../shared/c16_wrap.rs"]
mod wrap;
#[path = "/repo/examples/fungible-pausable/src/contract.rs"]
mod pausable_token_example;
#[path = "/repo/examples/fungible-allowlist/src/contract.rs"]
mod allowlist_example;
#[path = "/repo/examples/fungible-blocklist/src/contract.rs"]
mod blocklist_example;
#[path = "/repo/examples/pausable/src/contract.rs"]
mod pausable_example;
#[path = "/repo/examples/fungible-capped/src/contract.rs"]
mod capped_example;

// ---------------------------------------------------------------------------------------------
// gated tokens

const N: usize = 4; // A (owner/admin), B, S (spender), M (manager)
const NAMES: [&str; N] = ["A", "B", "S", "M"];
const STRANGER: usize = 99;

#[derive(Clone, Copy, Debug, PartialEq, Eq)]
enum Kind {
    PauseExample,
    AllowExample,
    BlockExample,
    AllowWrap,
    BlockWrap,
}

#[derive(Clone, Debug, PartialEq, Eq)]
enum GOp {
    Transfer { from: usize, to: usize },
    TransferFrom { from: usize, to: usize },
    Approve { o: usize, a: i128 },
    Burn { from: usize },
    BurnFrom { from: usize },
    Mint { to: usize },
    Pause { by: usize },
    Unpause { by: usize },
    /// allow (AllowList) / block (BlockList) when `on`, disallow / unblock otherwise
    SetList { user: usize, on: bool, by: usize },
    /// probe on a rebuilt copy: 600000 ledgers pass without a call; pause flag, list membership and
    /// balances must read the same
    IdleProbe,
}

#[derive(Clone, Debug, PartialEq, Eq, Hash)]
struct GState {
    bal: [i128; N],
    allow: [i128; N], // allowance(x -> S)
    paused: bool,
    listed: [bool; N],
}

struct Gated {
    kind: Kind,
}

struct GInst {
    e: Env,
    c: Address,
    u: [Address; N],
    stranger: Address,
}

impl GInst {
    fn a(&self, k: usize) -> Address {
        if k == STRANGER {
            self.stranger.clone()
        } else {
            self.u[k].clone()
        }
    }
}

impl Gated {
    fn is_allow(&self) -> bool {
        matches!(self.kind, Kind::AllowExample | Kind::AllowWrap)
    }
    fn is_list(&self) -> bool {
        self.kind != Kind::PauseExample
    }
    fn call(&self, i: &GInst, op: &GOp) -> Option<(&'static str, SVec<Val>, Address)> {
        let e = &i.e;
        let s = i.a(2);
        Some(match op {
            GOp::Transfer { from, to } => ("transfer", (i.a(*from), i.a(*to), 1i128).into_val(e), i.a(*from)),
            GOp::TransferFrom { from, to } => ("transfer_from", (s.clone(), i.a(*from), i.a(*to), 1i128).into_val(e), s),
            GOp::Approve { o, a } => ("approve", (i.a(*o), s.clone(), *a, 5000u32).into_val(e), i.a(*o)),
            GOp::Burn { from } => {
                if self.kind == Kind::BlockExample {
                    return None;
                }
                ("burn", (i.a(*from), 1i128).into_val(e), i.a(*from))
            }
            GOp::BurnFrom { from } => {
                if self.kind == Kind::BlockExample {
                    return None;
                }
                ("burn_from", (s.clone(), i.a(*from), 1i128).into_val(e), s)
            }
            GOp::Mint { to } => match self.kind {
                Kind::PauseExample => ("mint", (i.a(*to), 1i128).into_val(e), i.a(0)),
                Kind::AllowWrap | Kind::BlockWrap => ("mint", (i.a(*to), 1i128).into_val(e), i.a(0)),
                _ => return None,
            },
            GOp::Pause { by } => {
                if self.kind != Kind::PauseExample {
                    return None;
                }
                ("pause", (i.a(*by),).into_val(e), i.a(*by))
            }
            GOp::Unpause { by } => {
                if self.kind != Kind::PauseExample {
                    return None;
                }
                ("unpause", (i.a(*by),).into_val(e), i.a(*by))
            }
            GOp::SetList { user, on, by } => {
                if !self.is_list() {
                    return None;
                }
                let f = match (self.is_allow(), *on) {
                    (true, true) => "allow_user",
                    (true, false) => "disallow_user",
                    (false, true) => "block_user",
                    (false, false) => "unblock_user",
                };
                (f, (i.a(*user), i.a(*by)).into_val(e), i.a(*by))
            }
            GOp::IdleProbe => return None,
        })
    }
    fn exec(&self, i: &GInst, op: &GOp) -> bool {
        if matches!(op, GOp::IdleProbe) {
            return false;
        }
        let (f, args, signer) = self.call(i, op).expect("op unavailable");
        call_signed(&i.e, &i.c, f, args, &[signer]).is_ok()
    }
    fn observe(&self, i: &GInst) -> Result<GState, Violation> {
        let e = &i.e;
        let g = |f: &str, args: SVec<Val>| view(e, &i.c, f, args).map_err(|x| Violation::new("getter", format!("{f}: {x:?}")));
        let mut s = GState { bal: [0; N], allow: [0; N], paused: false, listed: [false; N] };
        for k in 0..N {
            s.bal[k] = i128::try_from_val(e, &g("balance", (i.a(k),).into_val(e))?).unwrap();
            s.allow[k] = i128::try_from_val(e, &g("allowance", (i.a(k), i.a(2)).into_val(e))?).unwrap();
            if self.is_list() {
                let f = if self.is_allow() { "allowed" } else { "blocked" };
                s.listed[k] = bool::try_from_val(e, &g(f, (i.a(k),).into_val(e))?).unwrap();
            }
        }
        if self.kind == Kind::PauseExample {
            s.paused = bool::try_from_val(e, &g("paused", SVec::new(e))?).unwrap();
        }
        Ok(s)
    }
    /// may this party take part? (allowed on an allow-list, not blocked on a block-list)
    fn passes(&self, s: &GState, k: usize) -> bool {
        if !self.is_list() {
            true
        } else if self.is_allow() {
            s.listed[k]
        } else {
            !s.listed[k]
        }
    }
}

impl World for Gated {
    type Op = GOp;
    type Model = GState;
    type Inst = GInst;

    fn name(&self) -> String {
        format!("gated-token-{:?}", self.kind)
    }

    fn fresh(&self, _seed: usize) -> (GInst, GState) {
        let e = envx::mk_env(100);
        let u = [Address::generate(&e), Address::generate(&e), Address::generate(&e), Address::generate(&e)];
        let stranger = Address::generate(&e);
        for x in u.iter().chain([&stranger]) {
            auth::back(&e, x);
        }
        let n = SString::from_str(&e, "n");
        let sy = SString::from_str(&e, "s");
        let (a, m) = (u[0].clone(), u[3].clone());
        let c = match self.kind {
            Kind::PauseExample => e.register(pausable_token_example::ExampleContract, (n, sy, a.clone(), 8i128)),
            Kind::AllowExample => e.register(allowlist_example::ExampleContract, (n, sy, a.clone(), m.clone(), 8i128)),
            Kind::BlockExample => e.register(blocklist_example::ExampleContract, (n, sy, a.clone(), m.clone(), 8i128)),
            Kind::AllowWrap => e.register(wrap::lists::AllowTok, ()),
            Kind::BlockWrap => e.register(wrap::lists::BlockTok, ()),
        };
        let i = GInst { e, c, u, stranger };
        let e = &i.e;
        if self.is_allow() {
            for k in 0..3 {
                // only accounts not on the list yet (the example's constructor lists the initial holder):
                // redundant list changes are operations of the alphabet, not of the seed
                let on = view(e, &i.c, "allowed", (i.a(k),).into_val(e)).ok().and_then(|v| bool::try_from_val(e, &v).ok()).unwrap_or(false);
                if !on {
                    call_mocked(e, &i.c, "allow_user", (i.a(k), m.clone()).into_val(e)).expect("allow");
                }
            }
        }
        if matches!(self.kind, Kind::AllowWrap | Kind::BlockWrap) {
            call_mocked(e, &i.c, "mint", (a.clone(), 8i128).into_val(e)).expect("mint");
        }
        call_mocked(e, &i.c, "transfer", (a.clone(), i.a(1), 3i128).into_val(e)).expect("seed transfer");
        for k in 0..2 {
            call_mocked(e, &i.c, "approve", (i.a(k), i.a(2), 4i128, 5000u32).into_val(e)).expect("seed approve");
        }
        let s = self.observe(&i).expect("observe");
        (i, s)
    }

    fn ops(&self, i: &GInst, _m: &GState, _d: usize) -> Vec<GOp> {
        let mut v = vec![];
        for from in 0..2 {
            for to in 0..3 {
                if from != to {
                    v.push(GOp::Transfer { from, to });
                    v.push(GOp::TransferFrom { from, to });
                }
            }
            v.push(GOp::Burn { from });
            v.push(GOp::BurnFrom { from });
        }
        for o in 0..3 {
            // amount 0 too: revoking an allowance is an approval like any other
            for a in [2i128, 0] {
                v.push(GOp::Approve { o, a });
            }
        }
        v.push(GOp::Mint { to: 0 });
        v.push(GOp::Mint { to: 1 });
        for by in [0, STRANGER] {
            v.push(GOp::Pause { by });
            v.push(GOp::Unpause { by });
        }
        for user in 0..3 {
            for on in [true, false] {
                for by in [3, STRANGER] {
                    v.push(GOp::SetList { user, on, by });
                }
            }
        }
        v.retain(|op| self.call(i, op).is_some());
        v.push(GOp::IdleProbe);
        v
    }

    fn kind(&self, op: &GOp) -> String {
        match op {
            GOp::Transfer { .. } => "transfer",
            GOp::TransferFrom { .. } => "transfer_from",
            GOp::Approve { .. } => "approve",
            GOp::Burn { .. } => "burn",
            GOp::BurnFrom { .. } => "burn_from",
            GOp::Mint { .. } => "mint",
            GOp::Pause { .. } => "pause",
            GOp::Unpause { .. } => "unpause",
            GOp::SetList { on: true, .. } => "list-on",
            GOp::SetList { on: false, .. } => "list-off",
            GOp::IdleProbe => "idle-probe",
        }
        .to_string()
    }
    fn apply(&self, i: &mut GInst, op: &GOp) {
        self.exec(i, op);
    }

    fn step(&self, i: &mut GInst, m: &mut GState, op: &GOp, cx: &mut StepCtx<Self>) -> Result<bool, Violation> {
        if matches!(op, GOp::IdleProbe) {
            let copy = cx.rebuild();
            envx::advance(&copy.e, 600_000);
            let mut o = self.observe(&copy)?;
            o.allow = m.allow; // allowances expire (C02's subject)
            ensure!(o == *m, "state-survives-idle", "600000 ledgers without any call changed the state: before {:?}, after {:?}", m, o);
            cx.stats.count("idle-probes", 1);
            return Ok(false);
        }
        let pre = m.clone();
        let ok = self.exec(i, op);
        if !ok {
            // liveness clauses of the statement
            match op {
                GOp::Pause { by: 0 } => ensure!(pre.paused, "pause-alternation", "owner could not pause an unpaused contract"),
                GOp::Unpause { by: 0 } => ensure!(!pre.paused, "pause-alternation", "owner could not unpause a paused contract"),
                GOp::SetList { by: 3, .. } => return Err(Violation::new("list-change-idempotent", format!("{:?} by the manager was refused", op))),
                _ => {}
            }
            return Ok(false);
        }
        let mut x = pre.clone();
        let pausable = matches!(op, GOp::Transfer { .. } | GOp::TransferFrom { .. } | GOp::Burn { .. } | GOp::BurnFrom { .. } | GOp::Mint { .. });
        if self.kind == Kind::PauseExample && pausable {
            ensure!(!pre.paused, "paused-entry-point-ran", "{:?} succeeded while paused", op);
        }
        let vet = |k: usize, role: &str| -> Result<(), Violation> {
            ensure!(
                self.passes(&pre, k),
                "list-bypassed",
                "{:?} succeeded although {} {} is {}",
                op,
                role,
                NAMES[k],
                if self.is_allow() { "not allowed" } else { "blocked" }
            );
            Ok(())
        };
        match op {
            GOp::Transfer { from, to } => {
                vet(*from, "sender")?;
                vet(*to, "receiver")?;
                x.bal[*from] -= 1;
                x.bal[*to] += 1;
            }
            GOp::TransferFrom { from, to } => {
                vet(*from, "sender")?;
                vet(*to, "receiver")?;
                x.bal[*from] -= 1;
                x.bal[*to] += 1;
                x.allow[*from] -= 1;
            }
            GOp::Approve { o, a } => {
                vet(*o, "owner")?;
                x.allow[*o] = *a;
            }
            GOp::Burn { from } => {
                vet(*from, "holder")?;
                x.bal[*from] -= 1;
            }
            GOp::BurnFrom { from } => {
                vet(*from, "holder")?;
                x.bal[*from] -= 1;
                x.allow[*from] -= 1;
            }
            GOp::Mint { to } => x.bal[*to] += 1,
            GOp::Pause { by } => {
                ensure!(*by == 0, "pause-authority", "pause by a stranger succeeded");
                ensure!(!pre.paused, "pause-alternation", "pause succeeded while already paused");
                x.paused = true;
            }
            GOp::Unpause { by } => {
                ensure!(*by == 0, "pause-authority", "unpause by a stranger succeeded");
                ensure!(pre.paused, "pause-alternation", "unpause succeeded while not paused");
                x.paused = false;
            }
            GOp::SetList { user, on, by } => {
                ensure!(*by == 3 || !matches!(self.kind, Kind::AllowExample | Kind::BlockExample), "list-authority", "{:?} by a non-manager succeeded", op);
                x.listed[*user] = *on;
            }
            GOp::IdleProbe => unreachable!(),
        }
        let post = self.observe(i)?;
        cx.stats.count("getter-comparisons", (3 * N + 1) as u64);
        ensure!(post == x, "lockstep", "after {:?}\n     expected {:?}\n     observed {:?}", op, x, post);
        ensure!(post.bal.iter().all(|b| *b >= 0) && post.allow.iter().all(|a| *a >= 0), "non-negative", "{:?}", post);
        *m = post;
        Ok(true)
    }

    fn key(&self, i: &GInst) -> [u8; 32] {
        envx::storage_digest(&i.e, false)
    }
    fn model_digest(&self, m: &GState) -> u64 {
        vh::engine::dig(m)
    }
}

// ---------------------------------------------------------------------------------------------
// the plain `pausable` example

#[derive(Clone, Debug, PartialEq, Eq)]
enum POp {
    Increment,
    EmergencyReset,
    Pause { by_owner: bool },
    Unpause { by_owner: bool },
}

struct PausableEx;
struct PInst {
    e: Env,
    c: Address,
    owner: Address,
    stranger: Address,
}

impl World for PausableEx {
    type Op = POp;
    type Model = (bool, i32); // (paused, counter)
    type Inst = PInst;
    fn name(&self) -> String {
        "pausable-example".into()
    }
    fn fresh(&self, _s: usize) -> (PInst, (bool, i32)) {
        let e = envx::mk_env(100);
        let owner = Address::generate(&e);
        let stranger = Address::generate(&e);
        auth::back(&e, &owner);
        auth::back(&e, &stranger);
        let c = e.register(pausable_example::ExampleContract, (owner.clone(),));
        (PInst { e, c, owner, stranger }, (false, 0))
    }
    fn ops(&self, _i: &PInst, _m: &(bool, i32), _d: usize) -> Vec<POp> {
        vec![
            POp::Increment,
            POp::EmergencyReset,
            POp::Pause { by_owner: true },
            POp::Pause { by_owner: false },
            POp::Unpause { by_owner: true },
            POp::Unpause { by_owner: false },
        ]
    }
    fn kind(&self, op: &POp) -> String {
        match op {
            POp::Increment => "when_not_paused-call",
            POp::EmergencyReset => "when_paused-call",
            POp::Pause { .. } => "pause",
            POp::Unpause { .. } => "unpause",
        }
        .into()
    }
    fn apply(&self, i: &mut PInst, op: &POp) {
        self.run(i, op);
    }
    fn step(&self, i: &mut PInst, m: &mut (bool, i32), op: &POp, _cx: &mut StepCtx<Self>) -> Result<bool, Violation> {
        let (paused, counter) = *m;
        let r = self.run(i, op);
        let ok = r.is_some();
        match op {
            POp::Increment => {
                ensure!(ok == !paused, "when_not_paused", "increment returned ok={} while paused={}", ok, paused);
                if ok {
                    m.1 = counter + 1;
                    let got = i32::try_from_val(&i.e, &r.unwrap()).unwrap();
                    ensure!(got == m.1, "works-unchanged", "increment returned {} expected {}", got, m.1);
                }
            }
            POp::EmergencyReset => {
                ensure!(ok == paused, "when_paused", "emergency_reset returned ok={} while paused={}", ok, paused);
                if ok {
                    m.1 = 0;
                }
            }
            POp::Pause { by_owner } => {
                ensure!(ok == (*by_owner && !paused), "pause-alternation", "pause(by_owner={}) ok={} while paused={}", by_owner, ok, paused);
                if ok {
                    m.0 = true;
                }
            }
            POp::Unpause { by_owner } => {
                ensure!(ok == (*by_owner && paused), "pause-alternation", "unpause(by_owner={}) ok={} while paused={}", by_owner, ok, paused);
                if ok {
                    m.0 = false;
                }
            }
        }
        let p = bool::try_from_val(&i.e, &view(&i.e, &i.c, "paused", SVec::new(&i.e)).map_err(|x| Violation::new("getter", format!("{x:?}")))?).unwrap();
        ensure!(p == m.0, "lockstep", "paused() = {} expected {}", p, m.0);
        Ok(ok)
    }
    fn key(&self, i: &PInst) -> [u8; 32] {
        envx::storage_digest(&i.e, false)
    }
    fn model_digest(&self, m: &(bool, i32)) -> u64 {
        vh::engine::dig(m)
    }
}

impl PausableEx {
    fn run(&self, i: &PInst, op: &POp) -> Option<Val> {
        let e = &i.e;
        let who = |o: bool| if o { i.owner.clone() } else { i.stranger.clone() };
        match op {
            POp::Increment => call_signed(e, &i.c, "increment", SVec::new(e), &[]).ok(),
            POp::EmergencyReset => call_signed(e, &i.c, "emergency_reset", SVec::new(e), &[]).ok(),
            POp::Pause { by_owner } => call_signed(e, &i.c, "pause", (who(*by_owner),).into_val(e), &[who(*by_owner)]).ok(),
            POp::Unpause { by_owner } => call_signed(e, &i.c, "unpause", (who(*by_owner),).into_val(e), &[who(*by_owner)]).ok(),
        }
    }
}

// ---------------------------------------------------------------------------------------------
// capped token

#[derive(Clone, Debug, PartialEq, Eq)]
struct CMint {
    to: usize,
    a: i128,
}
struct Capped;
struct CInst {
    e: Env,
    c: Address,
    u: [Address; 2],
    cap: i128,
}

impl World for Capped {
    type Op = CMint;
    type Model = i128; // supply
    type Inst = CInst;
    fn name(&self) -> String {
        "fungible-capped-example".into()
    }
    fn seeds(&self) -> usize {
        3
    }
    fn seed_name(&self, s: usize) -> String {
        ["cap=0", "cap=5", "cap=i128::MAX"][s].into()
    }
    fn fresh(&self, s: usize) -> (CInst, i128) {
        let e = envx::mk_env(100);
        let u = [Address::generate(&e), Address::generate(&e)];
        let cap = [0i128, 5, i128::MAX][s];
        let c = e.register(capped_example::ExampleContract, (cap,));
        (CInst { e, c, u, cap }, 0)
    }
    fn ops(&self, i: &CInst, m: &i128, _d: usize) -> Vec<CMint> {
        let room = i.cap - *m;
        let mut am: Vec<i128> = vec![];
        for a in [-1, 0, 1, 2, room - 1, room, room.saturating_add(1), i128::MAX - *m, (i128::MAX - *m).saturating_add(1), i128::MAX] {
            if !am.contains(&a) {
                am.push(a);
            }
        }
        let mut v = vec![];
        for to in 0..2 {
            for a in &am {
                v.push(CMint { to, a: *a });
            }
        }
        v
    }
    fn kind(&self, _op: &CMint) -> String {
        "capped-mint".into()
    }
    fn apply(&self, i: &mut CInst, op: &CMint) {
        let _ = call_mocked(&i.e, &i.c, "mint", (i.u[op.to].clone(), op.a).into_val(&i.e));
    }
    fn step(&self, i: &mut CInst, m: &mut i128, op: &CMint, _cx: &mut StepCtx<Self>) -> Result<bool, Violation> {
        let pre = *m;
        let ok = call_mocked(&i.e, &i.c, "mint", (i.u[op.to].clone(), op.a).into_val(&i.e)).is_ok();
        if !ok {
            return Ok(false);
        }
        ensure!(op.a >= 0, "negative-mint", "mint of {} succeeded", op.a);
        let exp = pre.checked_add(op.a);
        ensure!(exp.map(|s| s <= i.cap).unwrap_or(false), "cap-exceeded", "mint of {} at supply {} succeeded with cap {}", op.a, pre, i.cap);
        let s = i128::try_from_val(&i.e, &view(&i.e, &i.c, "total_supply", SVec::new(&i.e)).map_err(|x| Violation::new("getter", format!("{x:?}")))?).unwrap();
        ensure!(Some(s) == exp, "lockstep", "supply {} expected {:?}", s, exp);
        ensure!(s <= i.cap, "cap-exceeded", "supply {} above cap {}", s, i.cap);
        let mut sum = 0i128;
        for k in 0..2 {
            sum += i128::try_from_val(&i.e, &view(&i.e, &i.c, "balance", (i.u[k].clone(),).into_val(&i.e)).unwrap()).unwrap();
        }
        ensure!(sum == s, "supply=sum(balances)", "sum {} supply {}", sum, s);
        *m = s;
        Ok(true)
    }
    fn key(&self, i: &CInst) -> [u8; 32] {
        envx::storage_digest(&i.e, false)
    }
    fn model_digest(&self, m: &i128) -> u64 {
        vh::engine::dig(m)
    }
}

// ---------------------------------------------------------------------------------------------
// capped token whose cap moves (wrapper): set_cap to any value incl. below the current supply

#[derive(Clone, Debug, PartialEq, Eq)]
enum KOp {
    Mint(i128),
    Burn(i128),
    SetCap(i128),
}
struct CapMoves;
struct KInst {
    e: Env,
    c: Address,
    u: Address,
}

impl CapMoves {
    fn exec(&self, i: &KInst, op: &KOp) -> bool {
        match op {
            KOp::Mint(a) => call_mocked(&i.e, &i.c, "mint", (i.u.clone(), *a).into_val(&i.e)),
            KOp::Burn(a) => call_mocked(&i.e, &i.c, "burn", (i.u.clone(), *a).into_val(&i.e)),
            KOp::SetCap(c) => call_mocked(&i.e, &i.c, "set_cap", (*c,).into_val(&i.e)),
        }
        .is_ok()
    }
}

impl World for CapMoves {
    type Op = KOp;
    type Model = (i128, i128); // (supply, cap in force)
    type Inst = KInst;
    fn name(&self) -> String {
        "capped-wrapper-with-moving-cap".into()
    }
    fn fresh(&self, _s: usize) -> (KInst, (i128, i128)) {
        let e = envx::mk_env(100);
        let u = Address::generate(&e);
        let c = e.register(wrap::cap::CapTok, (5i128,));
        (KInst { e, c, u }, (0, 5))
    }
    fn ops(&self, _i: &KInst, m: &(i128, i128), _d: usize) -> Vec<KOp> {
        let (supply, cap) = *m;
        let room = cap.saturating_sub(supply);
        let mut v = vec![];
        let mut push = |op: KOp, v: &mut Vec<KOp>| {
            if !v.contains(&op) {
                v.push(op)
            }
        };
        for a in [0, 1, 2, room - 1, room, room.saturating_add(1), supply - cap, supply.saturating_sub(cap).saturating_add(1)] {
            if a >= 0 {
                push(KOp::Mint(a), &mut v);
            }
        }
        for a in [1, supply] {
            if a > 0 {
                push(KOp::Burn(a), &mut v);
            }
        }
        for c in [-1, 0, supply - 2, supply - 1, supply, supply.saturating_add(1), 5, i128::MAX] {
            push(KOp::SetCap(c), &mut v);
        }
        v
    }
    fn kind(&self, op: &KOp) -> String {
        match op {
            KOp::Mint(_) => "capped-mint",
            KOp::Burn(_) => "burn",
            KOp::SetCap(_) => "set_cap",
        }
        .into()
    }
    fn apply(&self, i: &mut KInst, op: &KOp) {
        self.exec(i, op);
    }
    fn step(&self, i: &mut KInst, m: &mut (i128, i128), op: &KOp, cx: &mut StepCtx<Self>) -> Result<bool, Violation> {
        let (supply, cap) = *m;
        if !self.exec(i, op) {
            if let KOp::Mint(a) = op {
                if *a > 0 && supply > cap {
                    cx.stats.count("capped mint refused while the supply is already above the cap", 1);
                }
            }
            return Ok(false);
        }
        let get = |f: &str| -> Result<i128, Violation> { Ok(i128::try_from_val(&i.e, &view(&i.e, &i.c, f, SVec::new(&i.e)).map_err(|x| Violation::new("getter", format!("{f}: {x:?}")))?).unwrap()) };
        let want = match op {
            KOp::Mint(a) => {
                ensure!(supply.checked_add(*a).map(|s| s <= cap).unwrap_or(false), "cap-exceeded", "a cap-checked mint of {} at supply {} succeeded with cap {} in force", a, supply, cap);
                cx.stats.count("capped mint accepted", 1);
                (supply + a, cap)
            }
            KOp::Burn(a) => (supply - a, cap),
            KOp::SetCap(c) => {
                ensure!(*c >= 0, "negative-cap", "set_cap({}) succeeded", c);
                (supply, *c)
            }
        };
        let got = (get("total_supply")?, get("cap")?);
        ensure!(got == want, "lockstep", "after {:?}: (supply, cap) = {:?}, expected {:?}", op, got, want);
        ensure!(!matches!(op, KOp::Mint(_)) || got.0 <= got.1, "cap-exceeded", "after {:?}: supply {} above cap {}", op, got.0, got.1);
        *m = got;
        Ok(true)
    }
    fn key(&self, i: &KInst) -> [u8; 32] {
        envx::storage_digest(&i.e, false)
    }
    fn model_digest(&self, m: &(i128, i128)) -> u64 {
        vh::engine::dig(m)
    }
}

// ---------------------------------------------------------------------------------------------
// pausable macros stacked with the authorization macros, both orders

#[derive(Clone, Debug, PartialEq, Eq)]
enum SOp {
    Pause,
    Unpause,
    Call(usize),
}
const STACKED: [(&str, bool, bool); 9] = [
    // (entry point, takes the caller argument, runs only while paused)
    ("owner_then_pause", false, false),
    ("pause_then_owner", false, false),
    ("admin_then_pause", false, false),
    ("pause_then_admin", false, false),
    ("role_then_pause", true, false),
    ("pause_then_role", true, false),
    ("hasrole_then_pause", true, false),
    ("owner_then_whenpaused", false, true),
    ("whenpaused_then_owner", false, true),
];
struct Stacked;
struct SInst {
    e: Env,
    c: Address,
    member: Address,
}
#[derive(Clone, Debug, PartialEq, Eq, Hash)]
struct SModel {
    paused: bool,
    counts: [u32; 9],
}

impl Stacked {
    fn exec(&self, i: &SInst, op: &SOp) -> bool {
        let e = &i.e;
        match op {
            SOp::Pause => call_mocked(e, &i.c, "pause", SVec::new(e)),
            SOp::Unpause => call_mocked(e, &i.c, "unpause", SVec::new(e)),
            SOp::Call(k) => {
                let (f, with_caller, _) = STACKED[*k];
                if with_caller {
                    call_mocked(e, &i.c, f, (i.member.clone(),).into_val(e))
                } else {
                    call_mocked(e, &i.c, f, SVec::new(e))
                }
            }
        }
        .is_ok()
    }
}

impl World for Stacked {
    type Op = SOp;
    type Model = SModel;
    type Inst = SInst;
    fn name(&self) -> String {
        "stacked-macros".into()
    }
    fn fresh(&self, _s: usize) -> (SInst, SModel) {
        let e = envx::mk_env(100);
        let owner = Address::generate(&e);
        let member = Address::generate(&e);
        let c = e.register(wrap::stacked::Stacked, (owner, member.clone()));
        (SInst { e, c, member }, SModel { paused: false, counts: [0; 9] })
    }
    fn ops(&self, _i: &SInst, _m: &SModel, _d: usize) -> Vec<SOp> {
        let mut v = vec![SOp::Pause, SOp::Unpause];
        v.extend((0..STACKED.len()).map(SOp::Call));
        v
    }
    fn kind(&self, op: &SOp) -> String {
        match op {
            SOp::Pause => "pause".into(),
            SOp::Unpause => "unpause".into(),
            SOp::Call(k) => (if STACKED[*k].2 { "when_paused-call" } else { "when_not_paused-call" }).into(),
        }
    }
    fn apply(&self, i: &mut SInst, op: &SOp) {
        self.exec(i, op);
    }
    fn step(&self, i: &mut SInst, m: &mut SModel, op: &SOp, cx: &mut StepCtx<Self>) -> Result<bool, Violation> {
        let ok = self.exec(i, op);
        match op {
            SOp::Pause => {
                ensure!(ok == !m.paused, "pause-alternation", "pause ok={} while paused={}", ok, m.paused);
                if ok {
                    m.paused = true;
                }
            }
            SOp::Unpause => {
                ensure!(ok == m.paused, "pause-alternation", "unpause ok={} while paused={}", ok, m.paused);
                if ok {
                    m.paused = false;
                }
            }
            SOp::Call(k) => {
                let (f, _, when_paused) = STACKED[*k];
                let allowed = m.paused == when_paused;
                if ok {
                    ensure!(allowed, "paused-entry-point-ran", "{} ran although the contract is {}", f, if m.paused { "paused" } else { "not paused" });
                    m.counts[*k] += 1;
                    cx.stats.count("stacked entry point ran", 1);
                } else {
                    // the owner / admin / role holder authorizes: nothing but the pause state can refuse
                    ensure!(!allowed, "works-when-allowed", "{} was refused although the contract is {} and the caller is entitled", f, if m.paused { "paused" } else { "not paused" });
                    cx.stats.count("stacked entry point refused by the pause state", 1);
                }
            }
        }
        if ok {
            let p = bool::try_from_val(&i.e, &view(&i.e, &i.c, "paused", SVec::new(&i.e)).unwrap()).unwrap();
            ensure!(p == m.paused, "lockstep", "paused() = {} model {}", p, m.paused);
            for k in 0..STACKED.len() {
                let n = u32::try_from_val(&i.e, &view(&i.e, &i.c, "count", (k as u32,).into_val(&i.e)).unwrap()).unwrap();
                ensure!(n == m.counts[k], "lockstep", "{} ran {} times, model {}", STACKED[k].0, n, m.counts[k]);
            }
        }
        Ok(ok)
    }
    fn key(&self, i: &SInst) -> [u8; 32] {
        envx::storage_digest(&i.e, false)
    }
    fn model_digest(&self, m: &SModel) -> u64 {
        vh::engine::dig(m)
    }
}

// ---------------------------------------------------------------------------------------------
// upgrade / migrate

const V2_WASM: &[u8] = include_bytes!("/repo/examples/upgradeable/testdata/upgradeable_v2_example.wasm");

#[derive(Clone, Debug, PartialEq, Eq)]
enum UOp {
    Upgrade { by_owner: bool },
    Migrate { by_owner: bool },
}
struct Upgr {
    migratable: bool,
}
struct UInst {
    e: Env,
    c: Address,
    owner: Address,
    stranger: Address,
    hash: BytesN<32>,
}
#[derive(Clone, Debug, PartialEq, Eq, Hash)]
struct UModel {
    pending: bool,
    migrations: u32,
}

impl Upgr {
    fn run(&self, i: &UInst, op: &UOp) -> bool {
        let e = &i.e;
        let who = |o: bool| if o { i.owner.clone() } else { i.stranger.clone() };
        match op {
            UOp::Upgrade { by_owner } => {
                let ok = call_signed(e, &i.c, "upgrade", (i.hash.clone(), who(*by_owner)).into_val(e), &[who(*by_owner)]).is_ok();
                if ok {
                    // the executable is now the prebuilt wasm blob; put the working tree's native
                    // code back at the same address (instance storage is preserved)
                    if self.migratable {
                        e.register_at(&i.c, wrap::mig::Mig, ());
                    } else {
                        e.register_at(&i.c, wrap::upg::Upg, ());
                    }
                }
                ok
            }
            UOp::Migrate { by_owner } => call_signed(e, &i.c, "migrate", (7u32, who(*by_owner)).into_val(e), &[who(*by_owner)]).is_ok(),
        }
    }
}

impl World for Upgr {
    type Op = UOp;
    type Model = UModel;
    type Inst = UInst;
    fn name(&self) -> String {
        if self.migratable { "derive-UpgradeableMigratable".into() } else { "derive-Upgradeable".into() }
    }
    fn fresh(&self, _s: usize) -> (UInst, UModel) {
        let e = envx::mk_env(100);
        let owner = Address::generate(&e);
        let stranger = Address::generate(&e);
        auth::back(&e, &owner);
        auth::back(&e, &stranger);
        let c = if self.migratable { e.register(wrap::mig::Mig, ()) } else { e.register(wrap::upg::Upg, ()) };
        call_mocked(&e, &c, "set_owner", (owner.clone(),).into_val(&e)).expect("set_owner");
        let hash = e.deployer().upload_contract_wasm(Bytes::from_slice(&e, V2_WASM));
        (UInst { e, c, owner, stranger, hash }, UModel { pending: false, migrations: 0 })
    }
    fn ops(&self, _i: &UInst, _m: &UModel, _d: usize) -> Vec<UOp> {
        let mut v = vec![UOp::Upgrade { by_owner: true }, UOp::Upgrade { by_owner: false }];
        if self.migratable {
            v.push(UOp::Migrate { by_owner: true });
            v.push(UOp::Migrate { by_owner: false });
        }
        v
    }
    fn kind(&self, op: &UOp) -> String {
        match op {
            UOp::Upgrade { .. } => "upgrade",
            UOp::Migrate { .. } => "migrate",
        }
        .into()
    }
    fn apply(&self, i: &mut UInst, op: &UOp) {
        self.run(i, op);
    }
    fn step(&self, i: &mut UInst, m: &mut UModel, op: &UOp, _cx: &mut StepCtx<Self>) -> Result<bool, Violation> {
        let pre = m.clone();
        let ok = self.run(i, op);
        match op {
            UOp::Upgrade { by_owner } => {
                ensure!(ok == *by_owner, "upgrade-authority", "upgrade(by_owner={}) ok={}", by_owner, ok);
                if ok {
                    m.pending = true;
                }
            }
            UOp::Migrate { by_owner } => {
                ensure!(
                    ok == (*by_owner && pre.pending),
                    "migrate-once-per-upgrade",
                    "migrate(by_owner={}) ok={} although {} (migrations so far {})",
                    by_owner,
                    ok,
                    if pre.pending { "an upgrade is waiting for its migration" } else { "no upgrade happened since the last completed migration" },
                    pre.migrations
                );
                if ok {
                    m.pending = false;
                    m.migrations += 1;
                }
            }
        }
        let e = &i.e;
        let can = bool::try_from_val(e, &view(e, &i.c, "can_migrate", SVec::new(e)).map_err(|x| Violation::new("getter", format!("{x:?}")))?).unwrap();
        ensure!(can == m.pending, "lockstep", "can_complete_migration = {} expected {}", can, m.pending);
        if self.migratable {
            let n = u32::try_from_val(e, &view(e, &i.c, "migrations", SVec::new(e)).map_err(|x| Violation::new("getter", format!("{x:?}")))?).unwrap();
            ensure!(n == m.migrations, "lockstep", "_migrate ran {} times, expected {}", n, m.migrations);
        }
        Ok(ok)
    }
    fn key(&self, i: &UInst) -> [u8; 32] {
        envx::storage_digest(&i.e, false)
    }
    fn model_digest(&self, m: &UModel) -> u64 {
        vh::engine::dig(m)
    }
}

fn main() {
    main_with(
        "C16",
        "model_checking",
        "level-BFS under enforcing authorization over (a) transfer/transfer_from/approve/burn/burn_from/mint interleaved with pause/unpause (owner|stranger) and allow/disallow resp. block/unblock (manager|stranger) of every party on the fungible-pausable, fungible-allowlist, fungible-blocklist examples and on wrapper tokens wiring AllowList::burn*/BlockList::burn*; (b) the pausable example; (c) the capped example with caps 0, 5, i128::MAX and mints around the cap incl. overflow; (d) upgrade/migrate sequences on contracts deriving Upgradeable / UpgradeableMigratable. Full post-state predicted and compared after every accepted call",
        |tier: Tier, r: &mut Runner| {
            for kind in [Kind::PauseExample, Kind::AllowExample, Kind::BlockExample, Kind::AllowWrap, Kind::BlockWrap] {
                r.world(&Gated { kind }, &Bounds::new(tier.pick(4, 6), tier.pick(10, 110)));
            }
            r.world(&PausableEx, &Bounds::new(tier.pick(6, 9), 30));
            r.world(&Capped, &Bounds::new(tier.pick(5, 7), tier.pick(10, 60)));
            r.world(&CapMoves, &Bounds::new(tier.pick(6, 8), tier.pick(10, 60)));
            r.world(&Stacked, &Bounds::new(tier.pick(3, 4), tier.pick(10, 60)));
            r.world(&Upgr { migratable: true }, &Bounds::new(tier.pick(6, 9), 30));
            r.world(&Upgr { migratable: false }, &Bounds::new(tier.pick(4, 6), 30));
            if let Some(rep) = r.report() {
                rep.require(
                    &["transfer", "transfer_from", "approve", "burn", "burn_from", "mint", "pause", "unpause", "list-on", "list-off", "when_not_paused-call", "when_paused-call", "capped-mint", "set_cap", "upgrade", "migrate"],
                    &["transfer", "transfer_from", "approve", "burn", "burn_from", "mint", "pause", "unpause", "list-on", "when_not_paused-call", "when_paused-call", "capped-mint", "set_cap", "upgrade", "migrate"],
                );
                rep.require_counter(&["idle-probes", "capped mint refused while the supply is already above the cap", "stacked entry point ran", "stacked entry point refused by the pause state"]);
            }
        },
    );
}
