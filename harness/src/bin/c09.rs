//! C09 — a self-administered timelock controller cannot be driven around its own delay.
//!
//! World: the `timelock-controller` example (admin = the contract itself), with and without an
//! executor configured. Scheduling / cancelling run under enforcing authorization signed by one
//! chosen account; every admin-only entry point is attempted END-TO-END under enforcing
//! authorization with a crafted authorization entry for the controller's own address whose
//! signature (the operation-descriptor list handed to `__check_auth`) ranges over: no entry at
//! all, empty list, one descriptor (right / wrong salt, right / wrong predecessor, executor field
//! none / executor / stranger), two descriptors, and a two-context tree with one descriptor; the
//! executor's own authorization entry is present or absent.

use soroban_sdk::testutils::Address as _;
use soroban_sdk::xdr::{ScVal, SorobanAuthorizationEntry, VecM};
use soroban_sdk::{Address, BytesN, Env, IntoVal, Symbol, TryFromVal, Val, Vec as SVec};
use vh::auth::{self, call_entries, call_signed, view};
use vh::cli::{main_with, Runner};
use vh::engine::{Bounds, StepCtx, Violation, World};
use vh::ensure;
use vh::envx;
use vh::report::Tier;

#[path = "../shared/timelock_wrap.rs"]
mod tlw;
#[path = "/repo/examples/timelock-controller/src/contract.rs"]
mod tlc;
use tlc::OperationMeta;

/// The admin-only calls on the controller that the exploration schedules and attempts.
#[derive(Clone, Copy, Debug, PartialEq, Eq, PartialOrd, Ord, Hash)]
enum Call {
    Delay0,
    Delay5,
    GrantProposerX,
    RevokeCancellerP,
    Renounce,
    SetRoleAdmin,
    TransferAdminX,
    /// update_delay(7), scheduled with predecessor = the (Delay5, salt 1) operation
    Delay7AfterDelay5,
    /// grant_role(E, "executor"): turns an open-execution controller into one with executors
    /// (seed 2 only; never part of the explored alphabet)
    GrantExecutorE,
    /// transfer_admin_role(X, 0): withdraws a pending admin transfer to X — admin-only like the offer
    CancelTransferX,
}

const QUICK_CALLS: [Call; 7] = [Call::Delay0, Call::Delay5, Call::GrantProposerX, Call::Renounce, Call::Delay7AfterDelay5, Call::TransferAdminX, Call::CancelTransferX];
const ALL_CALLS: [Call; 9] = [
    Call::CancelTransferX,
    Call::Delay0,
    Call::Delay5,
    Call::GrantProposerX,
    Call::RevokeCancellerP,
    Call::Renounce,
    Call::SetRoleAdmin,
    Call::TransferAdminX,
    Call::Delay7AfterDelay5,
];

#[derive(Clone, Copy, Debug, PartialEq, Eq, PartialOrd, Ord, Hash)]
enum Who {
    P,
    E,
    X,
}

#[derive(Clone, Copy, Debug, PartialEq, Eq, PartialOrd, Ord, Hash)]
struct OpId {
    call: Call,
    salt: u8,
    /// scheduled for ANOTHER target contract (same function, arguments, predecessor, salt): such
    /// an operation must never authorize a call on the controller itself
    foreign: bool,
}

#[derive(Clone, Copy, Debug, PartialEq, Eq)]
struct Meta {
    salt: u8,
    /// true: the predecessor the operation was scheduled with; false: a different one
    right_pred: bool,
    executor: Option<Who>,
}

#[derive(Clone, Debug, PartialEq, Eq)]
enum Sig {
    /// no authorization entry for the controller at all
    NoEntry,
    /// descriptor list handed to __check_auth
    List(Vec<Meta>),
    /// authorization tree with a second (never invoked) context `extra`, one descriptor only
    TwoContexts { extra: Call, meta: Meta },
    /// as above with the descriptor list empty
    TwoContextsEmpty { extra: Call },
}

#[derive(Clone, Debug, PartialEq, Eq)]
enum Op {
    Schedule { op: OpId, delay: u32, by: Who },
    Cancel { op: OpId, by: Who },
    /// schedule_op / cancel_op naming the proposer P but carrying nobody's authorization
    ScheduleUnsigned { op: OpId, delay: u32 },
    CancelUnsigned { op: OpId },
    Advance(u32),
    Admin { call: Call, sig: Sig, executor_signs: Option<Who> },
    /// grant_role / revoke_role called directly by an ordinary account naming itself as caller and
    /// signing for itself (no timelocked operation involved)
    DirectRole { grant: bool, role: Role, caller: Who },
    /// a DIRECT call (not through execute_op) of a contract governed by the controller, carrying an
    /// authorization entry for the controller's address with `n` descriptors naming executor `ex`:
    /// nothing was scheduled for it, so no payload may let it through
    ForeignDirect { n: usize, ex: Option<Who>, executor_signs: bool },
    /// probe on a rebuilt copy: 2000000 ledgers pass without a call (role entries are extended by 90
    /// days = 1555200 ledgers); roles, admin, minimum delay and the stored state of every operation
    /// (Done stays Done, scheduled stays scheduled with the same ready ledger) must read the same
    IdleProbe,
}

#[derive(Clone, Copy, Debug, PartialEq, Eq, PartialOrd, Ord, Hash)]
enum Role {
    Proposer,
    Canceller,
    Executor,
}
impl Role {
    fn name(&self) -> &'static str {
        match self {
            Role::Proposer => "proposer",
            Role::Canceller => "canceller",
            Role::Executor => "executor",
        }
    }
}

#[derive(Clone, Copy, Debug, PartialEq, Eq, Hash)]
enum OpState {
    Unset,
    Scheduled(u32),
    Done,
}

#[derive(Clone, Debug, PartialEq, Eq, Hash)]
struct Model {
    ops: std::collections::BTreeMap<OpId, OpState>,
    min_delay: u32,
    admin_is_self: bool,
    proposers: Vec<Who>,
    cancellers: Vec<Who>,
    executors: Vec<Who>,
    proposer_role_admin: bool,
}

struct Tlc {
    with_executor: bool,
    thorough: bool,
}

struct Inst {
    e: Env,
    c: Address,
    p: Address,
    ex: Address,
    x: Address,
    /// a contract governed by the controller (demands the controller's authorization)
    gov: Address,
    ids: std::collections::BTreeMap<OpId, BytesN<32>>,
}

fn zero(e: &Env) -> BytesN<32> {
    BytesN::from_array(e, &[0u8; 32])
}
fn salt(e: &Env, k: u8) -> BytesN<32> {
    BytesN::from_array(e, &[k; 32])
}

impl Inst {
    fn who(&self, w: Who) -> Address {
        match w {
            Who::P => self.p.clone(),
            Who::E => self.ex.clone(),
            Who::X => self.x.clone(),
        }
    }
    fn call_args(&self, c: Call) -> (&'static str, SVec<Val>) {
        let e = &self.e;
        match c {
            Call::Delay0 => ("update_delay", (0u32,).into_val(e)),
            Call::Delay5 => ("update_delay", (5u32,).into_val(e)),
            Call::Delay7AfterDelay5 => ("update_delay", (7u32,).into_val(e)),
            Call::GrantProposerX => ("grant_role", (self.x.clone(), Symbol::new(e, "proposer"), self.c.clone()).into_val(e)),
            Call::GrantExecutorE => ("grant_role", (self.ex.clone(), Symbol::new(e, "executor"), self.c.clone()).into_val(e)),
            Call::RevokeCancellerP => ("revoke_role", (self.p.clone(), Symbol::new(e, "canceller"), self.c.clone()).into_val(e)),
            Call::Renounce => ("renounce_admin", SVec::new(e)),
            Call::SetRoleAdmin => ("set_role_admin", (Symbol::new(e, "proposer"), Symbol::new(e, "executor")).into_val(e)),
            Call::TransferAdminX => ("transfer_admin_role", (self.x.clone(), 5000u32).into_val(e)),
            Call::CancelTransferX => ("transfer_admin_role", (self.x.clone(), 0u32).into_val(e)),
        }
    }
    fn pred_of(&self, op: OpId) -> BytesN<32> {
        if op.call == Call::Delay7AfterDelay5 {
            self.ids[&OpId { call: Call::Delay5, salt: 1, foreign: false }].clone()
        } else {
            zero(&self.e)
        }
    }
    fn meta_val(&self, call: Call, m: &Meta) -> OperationMeta {
        let right = self.pred_of(OpId { call, salt: m.salt, foreign: false });
        let pred = if m.right_pred { right } else { salt(&self.e, 0xEE) };
        OperationMeta { predecessor: pred, salt: salt(&self.e, m.salt), executor: m.executor.map(|w| self.who(w)) }
    }
}

impl Tlc {
    fn calls(&self) -> &'static [Call] {
        if self.thorough {
            &ALL_CALLS
        } else {
            &QUICK_CALLS
        }
    }
    fn op_ids(&self) -> Vec<OpId> {
        let mut v: Vec<OpId> = self.calls().iter().map(|c| OpId { call: *c, salt: 1, foreign: false }).collect();
        v.push(OpId { call: Call::Delay0, salt: 2, foreign: false });
        v.push(OpId { call: Call::Delay0, salt: 1, foreign: true });
        v.push(OpId { call: Call::GrantExecutorE, salt: 1, foreign: false });
        v
    }

    fn exec(&self, i: &Inst, op: &Op) -> bool {
        let e = &i.e;
        match op {
            Op::Schedule { op, delay, by } => {
                let (f, args) = i.call_args(op.call);
                let target = if op.foreign { i.x.clone() } else { i.c.clone() };
                let a: SVec<Val> = (target, Symbol::new(e, f), args, i.pred_of(*op), salt(e, op.salt), *delay, i.who(*by)).into_val(e);
                call_signed(e, &i.c, "schedule_op", a, &[i.who(*by)]).is_ok()
            }
            Op::Cancel { op, by } => {
                let a: SVec<Val> = (i.ids[op].clone(), i.who(*by)).into_val(e);
                call_signed(e, &i.c, "cancel_op", a, &[i.who(*by)]).is_ok()
            }
            Op::ScheduleUnsigned { op, delay } => {
                let (f, args) = i.call_args(op.call);
                let target = if op.foreign { i.x.clone() } else { i.c.clone() };
                let a: SVec<Val> = (target, Symbol::new(e, f), args, i.pred_of(*op), salt(e, op.salt), *delay, i.p.clone()).into_val(e);
                call_signed(e, &i.c, "schedule_op", a, &[]).is_ok()
            }
            Op::CancelUnsigned { op } => {
                let a: SVec<Val> = (i.ids[op].clone(), i.p.clone()).into_val(e);
                call_signed(e, &i.c, "cancel_op", a, &[]).is_ok()
            }
            Op::Advance(k) => {
                envx::advance(e, *k);
                true
            }
            Op::IdleProbe => false,
            Op::ForeignDirect { n, ex, executor_signs } => {
                let args: SVec<Val> = (1u32,).into_val(e);
                let inv = auth::invocation(e, &i.gov, "poke", &args);
                let mut l: SVec<OperationMeta> = SVec::new(e);
                for _ in 0..*n {
                    l.push_back(OperationMeta { predecessor: zero(e), salt: salt(e, 1), executor: ex.map(|w| i.who(w)) });
                }
                let v: Val = l.into_val(e);
                let sc = ScVal::try_from_val(e, &v).expect("sig scval");
                let mut entries = vec![auth::entry_with_sig(e, &auth::sc(&i.c), &inv, sc)];
                if let (true, Some(w)) = (*executor_signs, ex) {
                    // what __check_auth would ask of an executor for such a descriptor
                    let a: SVec<Val> = (Symbol::new(e, "execute_op"), i.gov.clone(), Symbol::new(e, "poke"), args.clone(), zero(e), salt(e, 1)).into_val(e);
                    let _ = a;
                    entries.push(auth::entry(e, &auth::sc(&i.who(*w)), &auth::invocation(e, &i.c, "__check_auth", &SVec::new(e))));
                }
                call_entries(e, &i.gov, "poke", args, &entries).is_ok()
            }
            Op::DirectRole { grant, role, caller } => {
                // grant: to the stranger X; revoke: from the proposer P
                let (f, account) = if *grant { ("grant_role", i.x.clone()) } else { ("revoke_role", i.p.clone()) };
                let a: SVec<Val> = (account, Symbol::new(e, role.name()), i.who(*caller)).into_val(e);
                call_signed(e, &i.c, f, a, &[i.who(*caller)]).is_ok()
            }
            Op::Admin { call, sig, executor_signs } => {
                let (f, args) = i.call_args(*call);
                let mut entries: Vec<SorobanAuthorizationEntry> = vec![];
                let mut metas: Vec<(Call, Meta)> = vec![];
                let mut inv = auth::invocation(e, &i.c, f, &args);
                let list: Option<SVec<OperationMeta>> = match sig {
                    Sig::NoEntry => None,
                    Sig::List(ms) => {
                        let mut l = SVec::new(e);
                        for m in ms {
                            l.push_back(i.meta_val(*call, m));
                            metas.push((*call, *m));
                        }
                        Some(l)
                    }
                    Sig::TwoContexts { extra, meta } => {
                        let (f2, a2) = i.call_args(*extra);
                        inv.sub_invocations = VecM::try_from(vec![auth::invocation(e, &i.c, f2, &a2)]).unwrap();
                        let mut l = SVec::new(e);
                        l.push_back(i.meta_val(*call, meta));
                        metas.push((*call, *meta));
                        Some(l)
                    }
                    Sig::TwoContextsEmpty { extra } => {
                        let (f2, a2) = i.call_args(*extra);
                        inv.sub_invocations = VecM::try_from(vec![auth::invocation(e, &i.c, f2, &a2)]).unwrap();
                        Some(SVec::new(e))
                    }
                };
                if let Some(l) = list {
                    let v: Val = l.into_val(e);
                    let sc = ScVal::try_from_val(e, &v).expect("sig scval");
                    entries.push(auth::entry_with_sig(e, &auth::sc(&i.c), &inv, sc));
                }
                if let Some(w) = executor_signs {
                    // the executor authorizes exactly what __check_auth asks for, for every
                    // descriptor offered
                    for (c, m) in &metas {
                        let (cf, cargs) = i.call_args(*c);
                        let mv = i.meta_val(*c, m);
                        let a: SVec<Val> =
                            (Symbol::new(e, "execute_op"), i.c.clone(), Symbol::new(e, cf), cargs, mv.predecessor.clone(), mv.salt.clone()).into_val(e);
                        let einv = auth::invocation(e, &i.c, "__check_auth", &a);
                        entries.push(auth::entry(e, &auth::sc(&i.who(*w)), &einv));
                    }
                }
                call_entries(e, &i.c, f, args, &entries).is_ok()
            }
        }
    }

    fn observe(&self, i: &Inst) -> Result<Model, Violation> {
        let e = &i.e;
        let g = |f: &str, args: SVec<Val>| view(e, &i.c, f, args).map_err(|x| Violation::new("getter", format!("{f}: {x:?}")));
        let now = envx::now(e);
        let mut ops = std::collections::BTreeMap::new();
        for (op, id) in &i.ids {
            let ledger = u32::try_from_val(e, &g("get_operation_ledger", (id.clone(),).into_val(e))?).unwrap();
            let state = g("get_operation_state", (id.clone(),).into_val(e))?;
            let st: tlc_state::St = tlc_state::decode(e, state);
            let done = bool::try_from_val(e, &g("is_operation_done", (id.clone(),).into_val(e))?).unwrap();
            let ready = bool::try_from_val(e, &g("is_operation_ready", (id.clone(),).into_val(e))?).unwrap();
            let s = match st {
                tlc_state::St::Unset => OpState::Unset,
                tlc_state::St::Done => OpState::Done,
                tlc_state::St::Waiting | tlc_state::St::Ready => OpState::Scheduled(ledger),
            };
            ensure!(done == (st == tlc_state::St::Done), "getter-consistency", "is_operation_done disagrees with get_operation_state for {:?}", op);
            ensure!(ready == (st == tlc_state::St::Ready), "getter-consistency", "is_operation_ready disagrees with get_operation_state for {:?}", op);
            if let OpState::Scheduled(l) = s {
                ensure!((st == tlc_state::St::Ready) == (now >= l), "getter-consistency", "state {:?} at ledger {} with ready ledger {}", st, now, l);
            }
            ops.insert(*op, s);
        }
        let has = |w: Who, role: &str| -> Result<bool, Violation> {
            let v = g("has_role", (i.who(w), Symbol::new(e, role)).into_val(e))?;
            Ok(Option::<u32>::try_from_val(e, &v).unwrap().is_some())
        };
        let mut m = Model {
            ops,
            min_delay: u32::try_from_val(e, &g("get_min_delay", SVec::new(e))?).unwrap(),
            admin_is_self: false,
            proposers: vec![],
            cancellers: vec![],
            executors: vec![],
            proposer_role_admin: false,
        };
        let adm = Option::<Address>::try_from_val(e, &g("get_admin", SVec::new(e))?).unwrap();
        ensure!(adm.is_none() || adm == Some(i.c.clone()), "admin", "admin became {:?}", adm);
        m.admin_is_self = adm.is_some();
        for w in [Who::P, Who::E, Who::X] {
            if has(w, "proposer")? {
                m.proposers.push(w);
            }
            if has(w, "canceller")? {
                m.cancellers.push(w);
            }
            if has(w, "executor")? {
                m.executors.push(w);
            }
        }
        let ra = Option::<Symbol>::try_from_val(e, &g("get_role_admin", (Symbol::new(e, "proposer"),).into_val(e))?).unwrap();
        m.proposer_role_admin = ra.is_some();
        Ok(m)
    }
}

mod tlc_state {
    use soroban_sdk::{Env, TryFromVal, Val};
    use stellar_governance::timelock::OperationState;
    #[derive(Clone, Copy, Debug, PartialEq, Eq)]
    pub enum St {
        Unset,
        Waiting,
        Ready,
        Done,
    }
    pub fn decode(e: &Env, v: Val) -> St {
        match OperationState::try_from_val(e, &v).expect("state") {
            OperationState::Unset => St::Unset,
            OperationState::Waiting => St::Waiting,
            OperationState::Ready => St::Ready,
            OperationState::Done => St::Done,
        }
    }
}

impl World for Tlc {
    type Op = Op;
    type Model = Model;
    type Inst = Inst;

    fn name(&self) -> String {
        format!("timelock-controller-{}{}", if self.with_executor { "executor" } else { "open-execution" }, if self.thorough { "-t" } else { "" })
    }

    fn seeds(&self) -> usize {
        // seed 2 only makes sense for a controller constructed without executors
        if self.with_executor {
            2
        } else {
            3
        }
    }
    fn seed_name(&self, s: usize) -> String {
        [
            "fresh controller",
            "after the timelocked grant of the proposer role to X (X proposes but cannot cancel)",
            "constructed without executors, then the executor role was granted to E through the timelock",
        ][s]
        .into()
    }

    fn fresh(&self, seed: usize) -> (Inst, Model) {
        let e = envx::mk_env(100);
        let p = Address::generate(&e);
        let ex = Address::generate(&e);
        let x = Address::generate(&e);
        for a in [&p, &ex, &x] {
            auth::back(&e, a);
        }
        let mut proposers = SVec::new(&e);
        proposers.push_back(p.clone());
        let mut executors: SVec<Address> = SVec::new(&e);
        if self.with_executor {
            executors.push_back(ex.clone());
        }
        let c = e.register(tlc::TimelockController, (2u32, proposers, executors, None::<Address>));
        let gov = e.register(tlw::Governed, (c.clone(),));
        let mut i = Inst { e, c, p, ex, x, gov, ids: Default::default() };
        // ids through the contract's own hash_operation; Delay5 first (Delay7's predecessor)
        let mut order = self.op_ids();
        order.sort_by_key(|o| (o.call == Call::Delay7AfterDelay5, *o));
        for op in order {
            let (f, args) = i.call_args(op.call);
            let target = if op.foreign { i.x.clone() } else { i.c.clone() };
            let a: SVec<Val> = (target, Symbol::new(&i.e, f), args, i.pred_of(op), salt(&i.e, op.salt)).into_val(&i.e);
            let v = view(&i.e, &i.c, "hash_operation", a).expect("hash_operation");
            let id = BytesN::<32>::try_from_val(&i.e, &v).unwrap();
            i.ids.insert(op, id);
        }
        if seed == 1 {
            let g = OpId { call: Call::GrantProposerX, salt: 1, foreign: false };
            let ex = if self.with_executor { Some(Who::E) } else { None };
            for op in [
                Op::Schedule { op: g, delay: 2, by: Who::P },
                Op::Advance(2),
                Op::Admin { call: Call::GrantProposerX, sig: Sig::List(vec![Meta { salt: 1, right_pred: true, executor: ex }]), executor_signs: ex },
            ] {
                assert!(self.exec(&i, &op), "seed step {op:?} refused");
            }
        }
        if seed == 2 {
            let g = OpId { call: Call::GrantExecutorE, salt: 1, foreign: false };
            for op in [
                Op::Schedule { op: g, delay: 2, by: Who::P },
                Op::Advance(2),
                Op::Admin { call: Call::GrantExecutorE, sig: Sig::List(vec![Meta { salt: 1, right_pred: true, executor: None }]), executor_signs: None },
            ] {
                assert!(self.exec(&i, &op), "seed step {op:?} refused");
            }
        }
        let m = self.observe(&i).expect("observe");
        (i, m)
    }

    fn ops(&self, _i: &Inst, m: &Model, _d: usize) -> Vec<Op> {
        let mut v = vec![];
        let th = self.thorough;
        for op in self.op_ids() {
            let mut delays = vec![m.min_delay, m.min_delay + 1];
            if m.min_delay > 0 {
                delays.insert(0, m.min_delay - 1);
            }
            if !th && matches!(op.call, Call::TransferAdminX | Call::CancelTransferX | Call::GrantExecutorE) {
                // quick: these are scheduled with the minimum delay only (the delay clause is decided on the other calls)
                delays = vec![m.min_delay];
            }
            if op.salt == 1 && !op.foreign && op.call == Call::Delay0 {
                // a delay whose ready ledger lies beyond u32::MAX (must saturate, never wrap into the past)
                delays.push(u32::MAX);
                delays.push(u32::MAX - 50);
                v.push(Op::ScheduleUnsigned { op, delay: m.min_delay });
                v.push(Op::CancelUnsigned { op });
            }
            for d in delays {
                for by in [Who::P, Who::X] {
                    v.push(Op::Schedule { op, delay: d, by });
                }
            }
            for by in [Who::P, Who::X] {
                v.push(Op::Cancel { op, by });
            }
        }
        v.push(Op::Advance(1));
        v.push(Op::Advance(2));
        v.push(Op::IdleProbe);
        for n in [0usize, 1, 2] {
            v.push(Op::ForeignDirect { n, ex: None, executor_signs: false });
        }
        v.push(Op::ForeignDirect { n: 1, ex: Some(Who::E), executor_signs: true });
        for grant in [true, false] {
            for role in if th { vec![Role::Proposer, Role::Canceller, Role::Executor] } else { vec![Role::Proposer, Role::Canceller] } {
                for caller in if self.with_executor { vec![Who::P, Who::X, Who::E] } else { vec![Who::P, Who::X] } {
                    v.push(Op::DirectRole { grant, role, caller });
                }
            }
        }
        let exec_choices: Vec<Option<Who>> = if self.with_executor { vec![None, Some(Who::E), Some(Who::X)] } else { vec![None] };
        for call in self.calls() {
            let mut sigs = vec![Sig::NoEntry, Sig::List(vec![])];
            let fields: Vec<Option<Who>> = if self.with_executor { vec![None, Some(Who::E), Some(Who::X)] } else { vec![None, Some(Who::X)] };
            for ex in &fields {
                let good = Meta { salt: 1, right_pred: true, executor: *ex };
                sigs.push(Sig::List(vec![good]));
                // the two admin-transfer calls get the short payload family in quick (the long family is
                // exercised on the other calls; what matters here is that the entry points are gated at all)
                let short = !th && matches!(call, Call::TransferAdminX | Call::CancelTransferX);
                if (ex.is_none() || *ex == Some(Who::E) || th) && !short {
                    sigs.push(Sig::List(vec![Meta { salt: 2, ..good }]));
                    sigs.push(Sig::List(vec![Meta { right_pred: false, ..good }]));
                    sigs.push(Sig::List(vec![good, good]));
                    let extra = if *call == Call::Delay5 { Call::Delay0 } else { Call::Delay5 };
                    sigs.push(Sig::TwoContexts { extra, meta: good });
                }
            }
            let extra = if *call == Call::Delay5 { Call::Delay0 } else { Call::Delay5 };
            if th || !matches!(call, Call::TransferAdminX | Call::CancelTransferX) {
                sigs.push(Sig::TwoContextsEmpty { extra });
            }
            for sig in sigs {
                for es in &exec_choices {
                    // the executor's entry only makes sense when a descriptor names somebody
                    let names = match &sig {
                        Sig::List(ms) => ms.iter().any(|m| m.executor.is_some()),
                        Sig::TwoContexts { meta, .. } => meta.executor.is_some(),
                        _ => false,
                    };
                    if es.is_some() && !names && !th {
                        continue;
                    }
                    v.push(Op::Admin { call: *call, sig: sig.clone(), executor_signs: *es });
                }
            }
        }
        v
    }

    fn kind(&self, op: &Op) -> String {
        match op {
            Op::Schedule { .. } => "schedule".into(),
            Op::Cancel { .. } => "cancel".into(),
            Op::ScheduleUnsigned { .. } | Op::CancelUnsigned { .. } => "schedule/cancel-without-authorization".into(),
            Op::Advance(_) => "advance".into(),
            Op::IdleProbe => "idle-probe".into(),
            Op::ForeignDirect { .. } => "direct-call-of-a-governed-contract".into(),
            Op::DirectRole { .. } => "direct-role-management".into(),
            Op::Admin { sig, .. } => match sig {
                Sig::NoEntry => "admin-call(no-entry)".into(),
                Sig::List(l) if l.is_empty() => "admin-call(empty-descriptors)".into(),
                Sig::List(l) if l.len() == 1 => "admin-call(one-descriptor)".into(),
                Sig::List(_) => "admin-call(two-descriptors)".into(),
                Sig::TwoContexts { .. } => "admin-call(two-contexts-one-descriptor)".into(),
                Sig::TwoContextsEmpty { .. } => "admin-call(two-contexts-empty)".into(),
            },
        }
    }

    fn apply(&self, i: &mut Inst, op: &Op) {
        self.exec(i, op);
    }
    fn atomic_on_refusal(&self, op: &Op) -> bool {
        !matches!(op, Op::Advance(_))
    }

    fn step(&self, i: &mut Inst, m: &mut Model, op: &Op, cx: &mut StepCtx<Self>) -> Result<bool, Violation> {
        let now = envx::now(&i.e);
        let pre = m.clone();
        {
            let mut seen: Vec<(&OpId, &BytesN<32>)> = vec![];
            for (o, id) in &i.ids {
                if let Some((o2, _)) = seen.iter().find(|(_, x)| *x == id) {
                    return Err(Violation::new(
                        "operation-id-binds-all-fields",
                        format!("operations {:?} and {:?} differ (target / function / arguments / predecessor / salt) but hash to the same id", o2, o),
                    ));
                }
                seen.push((o, id));
            }
        }
        if matches!(op, Op::IdleProbe) {
            let copy = cx.rebuild();
            envx::advance(&copy.e, 2_000_000);
            let o = self.observe(&copy)?;
            ensure!(o == *m, "state-survives-idle", "2000000 ledgers without any call changed the controller's state:\n     before {:?}\n     after  {:?}", m, o);
            cx.stats.count("idle-probes", 1);
            return Ok(false);
        }
        let ok = self.exec(i, op);
        if !ok {
            return Ok(false);
        }
        let ready = |st: &Model, o: OpId| -> bool {
            match st.ops.get(&o) {
                Some(OpState::Scheduled(l)) => {
                    now >= *l && (o.call != Call::Delay7AfterDelay5 || st.ops.get(&OpId { call: Call::Delay5, salt: 1, foreign: false }) == Some(&OpState::Done))
                }
                _ => false,
            }
        };
        let mut x = pre.clone();
        match op {
            Op::Advance(_) => {}
            Op::IdleProbe => unreachable!(),
            Op::ForeignDirect { .. } => {
                return Err(Violation::new(
                    "admin-call-without-ready-operation",
                    format!("{:?} went through: the controller's authorization was accepted for a call of another contract for which no operation was ever scheduled", op),
                ));
            }
            Op::Schedule { op: o, delay, by } => {
                ensure!(pre.proposers.contains(by), "schedule-role", "{:?} scheduled without the proposer role", by);
                ensure!(*delay >= pre.min_delay, "schedule-delay", "scheduled with delay {} < minimum {}", delay, pre.min_delay);
                ensure!(pre.ops[o] == OpState::Unset, "schedule-state", "re-scheduled {:?} in state {:?}", o, pre.ops[o]);
                x.ops.insert(*o, OpState::Scheduled(now.saturating_add(*delay)));
            }
            Op::ScheduleUnsigned { .. } | Op::CancelUnsigned { .. } => {
                return Err(Violation::new(
                    "role-account-authorization",
                    format!("{:?} took effect although the named proposer/canceller did not authorize the call", op),
                ));
            }
            Op::Cancel { op: o, by } => {
                ensure!(pre.cancellers.contains(by), "cancel-role", "{:?} cancelled without the canceller role", by);
                ensure!(matches!(pre.ops[o], OpState::Scheduled(_)), "cancel-state", "cancelled {:?} in state {:?}", o, pre.ops[o]);
                x.ops.insert(*o, OpState::Unset);
            }
            Op::DirectRole { grant, role, caller } => {
                // only the admin (the controller itself) or a holder of the role's admin role may
                // manage a role; the only role-admin relation ever configured here is
                // proposer <- executor (by the timelocked set_role_admin call)
                let permitted = *role == Role::Proposer && pre.proposer_role_admin && pre.executors.contains(caller);
                ensure!(
                    permitted,
                    "role-management-without-timelock",
                    "{:?} signed only by {:?} took effect although {:?} is neither the admin nor a holder of the role's admin role (no operation was consumed)",
                    op,
                    caller,
                    caller
                );
                let set = match role {
                    Role::Proposer => &mut x.proposers,
                    Role::Canceller => &mut x.cancellers,
                    Role::Executor => &mut x.executors,
                };
                if *grant {
                    if !set.contains(&Who::X) {
                        set.push(Who::X);
                        set.sort();
                    }
                } else {
                    set.retain(|w| *w != Who::P);
                }
            }
            Op::Admin { call, sig, executor_signs } => {
                ensure!(pre.admin_is_self, "admin-renounced", "{:?} succeeded after admin was renounced", call);
                // which scheduled operations stand for this very call?
                let candidates: Vec<OpId> = pre.ops.keys().filter(|o| o.call == *call && !o.foreign).cloned().collect();
                let consumed: Vec<OpId> = candidates.iter().filter(|o| ready(&pre, **o)).cloned().collect();
                ensure!(
                    !consumed.is_empty(),
                    "admin-call-without-ready-operation",
                    "{:?} took effect with payload {:?} although no operation for this call is ready (states: {:?})",
                    call,
                    sig,
                    candidates.iter().map(|o| (o.salt, pre.ops[o])).collect::<Vec<_>>()
                );
                // the descriptor decides which one; afterwards exactly that one must be Done
                let used_salt = match sig {
                    Sig::List(ms) => ms.first().map(|m| m.salt),
                    Sig::TwoContexts { meta, .. } => Some(meta.salt),
                    _ => None,
                };
                let Some(us) = used_salt else {
                    return Err(Violation::new("admin-call-without-descriptor", format!("{:?} took effect with payload {:?}", call, sig)));
                };
                let target = OpId { call: *call, salt: us, foreign: false };
                ensure!(consumed.contains(&target), "admin-call-wrong-operation", "{:?} consumed descriptor salt {} which is not a ready operation", call, us);
                x.ops.insert(target, OpState::Done);
                if !pre.executors.is_empty() {
                    let named = match sig {
                        Sig::List(ms) => ms.first().and_then(|m| m.executor),
                        Sig::TwoContexts { meta, .. } => meta.executor,
                        _ => None,
                    };
                    ensure!(
                        named.map(|w| pre.executors.contains(&w)).unwrap_or(false) && *executor_signs == named,
                        "executor-authorization",
                        "{:?} took effect with executors configured, descriptor names {:?}, authorization entry present for {:?}",
                        call,
                        named,
                        executor_signs
                    );
                }
                // effect of the call itself
                match call {
                    Call::Delay0 => x.min_delay = 0,
                    Call::Delay5 => x.min_delay = 5,
                    Call::Delay7AfterDelay5 => x.min_delay = 7,
                    Call::GrantProposerX => {
                        if !x.proposers.contains(&Who::X) {
                            x.proposers.push(Who::X);
                            x.proposers.sort();
                        }
                    }
                    Call::GrantExecutorE => {
                        if !x.executors.contains(&Who::E) {
                            x.executors.push(Who::E);
                            x.executors.sort();
                        }
                    }
                    Call::RevokeCancellerP => x.cancellers.retain(|w| *w != Who::P),
                    Call::Renounce => x.admin_is_self = false,
                    Call::SetRoleAdmin => x.proposer_role_admin = true,
                    Call::TransferAdminX | Call::CancelTransferX => {}
                }
            }
        }
        let post = self.observe(i)?;
        cx.stats.count("getter-comparisons", (4 * i.ids.len() + 12) as u64);
        ensure!(post == x, "lockstep", "after {:?}\n     expected {:?}\n     observed {:?}", op, x, post);
        *m = post;
        Ok(true)
    }

    fn key(&self, i: &Inst) -> [u8; 32] {
        envx::storage_digest(&i.e, true)
    }
    fn model_digest(&self, m: &Model) -> u64 {
        vh::engine::dig(m)
    }
}

fn main() {
    main_with(
        "C09",
        "model_checking",
        "level-BFS over schedule(op, delay in {min-1,min,min+1}, signer P|X) / cancel(op, signer) / advance(1|2) / end-to-end admin calls (update_delay, grant_role, revoke_role, renounce_admin, set_role_admin, transfer_admin_role, an update_delay with a predecessor) under enforcing authorization with crafted controller entries: no entry, [], [d], [d wrong salt], [d wrong predecessor], [d,d], two-context tree with one / zero descriptors, executor field none|E|X, executor entry present|absent; with and without a configured executor; every getter (operation states, min delay, roles, admin) compared after every accepted step",
        |tier: Tier, r: &mut Runner| {
            let th = tier == Tier::Thorough;
            for with_executor in [false, true] {
                r.world(&Tlc { with_executor, thorough: th }, &Bounds::new(tier.pick(4, 5), tier.pick(25, 280)));
            }
            if let Some(rep) = r.report() {
                rep.require(
                    &["schedule", "cancel", "admin-call(one-descriptor)"],
                    &[
                        "direct-role-management",
                        "schedule/cancel-without-authorization",
                        "schedule",
                        "cancel",
                        "admin-call(no-entry)",
                        "admin-call(empty-descriptors)",
                        "admin-call(one-descriptor)",
                        "admin-call(two-descriptors)",
                        "admin-call(two-contexts-one-descriptor)",
                        "admin-call(two-contexts-empty)",
                    ],
                );
                rep.require_counter(&["idle-probes"]);
            }
        },
    );
}
