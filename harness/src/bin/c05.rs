//! C05 — vault share accounting always rounds in the vault's favour.
//!
//! World: the `fungible-vault` example (compiled from /repo's working tree) over the `BaseTok`
//! wrapper as underlying asset, one world per decimals offset; users U1, U2 and a donor D.
//! All calls run under recording authorization (who may call is C02's subject).
//!
//! Oracles, all in exact big-integer arithmetic, written from the property statement:
//!  * every `preview_*` / `convert_*` getter equals `x·(S+10^o)/(A+1)` resp. `x·(A+1)/(S+10^o)`
//!    rounded in the stated direction, and fails exactly when that value does not fit `i128`;
//!  * the value an operation returns equals the preview taken immediately before, and equals the
//!    asset / share deltas observed on exactly the named parties (everything else unchanged,
//!    the operator's allowance reduced by exactly the amount moved);
//!  * the rate `(A+1)/(S+10^o)` never decreases (cross-multiplied), donations included;
//!  * rounding direction per entry point; withdraw / redeem above `max_*` refused, at it accepted;
//!  * deposit / withdraw events carry exactly what was moved;
//!  * "nobody takes out more than they put in", in the two tolerance-free forms of DESIGN §3 C05:
//!    (i) immediate round trips from every expanded state (leaf probes), (ii) acting-alone windows.
//!
//! Two kinds of operations never change the state and are therefore reported to the engine as
//! "state unchanged" (they show up in the `refused` column of the outcome histogram; their real
//! outcomes are in the `#roundtrip.* executed` / `#view-sweeps` counters): `Sweep` (getters only)
//! and `RoundTrip` (two real calls inside a host frame that is rolled back afterwards, so that
//! every probe starts from exactly the reached state; the engine re-checks the storage digest).
//!
//! Worlds per offset: `wide` = the full amount list on histories of length 2 from the seeds
//! {empty, donated} and {2^k deposited + donated}; `deep` = a narrow amount list (1, 7 / 1, 10^o+1 /
//! 1, max_withdraw / 1, max_redeem, donate 7) on histories of length 4 (quick) resp. 5 (thorough,
//! offsets 0, 1, 3, 10). Depth 3 with the full list is 0.8-1.6 M transitions per offset (the fan-out
//! of accepted calls is ~70; done in the thorough tier for offsets 0 and 3), which is why the long
//! histories use the narrow list.

use num_bigint::BigInt;
use soroban_sdk::testutils::Address as _;
use soroban_sdk::xdr::{ScAddress, ScVal};
use soroban_sdk::{Address, Env, IntoVal, String as SString, TryFromVal, Val, Vec as SVec};
use vh::auth::{call_mocked, view, CallErr};
use vh::cli::{main_with, Runner};
use vh::engine::{Bounds, StepCtx, Violation, World};
use vh::ensure;
use vh::envx;
use vh::ev::{last_events, Ev};
use vh::report::Tier;

#[path = "../shared/tokens.rs"]
mod tokens;
#[path = "/repo/examples/fungible-vault/src/contract.rs"]
mod vault_example;

/// parties: the two users, the donor, the vault itself
const U: usize = 2;
const D: usize = 2;
const V: usize = 3;
const NP: usize = 4;
const NAMES: [&str; NP] = ["U1", "U2", "D", "vault"];

#[derive(Clone, Copy, Debug, PartialEq, Eq, Hash)]
enum F {
    Deposit,
    Mint,
    Withdraw,
    Redeem,
}
const FS: [F; 4] = [F::Deposit, F::Mint, F::Withdraw, F::Redeem];

impl F {
    fn name(self) -> &'static str {
        match self {
            F::Deposit => "deposit",
            F::Mint => "mint",
            F::Withdraw => "withdraw",
            F::Redeem => "redeem",
        }
    }
    fn preview(self) -> &'static str {
        match self {
            F::Deposit => "preview_deposit",
            F::Mint => "preview_mint",
            F::Withdraw => "preview_withdraw",
            F::Redeem => "preview_redeem",
        }
    }
    /// the argument is an asset amount (deposit, withdraw) or a share amount (mint, redeem)
    fn takes_assets(self) -> bool {
        matches!(self, F::Deposit | F::Withdraw)
    }
    /// stated rounding direction of the *result*: the user receives less / pays more
    fn ceil(self) -> bool {
        matches!(self, F::Mint | F::Withdraw)
    }
    fn inbound(self) -> bool {
        matches!(self, F::Deposit | F::Mint)
    }
}

/// round-trip shapes: first leg, second leg (D = deposit, M = mint, W = withdraw, R = redeem)
#[derive(Clone, Copy, Debug, PartialEq, Eq)]
enum Shape {
    DR,
    DW,
    MR,
    MW,
    RD,
    RM,
    WD,
    WM,
}
const SHAPES: [Shape; 8] = [Shape::DR, Shape::DW, Shape::MR, Shape::MW, Shape::RD, Shape::RM, Shape::WD, Shape::WM];

impl Shape {
    fn legs(self) -> (F, F) {
        match self {
            Shape::DR => (F::Deposit, F::Redeem),
            Shape::DW => (F::Deposit, F::Withdraw),
            Shape::MR => (F::Mint, F::Redeem),
            Shape::MW => (F::Mint, F::Withdraw),
            Shape::RD => (F::Redeem, F::Deposit),
            Shape::RM => (F::Redeem, F::Mint),
            Shape::WD => (F::Withdraw, F::Deposit),
            Shape::WM => (F::Withdraw, F::Mint),
        }
    }
}

#[derive(Clone, Debug, PartialEq, Eq)]
enum Op {
    /// view-only: every conversion getter at every amount of the alphabet (plus two large
    /// arguments) and the two maxima of both users against the exact formula, in the current
    /// state. Changes nothing, hence reported to the engine as "state unchanged".
    Sweep,
    /// view-only, on a rebuilt copy of the state: let a long time pass (beyond the lifetime of any
    /// temporary entry) and repeat the sweep — balances, totals and every conversion must be the same
    IdleSweep,
    /// `f(a, receiver, owner_or_from, operator)`; `owner` provides the assets (deposit, mint) or
    /// owns the shares (withdraw, redeem)
    Call { f: F, owner: usize, operator: usize, receiver: usize, a: i128 },
    /// direct asset transfer donor -> vault
    Donate { a: i128 },
    /// leaf probe: `user` (operator = owner = receiver) performs the first leg with amount `a`
    /// and then tries to turn what was just obtained straight back
    RoundTrip { user: usize, shape: Shape, a: i128 },
}

#[derive(Clone, Debug, PartialEq, Eq, Hash)]
struct Obs {
    asset: [i128; NP],
    share: [i128; NP],
    supply: i128,
    /// asset allowance [owner][spender] between the two users
    a_allow: [[i128; U]; U],
    /// share allowance [owner][spender] between the two users
    s_allow: [[i128; U]; U],
}

#[derive(Clone, Debug)]
struct Model {
    obs: Obs,
    /// acting-alone window of each user: `Some(b)` = at some earlier state the user held no
    /// shares and had `b` assets, and since then only this user operated (operator = owner =
    /// receiver) and nothing was donated. Not a function of storage -> part of `model_key`.
    win: [Option<i128>; U],
}

struct VaultW {
    offset: u32,
    /// narrow alphabet (long interleavings) instead of the full one
    deep: bool,
    /// wide alphabet only: operator/receiver variants also with amount 1 resp. {1, 10^o+1}
    full: bool,
    /// which seed states this world starts from
    seeds: &'static [usize],
    tag: &'static str,
}

struct Inst {
    e: Env,
    vault: Address,
    asset: Address,
    p: [Address; NP],
    /// a contract without code or state of its own: round-trip probes run as its
    /// sub-invocations inside one frame that is rolled back afterwards
    prober: Address,
}

/// what a rolled-back round trip observed
struct Trip {
    v1: i128,
    a2: i128,
    r2: Result<i128, CallErr>,
    asset_after: Result<i128, CallErr>,
    share_after: Result<i128, CallErr>,
}

fn i128_of(e: &Env, v: Val) -> Option<i128> {
    i128::try_from_val(e, &v).ok()
}

fn big(x: i128) -> BigInt {
    BigInt::from(x)
}

fn fits(x: &BigInt) -> bool {
    *x <= big(i128::MAX) && *x >= big(i128::MIN)
}

fn pow10(o: u32) -> i128 {
    10i128.pow(o)
}

/// exact `x·num/den` for non-negative operands, rounded down or up
fn muldiv(x: i128, num: &BigInt, den: &BigInt, ceil: bool) -> BigInt {
    let p = big(x) * num;
    if ceil {
        (p + den - 1) / den
    } else {
        p / den
    }
}

fn dedup(xs: Vec<i128>) -> Vec<i128> {
    let mut out: Vec<i128> = vec![];
    for x in xs {
        if !out.contains(&x) {
            out.push(x);
        }
    }
    out
}

fn sc_i128(v: &ScVal) -> Option<i128> {
    match v {
        ScVal::I128(p) => Some(((p.hi as i128) << 64) | (p.lo as i128)),
        _ => None,
    }
}

/// (assets, shares) of a vault event: published layout = data [assets, shares]; the
/// `#[contractevent]` encoding of that is a map with these two field names
fn ev_amounts(ev: &Ev) -> Option<(i128, i128)> {
    match &ev.data {
        ScVal::Map(_) => Some((ev.field_i128("assets")?, ev.field_i128("shares")?)),
        ScVal::Vec(Some(v)) if v.len() == 2 => Some((sc_i128(&v[0])?, sc_i128(&v[1])?)),
        _ => None,
    }
}

impl VaultW {
    fn pow(&self) -> i128 {
        pow10(self.offset)
    }

    /// exponent of the big seed: assets ≈ 2^k, shares ≈ 2^k·10^o < 2^127
    fn big_k(&self) -> u32 {
        (120 - 4 * self.offset).min(100)
    }

    /// the two effective totals of the statement: (S + 10^o, A + 1)
    fn totals(&self, o: &Obs) -> (BigInt, BigInt) {
        (big(o.supply) + big(self.pow()), big(o.asset[V]) + 1)
    }

    fn to_shares(&self, o: &Obs, x: i128, ceil: bool) -> BigInt {
        let (s, a) = self.totals(o);
        muldiv(x, &s, &a, ceil)
    }

    fn to_assets(&self, o: &Obs, x: i128, ceil: bool) -> BigInt {
        let (s, a) = self.totals(o);
        muldiv(x, &a, &s, ceil)
    }

    /// exact value the statement prescribes for `preview_f(x)`
    fn exact_preview(&self, o: &Obs, f: F, x: i128) -> BigInt {
        if f.takes_assets() {
            self.to_shares(o, x, f.ceil())
        } else {
            self.to_assets(o, x, f.ceil())
        }
    }

    fn geti(&self, i: &Inst, c: &Address, f: &str, args: SVec<Val>) -> Result<i128, CallErr> {
        view(&i.e, c, f, args).and_then(|v| i128_of(&i.e, v).ok_or(CallErr::Other("not an i128".into())))
    }

    fn must(&self, i: &Inst, c: &Address, f: &str, args: SVec<Val>) -> Result<i128, Violation> {
        self.geti(i, c, f, args).map_err(|x| Violation::new("getter", format!("{f} failed: {x:?}")))
    }

    /// A conversion getter against the exact value: equal when it answers, and it fails exactly
    /// when the exact value does not fit i128 (the effective totals themselves always fit in
    /// this world). Returns the getter's answer.
    fn check_conv(&self, i: &Inst, o: &Obs, getter: &str, x: i128, exact: &BigInt, cx: &mut StepCtx<Self>) -> Result<Option<i128>, Violation> {
        let got = self.geti(i, &i.vault, getter, (x,).into_val(&i.e));
        cx.stats.count("conversion-getter-comparisons", 1);
        match got {
            Ok(v) => {
                ensure!(
                    big(v) == *exact,
                    "conversion-formula",
                    "{getter}({x}) = {v}, exact value is {exact} (total assets {}, total shares {}, offset {})",
                    o.asset[V],
                    o.supply,
                    self.offset
                );
                Ok(Some(v))
            }
            Err(err) => {
                let (st, at) = self.totals(o);
                ensure!(
                    !fits(exact) || !fits(&st) || !fits(&at),
                    "conversion-fails-only-on-overflow",
                    "{getter}({x}) failed with {err:?} although the exact value {exact} fits i128 (total assets {}, total shares {}, offset {})",
                    o.asset[V],
                    o.supply,
                    self.offset
                );
                cx.stats.count("conversion-refused-because-result-exceeds-i128", 1);
                Ok(None)
            }
        }
    }

    /// all six conversion getters at `x`
    fn sweep(&self, i: &Inst, o: &Obs, x: i128, cx: &mut StepCtx<Self>) -> Result<(), Violation> {
        for f in FS {
            self.check_conv(i, o, f.preview(), x, &self.exact_preview(o, f, x), cx)?;
        }
        self.check_conv(i, o, "convert_to_shares", x, &self.to_shares(o, x, false), cx)?;
        self.check_conv(i, o, "convert_to_assets", x, &self.to_assets(o, x, false), cx)?;
        Ok(())
    }

    fn observe(&self, i: &Inst) -> Result<Obs, Violation> {
        let e = &i.e;
        let mut o = Obs {
            asset: [0; NP],
            share: [0; NP],
            supply: self.must(i, &i.vault, "total_supply", SVec::new(e))?,
            a_allow: [[0; U]; U],
            s_allow: [[0; U]; U],
        };
        for k in 0..NP {
            o.asset[k] = self.must(i, &i.asset, "balance", (i.p[k].clone(),).into_val(e))?;
            o.share[k] = self.must(i, &i.vault, "balance", (i.p[k].clone(),).into_val(e))?;
        }
        for a in 0..U {
            for b in 0..U {
                if a != b {
                    o.a_allow[a][b] = self.must(i, &i.asset, "allowance", (i.p[a].clone(), i.p[b].clone()).into_val(e))?;
                    o.s_allow[a][b] = self.must(i, &i.vault, "allowance", (i.p[a].clone(), i.p[b].clone()).into_val(e))?;
                }
            }
        }
        let ta = self.must(i, &i.vault, "total_assets", SVec::new(e))?;
        ensure!(ta == o.asset[V], "total-assets", "total_assets() = {ta} but the vault holds {} of the asset", o.asset[V]);
        ensure!(o.asset.iter().chain(o.share.iter()).all(|x| *x >= 0) && o.supply >= 0, "non-negative", "{:?}", o);
        Ok(o)
    }

    /// (max_withdraw, max_redeem) of a user as the vault reports them
    fn maxima(&self, i: &Inst, u: usize) -> Result<(i128, i128), Violation> {
        Ok((
            self.must(i, &i.vault, "max_withdraw", (i.p[u].clone(),).into_val(&i.e))?,
            self.must(i, &i.vault, "max_redeem", (i.p[u].clone(),).into_val(&i.e))?,
        ))
    }

    /// amounts of the alphabet in the current state (for the view sweep)
    fn sweep_amounts(&self, mx: &[(i128, i128); U]) -> Vec<i128> {
        let mut am = vec![0, 1, 2, 3, 7, 10, self.pow() + 1];
        for (mw, mr) in mx {
            am.extend([*mw, mw.saturating_add(1), *mr, mr.saturating_add(1)]);
        }
        am.extend([(1i128 << 100) + 1, i128::MAX]);
        dedup(am)
    }

    fn step_sweep(&self, i: &Inst, m: &Model, cx: &mut StepCtx<Self>) -> Result<bool, Violation> {
        let o = &m.obs;
        let mut mx = [(0, 0); U];
        for u in 0..U {
            mx[u] = self.maxima(i, u)?;
            let (mw, mr) = mx[u];
            // the maxima bound what an owner can take: never more than the owner's shares are worth
            ensure!(mr >= 0 && mr <= o.share[u], "max-bounds-owner", "max_redeem({}) = {mr} exceeds the share balance {}", NAMES[u], o.share[u]);
            let worth = self.to_assets(o, o.share[u], false);
            ensure!(
                mw >= 0 && big(mw) <= worth,
                "max-bounds-owner",
                "max_withdraw({}) = {mw} exceeds floor(value of {} shares) = {worth} (total assets {}, total shares {})",
                NAMES[u],
                o.share[u],
                o.asset[V],
                o.supply
            );
            if mr == o.share[u] && big(mw) == worth {
                cx.stats.count("maxima-equal-owner's-entitlement", 1);
            }
        }
        for x in self.sweep_amounts(&mx) {
            self.sweep(i, o, x, cx)?;
        }
        cx.stats.count("view-sweeps", 1);
        Ok(false)
    }

    fn args(&self, i: &Inst, a: i128, receiver: usize, owner: usize, operator: usize) -> SVec<Val> {
        (a, i.p[receiver].clone(), i.p[owner].clone(), i.p[operator].clone()).into_val(&i.e)
    }

    fn call(&self, i: &Inst, f: F, owner: usize, operator: usize, receiver: usize, a: i128) -> Result<i128, CallErr> {
        call_mocked(&i.e, &i.vault, f.name(), self.args(i, a, receiver, owner, operator))
            .and_then(|v| i128_of(&i.e, v).ok_or(CallErr::Other("return value is not an i128".into())))
    }

    fn donate(&self, i: &Inst, a: i128) -> bool {
        call_mocked(&i.e, &i.asset, "transfer", (i.p[D].clone(), i.p[V].clone(), a).into_val(&i.e)).is_ok()
    }

    /// second-leg amount of a round trip: exactly what the first leg produced, or one more asset
    /// than it cost
    fn second_amount(shape: Shape, a: i128, v1: i128) -> i128 {
        match shape {
            Shape::DR => v1,                   // redeem the shares just obtained
            Shape::DW => a.saturating_add(1),  // withdraw one more asset than just paid
            Shape::MR => a,                    // redeem the shares just minted
            Shape::MW => v1.saturating_add(1), // withdraw one more asset than just paid
            Shape::RD => v1,                   // deposit the assets just received
            Shape::RM => a,                    // mint back the shares just burned
            Shape::WD => a,                    // deposit the assets just withdrawn
            Shape::WM => v1,                   // mint back the shares just burned
        }
    }

    fn exec(&self, i: &Inst, op: &Op) -> bool {
        match op {
            Op::Call { f, owner, operator, receiver, a } => self.call(i, *f, *owner, *operator, *receiver, *a).is_ok(),
            Op::Donate { a } => self.donate(i, *a),
            Op::Sweep | Op::IdleSweep => false,
            Op::RoundTrip { user, shape, a } => {
                let _ = self.trip(i, *user, *shape, *a);
                false
            }
        }
    }

    fn windows_from(o: &Obs, prev: [Option<i128>; U]) -> [Option<i128>; U] {
        let mut w = prev;
        for x in 0..U {
            if o.share[x] == 0 {
                w[x] = Some(o.asset[x]);
            }
        }
        w
    }

    /// no vault deposit/withdraw event may survive a refused call
    fn vault_events(&self, i: &Inst, raw: &[Ev]) -> Vec<Ev> {
        raw.iter().filter(|ev| ev.contract.as_ref() == Some(&i.vault) && (ev.name == "deposit" || ev.name == "withdraw")).cloned().collect()
    }

    fn step_call(&self, i: &mut Inst, m: &mut Model, op: &Op, cx: &mut StepCtx<Self>) -> Result<bool, Violation> {
        let Op::Call { f, owner, operator, receiver, a } = op.clone() else { unreachable!() };
        let pre = m.obs.clone();
        // --- previews / conversions in the state immediately before the operation
        let exact = self.exact_preview(&pre, f, a);
        let pv = self.check_conv(i, &pre, f.preview(), a, &exact, cx)?;
        if f.takes_assets() {
            self.check_conv(i, &pre, "convert_to_shares", a, &self.to_shares(&pre, a, false), cx)?;
        } else {
            self.check_conv(i, &pre, "convert_to_assets", a, &self.to_assets(&pre, a, false), cx)?;
        }
        let max_pre = match f {
            F::Withdraw => Some(self.maxima(i, owner)?.0),
            F::Redeem => Some(self.maxima(i, owner)?.1),
            _ => None,
        };
        // --- the operation itself
        let res = self.call(i, f, owner, operator, receiver, a);
        let raw = last_events(&i.e);
        let ret = match res {
            Err(err) => {
                let evs = self.vault_events(i, &raw);
                ensure!(evs.is_empty(), "events-of-refused-call", "refused {:?} left events {:?}", op, evs);
                // at the maximum accepted, when nothing else forbids: the shares to burn are
                // computable and the operator may spend them
                if let (Some(mx), Some(shares)) = (max_pre, pv) {
                    let shares = if f == F::Withdraw { shares } else { a };
                    let allowed = operator == owner || pre.s_allow[owner][operator] >= shares;
                    ensure!(
                        !(a == mx && mx > 0 && allowed),
                        "maximum-accepted",
                        "{:?} refused ({err:?}) although the amount equals {}({}) = {mx} and the operator may spend the {shares} shares",
                        op,
                        if f == F::Withdraw { "max_withdraw" } else { "max_redeem" },
                        NAMES[owner]
                    );
                }
                if max_pre.map(|mx| a > mx).unwrap_or(false) {
                    cx.stats.count("above-maximum-refused", 1);
                }
                return Ok(false);
            }
            Ok(v) => v,
        };
        // --- return value = preview taken immediately before
        ensure!(
            pv == Some(ret),
            "return=preview",
            "{:?} returned {ret} but {}({a}) immediately before said {:?} (exact {exact})",
            op,
            f.preview(),
            pv
        );
        if let Some(mx) = max_pre {
            ensure!(a <= mx, "above-maximum-refused", "{:?} accepted although the owner's maximum was {mx}", op);
            if a == mx {
                cx.stats.count("at-maximum-accepted", 1);
            }
        }
        // (assets moved, shares moved)
        let (x, y) = if f.takes_assets() { (a, ret) } else { (ret, a) };
        ensure!(x >= 0 && y >= 0, "non-negative", "{:?} moved {x} assets / {y} shares", op);
        // --- rounding direction against the exact pre-state rate (cross-multiplied)
        {
            let (s, at) = self.totals(&pre);
            let lhs = big(y) * &at; // value of the shares moved, in units of 1/(S+10^o)
            let rhs = big(x) * &s; // value of the assets moved
            match f {
                F::Deposit | F::Withdraw => {
                    // deposit: shares received <= exact; withdraw: shares burned >= exact
                    let ok = if f == F::Deposit { lhs <= rhs } else { lhs >= rhs };
                    ensure!(ok, "rounding-direction", "{:?}: {y} shares for {x} assets is rounded against the vault (total assets {}, total shares {})", op, pre.asset[V], pre.supply);
                }
                F::Mint | F::Redeem => {
                    // mint: assets paid >= exact; redeem: assets received <= exact
                    let ok = if f == F::Mint { rhs >= lhs } else { rhs <= lhs };
                    ensure!(ok, "rounding-direction", "{:?}: {x} assets for {y} shares is rounded against the vault (total assets {}, total shares {})", op, pre.asset[V], pre.supply);
                }
            }
        }
        // --- exact movement between exactly the named parties
        let post = self.observe(i)?;
        cx.stats.count("balance-getter-comparisons", 14);
        let mut exp = pre.clone();
        let mut bad = false;
        {
            let mut mv = |slot: &mut i128, d: i128, plus: bool| match if plus { slot.checked_add(d) } else { slot.checked_sub(d) } {
                Some(v) => *slot = v,
                None => bad = true,
            };
            if f.inbound() {
                mv(&mut exp.asset[owner], x, false);
                mv(&mut exp.asset[V], x, true);
                mv(&mut exp.share[receiver], y, true);
                mv(&mut exp.supply, y, true);
                if operator != owner {
                    mv(&mut exp.a_allow[owner][operator], x, false);
                }
            } else {
                mv(&mut exp.share[owner], y, false);
                mv(&mut exp.supply, y, false);
                mv(&mut exp.asset[V], x, false);
                mv(&mut exp.asset[receiver], x, true);
                if operator != owner {
                    mv(&mut exp.s_allow[owner][operator], y, false);
                }
            }
        }
        ensure!(!bad, "exact-movement", "{:?}: moving {x} assets / {y} shares overflows a balance of {:?}", op, pre);
        self.compare_movement(op, &exp, &post, x, y)?;
        self.rate_monotone(op, &pre, &post)?;
        // --- event carries exactly what was moved
        {
            let evs = self.vault_events(i, &raw);
            let want = if f.inbound() { "deposit" } else { "withdraw" };
            ensure!(evs.len() == 1 && evs[0].name == want, "event", "{:?} emitted {:?}", op, evs.iter().map(|e| e.name.clone()).collect::<Vec<_>>());
            let ev = &evs[0];
            let who = |k: usize| ev.topic_addr(&i.e, k).and_then(|a| i.p.iter().position(|p| *p == a));
            let named = [who(1), who(2), who(3)];
            let expect = if f.inbound() { [Some(operator), Some(owner), Some(receiver)] } else { [Some(operator), Some(receiver), Some(owner)] };
            ensure!(
                ev.topics.len() == 4 && named == expect,
                "event",
                "{:?}: {want} event names parties {:?}, expected {:?} (operator, {})",
                op,
                named,
                expect,
                if f.inbound() { "from, receiver" } else { "receiver, owner" }
            );
            let amounts = ev_amounts(ev);
            ensure!(amounts == Some((x, y)), "event", "{:?}: {want} event carries (assets, shares) = {:?}, moved ({x}, {y})", op, amounts);
            cx.stats.count("events-checked", 1);
        }
        // --- acting alone: cumulative assets out <= cumulative assets in
        let solo = if owner == operator && owner == receiver { Some(owner) } else { None };
        for u in 0..U {
            if Some(u) != solo {
                m.win[u] = None;
            }
        }
        if let Some(u) = solo {
            if let Some(b0) = m.win[u] {
                ensure!(
                    post.asset[u] <= b0,
                    "acting-alone-no-profit",
                    "{} held no shares and {b0} assets when it started to act alone; after {:?} it holds {} assets",
                    NAMES[u],
                    op,
                    post.asset[u]
                );
                cx.stats.count("acting-alone-checks", 1);
            }
            // a single operation never leaves its only party weakly better off in both assets
            // and shares and strictly better off in one
            let (da, ds) = (big(post.asset[u]) - big(pre.asset[u]), big(post.share[u]) - big(pre.share[u]));
            let zero = big(0);
            ensure!(!(da >= zero && ds >= zero && (da > zero || ds > zero)), "no-free-lunch", "{:?} changed {}'s assets by {da} and shares by {ds}", op, NAMES[u]);
        }
        m.win = Self::windows_from(&post, m.win);
        m.obs = post;
        Ok(true)
    }

    fn compare_movement(&self, op: &Op, exp: &Obs, post: &Obs, x: i128, y: i128) -> Result<(), Violation> {
        for k in 0..NP {
            ensure!(post.asset[k] == exp.asset[k], "exact-movement", "{:?} (moved {x} assets / {y} shares): asset balance of {} is {}, expected {}", op, NAMES[k], post.asset[k], exp.asset[k]);
            ensure!(post.share[k] == exp.share[k], "exact-movement", "{:?} (moved {x} assets / {y} shares): share balance of {} is {}, expected {}", op, NAMES[k], post.share[k], exp.share[k]);
        }
        ensure!(post.supply == exp.supply, "exact-movement", "{:?} (moved {x} assets / {y} shares): total shares {}, expected {}", op, post.supply, exp.supply);
        for a in 0..U {
            for b in 0..U {
                ensure!(post.a_allow[a][b] == exp.a_allow[a][b], "exact-allowance", "{:?} (moved {x} assets): asset allowance {}->{} is {}, expected {}", op, NAMES[a], NAMES[b], post.a_allow[a][b], exp.a_allow[a][b]);
                ensure!(post.s_allow[a][b] == exp.s_allow[a][b], "exact-allowance", "{:?} (moved {y} shares): share allowance {}->{} is {}, expected {}", op, NAMES[a], NAMES[b], post.s_allow[a][b], exp.s_allow[a][b]);
            }
        }
        Ok(())
    }

    fn rate_monotone(&self, op: &Op, pre: &Obs, post: &Obs) -> Result<(), Violation> {
        let (s0, a0) = self.totals(pre);
        let (s1, a1) = self.totals(post);
        ensure!(
            &a1 * &s0 >= &a0 * &s1,
            "rate-monotone",
            "{:?}: rate (A+1)/(S+10^{}) fell from {}/{} to {}/{}",
            op,
            self.offset,
            a0,
            s0,
            a1,
            s1
        );
        Ok(())
    }

    fn step_donate(&self, i: &mut Inst, m: &mut Model, op: &Op, a: i128) -> Result<bool, Violation> {
        let pre = m.obs.clone();
        if !self.donate(i, a) {
            return Ok(false);
        }
        let post = self.observe(i)?;
        let mut exp = pre.clone();
        exp.asset[D] -= a;
        exp.asset[V] += a;
        self.compare_movement(op, &exp, &post, a, 0)?;
        self.rate_monotone(op, &pre, &post)?;
        m.win = Self::windows_from(&post, [None; U]);
        m.obs = post;
        Ok(true)
    }

    /// `user` performs the two legs of `shape` as consecutive calls; whatever happens is rolled
    /// back, so that every probe starts from exactly the reached state (and costs no rebuild).
    /// Mechanism: the calls are sub-invocations of a test frame of the `prober` contract whose
    /// closure finally reports an error; the host rolls a failed frame back completely (the
    /// engine re-checks this: the storage digest must be unchanged). Results are carried out in
    /// Rust variables. `None` = the first leg was refused.
    fn trip(&self, i: &Inst, u: usize, shape: Shape, a: i128) -> Option<Trip> {
        let e = &i.e;
        let (f1, f2) = shape.legs();
        e.mock_all_auths_allowing_non_root_auth();
        let id = match vh::auth::sc(&i.prober) {
            ScAddress::Contract(c) => c,
            _ => unreachable!(),
        };
        let mut out: Option<Trip> = None;
        let leg = |f: F, x: i128| -> Result<i128, CallErr> {
            view(e, &i.vault, f.name(), self.args(i, x, u, u, u)).and_then(|v| i128_of(e, v).ok_or(CallErr::Other("return value is not an i128".into())))
        };
        let res = e.host().with_test_contract_frame(id, soroban_env_host::Symbol::try_from_small_str("probe").expect("symbol"), || {
            if let Ok(v1) = leg(f1, a) {
                let a2 = Self::second_amount(shape, a, v1);
                let r2 = leg(f2, a2);
                out = Some(Trip {
                    v1,
                    a2,
                    r2,
                    asset_after: self.geti(i, &i.asset, "balance", (i.p[u].clone(),).into_val(e)),
                    share_after: self.geti(i, &i.vault, "balance", (i.p[u].clone(),).into_val(e)),
                });
            }
            Err(soroban_env_host::HostError::from(soroban_env_host::Error::from_contract_error(0xC05)))
        });
        assert!(res.is_err(), "probe frame must fail in order to be rolled back");
        out
    }

    fn step_roundtrip(&self, i: &mut Inst, m: &mut Model, op: &Op, cx: &mut StepCtx<Self>) -> Result<bool, Violation> {
        let Op::RoundTrip { user, shape, a } = op.clone() else { unreachable!() };
        let u = user;
        let Some(t) = self.trip(i, u, shape, a) else {
            cx.stats.count(&format!("roundtrip.{shape:?} first leg refused"), 1);
            return Ok(false);
        };
        let (v1, a2) = (t.v1, t.a2);
        cx.stats.count(&format!("roundtrip.{shape:?} executed"), 1);
        cx.stats.count(if t.r2.is_ok() { "roundtrip-second-leg-accepted" } else { "roundtrip-second-leg-refused" }, 1);
        if let Ok(v2) = t.r2 {
            // (what the statement calls "take out" vs "put in", per shape)
            let (ok, what) = match shape {
                Shape::DR => (v2 <= a, format!("deposited {a} assets for {v1} shares, redeemed them for {v2} assets")),
                Shape::DW => (v2 > v1, format!("deposited {a} assets for {v1} shares, then withdrew {a2} assets for only {v2} shares")),
                Shape::MR => (v2 <= v1, format!("minted {a} shares for {v1} assets, redeemed them for {v2} assets")),
                Shape::MW => (v2 > a, format!("minted {a} shares for {v1} assets, then withdrew {a2} assets for only {v2} shares")),
                Shape::RD => (v2 <= a, format!("redeemed {a} shares for {v1} assets, deposited these for {v2} shares")),
                Shape::RM => (v2 >= v1, format!("redeemed {a} shares for {v1} assets, minted {a} shares back for {v2} assets")),
                Shape::WD => (v2 <= v1, format!("withdrew {a} assets for {v1} shares, deposited {a} assets back for {v2} shares")),
                Shape::WM => (v2 >= a, format!("withdrew {a} assets for {v1} shares, minted {v1} shares back for {v2} assets")),
            };
            ensure!(ok, "round-trip-no-profit", "{} {what} (state before: total assets {}, total shares {}, offset {})", NAMES[u], m.obs.asset[V], m.obs.supply, self.offset);
        }
        // observed balances: never weakly better in both and strictly better in one
        let asset_after = t.asset_after.map_err(|x| Violation::new("getter", format!("asset balance: {x:?}")))?;
        let share_after = t.share_after.map_err(|x| Violation::new("getter", format!("share balance: {x:?}")))?;
        let (da, ds) = (big(asset_after) - big(m.obs.asset[u]), big(share_after) - big(m.obs.share[u]));
        let zero = big(0);
        ensure!(
            !(da >= zero && ds >= zero && (da > zero || ds > zero)),
            "round-trip-no-profit",
            "{:?}: {}'s assets changed by {da} and shares by {ds} (state before: total assets {}, total shares {}, offset {})",
            op,
            NAMES[u],
            m.obs.asset[V],
            m.obs.supply,
            self.offset
        );
        cx.stats.count("roundtrip-balance-checks", 1);
        // rolled back: the state is the one before the probe
        Ok(false)
    }
}

impl World for VaultW {
    type Op = Op;
    type Model = Model;
    type Inst = Inst;

    fn name(&self) -> String {
        format!("vault-offset{}-{}", self.offset, self.tag)
    }
    fn seeds(&self) -> usize {
        self.seeds.len()
    }
    fn seed_name(&self, s: usize) -> String {
        match self.seeds[s] {
            0 => "empty".to_string(),
            1 => "3 assets donated to the empty vault".to_string(),
            _ => format!("U1 deposited 2^{k}-7, then 2^{}+3 donated", self.big_k() - 2, k = self.big_k()),
        }
    }

    fn fresh(&self, seed: usize) -> (Inst, Model) {
        let seed = self.seeds[seed];
        let e = envx::mk_env(100);
        let p = [Address::generate(&e), Address::generate(&e), Address::generate(&e)];
        let asset = e.register(tokens::BaseTok, ());
        let vault = e.register(vault_example::ExampleContract, (SString::from_str(&e, "n"), SString::from_str(&e, "s"), asset.clone(), self.offset));
        let [u1, u2, d] = p;
        let prober = Address::generate(&e);
        vh::auth::back(&e, &prober);
        let inst = Inst { e, vault: vault.clone(), asset, p: [u1, u2, d, vault], prober };
        let e = &inst.e;
        let pw = self.pow();
        let k = self.big_k();
        let small = 4 * pw + 100;
        let (fund, a_allow, s_allow) = if seed == 2 { ((1i128 << k) + small, 1i128 << 120, 1i128 << 120) } else { (small, 20, 20 * pw) };
        // (the narrow alphabet has no operator != owner calls: no allowances needed there)
        let pairs: &[(usize, usize)] = if self.deep { &[] } else { &[(0, 1), (1, 0)] };
        for x in [0, 1, D] {
            call_mocked(e, &inst.asset, "mint", (inst.p[x].clone(), fund).into_val(e)).expect("fund");
        }
        let live = envx::now(e) + 1000;
        for &(a, b) in pairs {
            call_mocked(e, &inst.asset, "approve", (inst.p[a].clone(), inst.p[b].clone(), a_allow, live).into_val(e)).expect("asset approve");
            call_mocked(e, &inst.vault, "approve", (inst.p[a].clone(), inst.p[b].clone(), s_allow, live).into_val(e)).expect("share approve");
        }
        match seed {
            0 => {}
            1 => assert!(self.donate(&inst, 3), "seed donation"),
            _ => {
                self.call(&inst, F::Deposit, 0, 0, 0, (1i128 << k) - 7).expect("seed deposit");
                assert!(self.donate(&inst, (1i128 << (k - 2)) + 3), "seed donation");
            }
        }
        let obs = self.observe(&inst).unwrap_or_else(|v| panic!("seed state: {} {}", v.oracle, v.detail));
        let win = Self::windows_from(&obs, [None; U]);
        (inst, Model { obs, win })
    }

    fn ops(&self, i: &Inst, _m: &Model, _depth: usize) -> Vec<Op> {
        let pw1 = self.pow() + 1;
        // state-relative amounts: the maxima as the vault reports them (a failing getter is
        // reported by the sweep, which runs first)
        let mx: Vec<(i128, i128)> = (0..U).map(|u| self.maxima(i, u).unwrap_or((0, 0))).collect();
        let mut v = vec![Op::Sweep, Op::IdleSweep];
        if self.deep {
            // narrow alphabet for long interleavings
            for owner in 0..U {
                let (mw, mr) = mx[owner];
                for f in FS {
                    let am = match f {
                        F::Deposit => vec![1, 7],
                        F::Mint => vec![1, pw1],
                        F::Withdraw => vec![1, mw],
                        F::Redeem => vec![1, mr],
                    };
                    for a in dedup(am) {
                        v.push(Op::Call { f, owner, operator: owner, receiver: owner, a });
                    }
                }
            }
            v.push(Op::Donate { a: 7 });
            for user in 0..U {
                let (mw, mr) = mx[user];
                for shape in SHAPES {
                    // paying in first does not depend on who does it (only on the totals):
                    // U1 only; taking out first depends on the holder: both users
                    if shape.legs().0.inbound() && user != 0 {
                        continue;
                    }
                    let a = match shape.legs().0 {
                        F::Deposit => 7,
                        F::Mint => pw1,
                        F::Redeem => mr,
                        F::Withdraw => mw,
                    };
                    if a > 0 {
                        v.push(Op::RoundTrip { user, shape, a });
                    }
                }
            }
            return v;
        }
        // operator = owner = receiver, the full amount list
        for owner in 0..U {
            let (mw, mr) = mx[owner];
            for f in FS {
                // (i128::MAX: the operation must fail whenever its preview does)
                let am = vec![0, 1, 2, 3, 7, 10, pw1, mw, mw.saturating_add(1), mr, mr.saturating_add(1), i128::MAX];
                for a in dedup(am) {
                    v.push(Op::Call { f, owner, operator: owner, receiver: owner, a });
                }
            }
        }
        v.push(Op::Donate { a: 1 });
        v.push(Op::Donate { a: 7 });
        if pw1 != 7 {
            v.push(Op::Donate { a: pw1 });
        }
        // operator != owner and/or receiver != owner
        for owner in 0..U {
            let other = 1 - owner;
            let (mw, mr) = mx[owner];
            for (operator, receiver) in [(other, owner), (owner, other), (other, other)] {
                for f in FS {
                    let mut am = match f {
                        F::Deposit | F::Mint => vec![7],
                        F::Withdraw => vec![mw, mw.saturating_add(1)],
                        F::Redeem => vec![mr, mr.saturating_add(1)],
                    };
                    if self.full {
                        am.push(1);
                        if f.inbound() {
                            am.push(pw1);
                        }
                    }
                    for a in dedup(am) {
                        v.push(Op::Call { f, owner, operator, receiver, a });
                    }
                }
            }
        }
        // round-trip probes (leaves)
        for user in 0..U {
            let (mw, mr) = mx[user];
            for shape in SHAPES {
                let am = match shape.legs().0 {
                    F::Deposit | F::Mint => vec![1, 7, pw1],
                    F::Redeem => vec![1, 7, mr],
                    F::Withdraw => vec![1, 7, mw],
                };
                for a in dedup(am) {
                    if a > 0 {
                        v.push(Op::RoundTrip { user, shape, a });
                    }
                }
            }
        }
        v
    }

    fn kind(&self, op: &Op) -> String {
        match op {
            Op::Call { f, owner, operator, receiver, .. } => {
                format!("{}{}{}", f.name(), if operator != owner { ".via-operator" } else { "" }, if receiver != owner { ".to-other" } else { "" })
            }
            Op::Donate { .. } => "donate".into(),
            Op::Sweep => "view-sweep".into(),
            Op::IdleSweep => "view-sweep-after-long-idle".into(),
            Op::RoundTrip { shape, .. } => format!("roundtrip.{:?}", shape),
        }
    }

    fn apply(&self, i: &mut Inst, op: &Op) {
        self.exec(i, op);
    }

    fn leaf_only(&self, op: &Op) -> bool {
        matches!(op, Op::RoundTrip { .. })
    }

    fn step(&self, i: &mut Inst, m: &mut Model, op: &Op, cx: &mut StepCtx<Self>) -> Result<bool, Violation> {
        match op {
            Op::Call { .. } => self.step_call(i, m, op, cx),
            Op::Donate { a } => self.step_donate(i, m, op, *a),
            Op::Sweep => self.step_sweep(i, m, cx),
            Op::IdleSweep => {
                let copy = cx.rebuild();
                envx::advance(&copy.e, 600_000);
                let o = self.observe(&copy)?;
                ensure!(
                    o.asset == m.obs.asset && o.share == m.obs.share && o.supply == m.obs.supply,
                    "state-survives-idle",
                    "600000 ledgers without any call changed balances or totals: before {:?}, after {:?}",
                    m.obs,
                    o
                );
                // allowances may have expired meanwhile (C02's subject); conversions depend on totals only
                let mut m2 = m.clone();
                m2.obs = o;
                self.step_sweep(&copy, &m2, cx)?;
                cx.stats.count("view-sweeps-after-long-idle", 1);
                Ok(false)
            }
            Op::RoundTrip { .. } => self.step_roundtrip(i, m, op, cx),
        }
    }

    fn key(&self, i: &Inst) -> [u8; 32] {
        envx::storage_digest(&i.e, false)
    }

    fn model_digest(&self, m: &Model) -> u64 {
        vh::engine::dig(&m.obs)
    }

    fn model_key(&self, m: &Model) -> u64 {
        vh::engine::dig(&m.win)
    }
}

const SMALL: &[usize] = &[0, 1];
const HUGE: &[usize] = &[2];

fn main() {
    main_with(
        "C05",
        "model_checking",
        "level-BFS over histories of the real fungible-vault example (over a Base asset; users U1,U2, donor D) per decimals offset o; seeds {empty, 3 assets donated to the empty vault} and {U1 deposited 2^k-7 then 2^(k-2)+3 donated, k=min(100,120-4o): products exceed i128}. WIDE worlds (depth 2; thorough also depth 3 for o in {0,3} from the first seed pair): deposit/mint/withdraw/redeem with operator=owner=receiver and amounts {0,1,2,3,7,10,10^o+1,max_withdraw(+1),max_redeem(+1),i128::MAX}, operator!=owner (asset/share allowances) and/or receiver!=owner with {7 | max,max+1} (thorough: also 1, 10^o+1), donations {1,7,10^o+1}. DEEP worlds (depth 4; thorough 5 for o in {0,1,3,10}; big seed one less): deposit{1,7} mint{1,10^o+1} withdraw{1,max} redeem{1,max} per user, donate 7. Every call: preview and convert getter at the amount vs exact big-integer formula (fails iff result exceeds i128), return = preview, exact asset/share/allowance movement on exactly the named parties, rate (A+1)/(S+10^o) non-decreasing (cross-multiplied), rounding direction, above max refused / at max accepted, event contents, acting-alone windows. Every expanded state: all six conversion getters at every alphabet amount + 2^100+1 + i128::MAX, maxima <= owner's entitlement, and 8 round-trip shapes (real calls, rolled back) per user and amount. non-trivial = distinct (storage, acting-alone window) state reached through >=1 accepted call",
        |tier: Tier, r: &mut Runner| {
            let th = tier == Tier::Thorough;
            let mut offsets: Vec<u32> = tier.pick(vec![0, 1, 3, 10], (0..=10).collect());
            // developer knobs (calibration / sensitivity runs only): C05_OFFSETS=3,10 C05_BUDGET=3600 C05_ONLY=<part of a world name>
            if let Ok(x) = std::env::var("C05_OFFSETS") {
                offsets = x.split(',').filter_map(|s| s.parse().ok()).collect();
            }
            // one wall-clock budget for the whole tier, handed to each world as what is left of it
            // (calibration, 16 idle cores: quick ~20 s, thorough ~4.5 min)
            let t0 = std::time::Instant::now();
            let budget: u64 = std::env::var("C05_BUDGET").ok().and_then(|s| s.parse().ok()).unwrap_or(tier.pick(36, 540));
            let left = || budget.saturating_sub(t0.elapsed().as_secs()).max(1);
            let tag = |a: &'static str, b: &'static str| if th { b } else { a };
            let only = std::env::var("C05_ONLY").ok();
            let run = |w: VaultW, depth: usize, r: &mut Runner| {
                if only.as_ref().map(|x| w.name().contains(x.as_str())).unwrap_or(true) {
                    r.world(&w, &Bounds::new(depth, left()));
                }
            };
            // full alphabet, short histories
            for &o in &offsets {
                run(VaultW { offset: o, deep: false, full: th, seeds: SMALL, tag: tag("wide", "wide-full") }, 2, r);
                run(VaultW { offset: o, deep: false, full: th, seeds: HUGE, tag: tag("wide-huge", "wide-full-huge") }, 2, r);
            }
            // narrow alphabet, long histories
            for &o in &offsets {
                let d = if th && [0, 1, 3, 10].contains(&o) { 5 } else { 4 };
                run(VaultW { offset: o, deep: true, full: false, seeds: SMALL, tag: "deep" }, d, r);
                run(VaultW { offset: o, deep: true, full: false, seeds: HUGE, tag: "deep-huge" }, tier.pick(3, 4), r);
            }
            // thorough, last (so that a loaded machine truncates these first): full alphabet, length 3
            if th {
                for o in [0u32, 3] {
                    if offsets.contains(&o) {
                        run(VaultW { offset: o, deep: false, full: true, seeds: SMALL, tag: "wide-full-d3" }, 3, r);
                    }
                }
            }
            if let Some(rep) = r.report() {
                let all = [
                    "deposit", "mint", "withdraw", "redeem", "donate",
                    "deposit.via-operator", "mint.via-operator", "withdraw.via-operator", "redeem.via-operator",
                    "deposit.to-other", "mint.to-other", "withdraw.to-other", "redeem.to-other",
                    "deposit.via-operator.to-other", "mint.via-operator.to-other",
                    "withdraw.via-operator.to-other", "redeem.via-operator.to-other",
                ];
                rep.require(
                    &all,
                    &["deposit", "mint", "withdraw", "redeem", "withdraw.via-operator", "redeem.via-operator", "withdraw.to-other", "redeem.to-other"],
                );
                rep.require_counter(&[
                    "conversion-refused-because-result-exceeds-i128",
                    "above-maximum-refused",
                    "at-maximum-accepted",
                    "acting-alone-checks",
                    "events-checked",
                    "roundtrip-second-leg-accepted",
                    "roundtrip-balance-checks",
                    "view-sweeps",
                    "roundtrip.DR executed", "roundtrip.DW executed", "roundtrip.MR executed", "roundtrip.MW executed",
                    "roundtrip.RD executed", "roundtrip.RM executed", "roundtrip.WD executed", "roundtrip.WM executed",
                    "maxima-equal-owner's-entitlement",
                ]);
            }
        },
    );
}
