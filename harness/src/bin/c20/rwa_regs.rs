//! placeholder — written by the builder of the `rwa_regs` half
use vh::cli::Runner;
use vh::report::Tier;
pub fn run(_tier: Tier, _r: &mut Runner) {}
