//! C20, RWA half — claim topics / trusted issuers, claim-issuer signing keys, token binder,
//! documents, identity registry storage, identity claims.
//!
//! Each registry is its own small BFS world over a thin wrapper contract (bodies = single calls
//! into the library, no operator checks). The reference models are plain `BTreeSet`/`BTreeMap`s
//! written from the property statement and the doc comments of the library functions; after
//! every accepted operation EVERY getter is compared with the model (enumerations as sets, no
//! element twice, index-based access hits every element exactly once, one-past-the-end refused).
//! Acceptance is predicted from the documented preconditions: duplicates and absent removals
//! refused, documented capacity constants enforced exactly (seeds at limit-1). Observation is
//! skipped after a refused call (the engine checks that the storage digest is unchanged).
//!
//! Worlds (names are stable):
//!   claim-topics-and-issuers, claim-topics-and-issuers-at-limits (14 topics / 49 issuers),
//!   claim-issuer-keys, claim-issuer-keys-at-limits (49 keys of a topic / 19 registries of a key),
//!   token-binder, token-binder-bucket-edge (98/99/100 bound), token-binder-capacity (9 999 / 9 998),
//!   documents, documents-bucket-edge (49/50/51 stored), documents-capacity (4 999 / 4 998),
//!   identity-registry, identity-registry-country-limit (14 entries), identity-claims.
//! The two capacity seeds cannot be built through the library inside the time budget (the library
//! and the test host are quadratic there); they are assembled from storage entries and the
//! assembly is validated against a state built through the library before the world is explored
//! (`direct_seed_is_faithful`); if the validation fails the world is skipped with a note.
#![allow(clippy::type_complexity)]

use soroban_sdk::testutils::{Address as _, Ledger as _};
use soroban_sdk::xdr::{LedgerEntry, LedgerEntryData, LedgerKey, Limits, ScVal, WriteXdr};
use soroban_sdk::{Address, Bytes, BytesN, Env, IntoVal, Map as SMap, String as SString, TryFromVal, Val, Vec as SVec};
use std::collections::{BTreeMap, BTreeSet};
use std::fmt::Debug;
use vh::auth::{call_mocked, view};
use vh::cli::Runner;
use vh::engine::{dig, Bounds, Stats, StepCtx, Violation, World};
use vh::ensure;
use vh::envx;
use vh::report::Tier;

#[path = "../../shared/c20_rwa_wrap.rs"]
mod wrap;

const START: u32 = 1000;

// ------------------------------------------------------------------------------------------
// common helpers

/// Predicted outcome of an operation: `Some(true)` must be accepted, `Some(false)` must be
/// refused, `None` = the documentation leaves it open (the implementation's answer is followed).
struct Ex {
    ok: Option<bool>,
    oracle: &'static str,
    why: String,
}

fn must(ok: bool, oracle: &'static str, why: impl Into<String>) -> Ex {
    Ex { ok: Some(ok), oracle, why: why.into() }
}

fn open() -> Ex {
    Ex { ok: None, oracle: "", why: String::new() }
}

fn check_outcome(ok: bool, x: &Ex, op: &dyn Debug) -> Result<(), Violation> {
    if let Some(want) = x.ok {
        ensure!(ok == want, x.oracle, "{:?} was {} although {}", op, if ok { "accepted" } else { "refused" }, x.why);
    }
    Ok(())
}

/// Oracle name of an accepted addition: the last admissible one before a capacity constant is
/// reported under `limit-exact`.
fn add_oracle(count_before: usize, limit: usize) -> &'static str {
    if count_before + 1 >= limit {
        "limit-exact"
    } else {
        "valid-op-accepted"
    }
}

/// Getter call: `Some(decoded)` when it answered, `None` when it refused (any failure).
fn getv<T: TryFromVal<Env, Val>>(e: &Env, c: &Address, f: &str, args: SVec<Val>) -> Option<T> {
    match view(e, c, f, args) {
        Ok(v) => match T::try_from_val(e, &v) {
            Ok(t) => Some(t),
            Err(_) => panic!("cannot decode the result of {f}"),
        },
        Err(_) => None,
    }
}

fn no_args(e: &Env) -> SVec<Val> {
    SVec::new(e)
}

/// An enumeration as a set; an element listed twice is a violation.
fn as_set<T: Ord + Clone + Debug>(it: impl IntoIterator<Item = T>, what: &str) -> Result<BTreeSet<T>, Violation> {
    let mut s = BTreeSet::new();
    for x in it {
        ensure!(s.insert(x.clone()), "enumeration-no-duplicates", "{} lists {:?} twice", what, x);
    }
    Ok(s)
}

/// Address book: small ids <-> addresses.
struct Book {
    fwd: BTreeMap<u16, Address>,
}

impl Book {
    fn new() -> Self {
        Self { fwd: BTreeMap::new() }
    }
    fn gen(&mut self, e: &Env, id: u16) {
        self.fwd.insert(id, Address::generate(e));
    }
    fn a(&self, id: u16) -> Address {
        self.fwd.get(&id).unwrap_or_else(|| panic!("no address for id {id}")).clone()
    }
    fn id(&self, a: &Address, what: &str) -> Result<u16, Violation> {
        for (k, v) in &self.fwd {
            if v == a {
                return Ok(*k);
            }
        }
        Err(Violation::new("outside-universe", format!("{what} contains an address that was never used")))
    }
    fn ids(&self, v: &SVec<Address>, what: &str) -> Result<Vec<u16>, Violation> {
        let mut out = vec![];
        for a in v.iter() {
            out.push(self.id(&a, what)?);
        }
        Ok(out)
    }
}

/// Ledgers that pass in an idle probe: beyond the lifetime of every temporary entry and of every
/// TTL extension the library performs (largest 518400), below the persistent TTL of `envx::mk_env`.
const IDLE: u32 = 600_000;

/// The `IdleProbe` operation every world of this file offers once per state: no call at all; on a
/// rebuilt throw-away copy of the state `IDLE` ledgers pass without any invocation and the world's
/// complete observation is repeated against the unchanged model (registry contents are not
/// time-dependent). A disagreement is reported as `state-survives-idle` (the oracle of the
/// observation that failed is named in the detail). The explored instance is not touched, hence
/// "state unchanged" for the engine. The probe's getter statistics are kept apart
/// (`…-after-long-idle`) from the counters the vacuity rule relies on.
fn idle_probe<W: World>(
    cx: &mut StepCtx<W>,
    env: impl for<'x> Fn(&'x W::Inst) -> &'x Env,
    observe: impl FnOnce(&W::Inst, &mut StepCtx<W>) -> Result<(), Violation>,
) -> Result<bool, Violation> {
    let copy = cx.rebuild();
    envx::advance(env(&copy), IDLE);
    let mut own = Stats::default();
    {
        let mut cx2 = StepCtx { world: cx.world, seed: cx.seed, hist: cx.hist, stats: &mut own };
        observe(&copy, &mut cx2)
            .map_err(|v| Violation::new("state-survives-idle", format!("after {IDLE} ledgers without any call [{}] {}", v.oracle, v.detail)))?;
    }
    for (k, n) in &own.counters {
        cx.stats.count(&format!("{k}-after-long-idle"), *n);
    }
    cx.stats.count("idle-probes", 1);
    Ok(false)
}

fn seed_call(e: &Env, c: &Address, f: &str, args: SVec<Val>) {
    if let Err(x) = call_mocked(e, c, f, args) {
        panic!("seed construction: {f} failed: {x:?}");
    }
}

// ==========================================================================================
// (1) claim topics and trusted issuers

const MAX_TOPICS: usize = 15;
const MAX_ISSUERS: usize = 50;

#[derive(Clone, Debug, PartialEq, Eq)]
enum CtiOp {
    AddTopic(u32),
    RemoveTopic(u32),
    AddIssuer(u16, Vec<u32>),
    RemoveIssuer(u16),
    Update(u16, Vec<u32>),
    /// see `idle_probe`
    IdleProbe,
}

#[derive(Clone, Debug, Default, Hash)]
struct CtiModel {
    topics: BTreeSet<u32>,
    issuers: BTreeMap<u16, BTreeSet<u32>>,
}

#[derive(Clone, Copy, Debug, PartialEq)]
enum CtiSeed {
    Empty,
    /// 14 filler topics 100..113
    Topics14,
    /// topic 100 and 49 filler issuers 100..148, each with topic list [100]
    Issuers49,
}

struct Cti {
    name: &'static str,
    seeds: Vec<CtiSeed>,
    topics: Vec<u32>,
    issuers: Vec<u16>,
    lists: Vec<Vec<u32>>,
    /// filler items that also get remove operations / per-item probes
    probe_topics: Vec<u32>,
    probe_issuers: Vec<u16>,
}

struct CtiInst {
    e: Env,
    c: Address,
    book: Book,
}

impl Cti {
    fn call(&self, i: &CtiInst, op: &CtiOp) -> bool {
        let e = &i.e;
        let (f, args): (&str, SVec<Val>) = match op {
            CtiOp::AddTopic(t) => ("add_claim_topic", (*t,).into_val(e)),
            CtiOp::RemoveTopic(t) => ("remove_claim_topic", (*t,).into_val(e)),
            CtiOp::AddIssuer(x, l) => ("add_trusted_issuer", (i.book.a(*x), SVec::from_slice(e, l)).into_val(e)),
            CtiOp::RemoveIssuer(x) => ("remove_trusted_issuer", (i.book.a(*x),).into_val(e)),
            CtiOp::Update(x, l) => ("update_issuer_claim_topics", (i.book.a(*x), SVec::from_slice(e, l)).into_val(e)),
            CtiOp::IdleProbe => return false,
        };
        call_mocked(e, &i.c, f, args).is_ok()
    }

    fn list_problem(m: &CtiModel, l: &[u32]) -> Option<String> {
        if l.is_empty() {
            return Some("the topic list is empty".into());
        }
        let mut s = BTreeSet::new();
        for t in l {
            if !s.insert(*t) {
                return Some(format!("the topic list names {t} twice"));
            }
        }
        for t in l {
            if !m.topics.contains(t) {
                return Some(format!("topic {t} of the list is not a registered claim topic"));
            }
        }
        None
    }

    fn expect(&self, m: &CtiModel, op: &CtiOp) -> Ex {
        match op {
            CtiOp::AddTopic(t) => {
                if m.topics.contains(t) {
                    must(false, "duplicate-refused", format!("topic {t} is already registered"))
                } else if m.topics.len() >= MAX_TOPICS {
                    must(false, "limit-exact", format!("{} topics are registered and the documented maximum is {MAX_TOPICS}", m.topics.len()))
                } else {
                    must(
                        true,
                        add_oracle(m.topics.len(), MAX_TOPICS),
                        format!("topic {t} is new and only {} of at most {MAX_TOPICS} topics are registered", m.topics.len()),
                    )
                }
            }
            CtiOp::RemoveTopic(t) => {
                if m.topics.contains(t) {
                    must(true, "valid-op-accepted", format!("topic {t} is registered"))
                } else {
                    must(false, "absent-removal-refused", format!("topic {t} is not registered"))
                }
            }
            CtiOp::AddIssuer(x, l) => {
                if let Some(p) = Self::list_problem(m, l) {
                    must(false, "invalid-input-refused", p)
                } else if m.issuers.contains_key(x) {
                    must(false, "duplicate-refused", format!("issuer {x} is already trusted"))
                } else if m.issuers.len() >= MAX_ISSUERS {
                    must(false, "limit-exact", format!("{} issuers are registered and the documented maximum is {MAX_ISSUERS}", m.issuers.len()))
                } else {
                    must(
                        true,
                        add_oracle(m.issuers.len(), MAX_ISSUERS),
                        format!("issuer {x} is new, its topics exist and only {} of at most {MAX_ISSUERS} issuers are registered", m.issuers.len()),
                    )
                }
            }
            CtiOp::RemoveIssuer(x) => {
                if m.issuers.contains_key(x) {
                    must(true, "valid-op-accepted", format!("issuer {x} is trusted"))
                } else {
                    must(false, "absent-removal-refused", format!("issuer {x} is not trusted"))
                }
            }
            CtiOp::Update(x, l) => {
                if let Some(p) = Self::list_problem(m, l) {
                    must(false, "invalid-input-refused", p)
                } else if !m.issuers.contains_key(x) {
                    must(false, "absent-removal-refused", format!("issuer {x} is not trusted"))
                } else {
                    must(true, "valid-op-accepted", format!("issuer {x} is trusted and every topic of the list exists"))
                }
            }
            CtiOp::IdleProbe => open(),
        }
    }

    fn update(m: &mut CtiModel, op: &CtiOp) {
        match op {
            CtiOp::AddTopic(t) => {
                m.topics.insert(*t);
            }
            CtiOp::RemoveTopic(t) => {
                m.topics.remove(t);
                for s in m.issuers.values_mut() {
                    s.remove(t);
                }
            }
            CtiOp::AddIssuer(x, l) | CtiOp::Update(x, l) => {
                m.issuers.insert(*x, l.iter().copied().collect());
            }
            CtiOp::RemoveIssuer(x) => {
                m.issuers.remove(x);
            }
            CtiOp::IdleProbe => {}
        }
    }

    fn observe(&self, i: &CtiInst, m: &CtiModel, cx: &mut StepCtx<Self>) -> Result<(), Violation> {
        let e = &i.e;
        let mut n = 0u64;
        // topics
        let t: SVec<u32> = getv(e, &i.c, "get_claim_topics", no_args(e)).ok_or_else(|| Violation::new("getter", "get_claim_topics failed".into()))?;
        let ts = as_set(t.iter(), "get_claim_topics")?;
        ensure!(ts == m.topics, "topics", "get_claim_topics = {:?}, model {:?}", ts, m.topics);
        // issuers
        let v: SVec<Address> = getv(e, &i.c, "get_trusted_issuers", no_args(e)).ok_or_else(|| Violation::new("getter", "get_trusted_issuers failed".into()))?;
        let is = as_set(i.book.ids(&v, "get_trusted_issuers")?, "get_trusted_issuers")?;
        let want: BTreeSet<u16> = m.issuers.keys().copied().collect();
        ensure!(is == want, "issuers", "get_trusted_issuers = {:?}, model {:?}", is, want);
        n += 2;
        let issuers_of = |t: u32| -> BTreeSet<u16> { m.issuers.iter().filter(|(_, s)| s.contains(&t)).map(|(k, _)| *k).collect() };
        // topic -> issuers
        let mut probe_t: Vec<u32> = self.topics.clone();
        probe_t.extend(self.probe_topics.iter().copied());
        probe_t.push(77);
        for t in &probe_t {
            let r: Option<SVec<Address>> = getv(e, &i.c, "get_claim_topic_issuers", (*t,).into_val(e));
            n += 1;
            match r {
                Some(v) => {
                    ensure!(m.topics.contains(t), "topic-issuers", "get_claim_topic_issuers({}) answered although the topic is not registered", t);
                    let s = as_set(i.book.ids(&v, "get_claim_topic_issuers")?, "get_claim_topic_issuers")?;
                    ensure!(s == issuers_of(*t), "topic-issuers", "get_claim_topic_issuers({}) = {:?}, model {:?}", t, s, issuers_of(*t));
                }
                None => ensure!(!m.topics.contains(t), "topic-issuers", "get_claim_topic_issuers({}) refused although the topic is registered", t),
            }
        }
        // whole map
        let mp: SMap<u32, SVec<Address>> =
            getv(e, &i.c, "get_claim_topics_and_issuers", no_args(e)).ok_or_else(|| Violation::new("getter", "get_claim_topics_and_issuers failed".into()))?;
        n += 1;
        let mut got: BTreeMap<u32, BTreeSet<u16>> = BTreeMap::new();
        for (t, v) in mp.iter() {
            got.insert(t, as_set(i.book.ids(&v, "get_claim_topics_and_issuers")?, "get_claim_topics_and_issuers")?);
        }
        let want: BTreeMap<u32, BTreeSet<u16>> = m.topics.iter().map(|t| (*t, issuers_of(*t))).collect();
        ensure!(got == want, "topics-and-issuers", "get_claim_topics_and_issuers = {:?}, model {:?}", got, want);
        // issuer -> topics, membership both ways
        let mut probe_i: Vec<u16> = self.issuers.clone();
        probe_i.extend(self.probe_issuers.iter().copied());
        for x in &probe_i {
            let a = i.book.a(*x);
            let r: Option<SVec<u32>> = getv(e, &i.c, "get_trusted_issuer_claim_topics", (a.clone(),).into_val(e));
            match (&r, m.issuers.get(x)) {
                (Some(v), Some(s)) => {
                    let g = as_set(v.iter(), "get_trusted_issuer_claim_topics")?;
                    ensure!(g == *s, "issuer-topics", "get_trusted_issuer_claim_topics({}) = {:?}, model {:?}", x, g, s);
                }
                (None, None) => {}
                (Some(_), None) => ensure!(false, "issuer-topics", "get_trusted_issuer_claim_topics({}) answered although the issuer is not trusted", x),
                (None, Some(_)) => ensure!(false, "issuer-topics", "get_trusted_issuer_claim_topics({}) refused although the issuer is trusted", x),
            }
            let tr: Option<bool> = getv(e, &i.c, "is_trusted_issuer", (a.clone(),).into_val(e));
            ensure!(tr == Some(m.issuers.contains_key(x)), "is-trusted", "is_trusted_issuer({}) = {:?}, model {}", x, tr, m.issuers.contains_key(x));
            n += 2;
            for t in &probe_t {
                let h: Option<bool> = getv(e, &i.c, "has_claim_topic", (a.clone(), *t).into_val(e));
                let want = m.issuers.get(x).map(|s| s.contains(t));
                ensure!(h == want, "has-claim-topic", "has_claim_topic({}, {}) = {:?} (None = refused), model {:?}", x, t, h, want);
                n += 1;
            }
        }
        cx.stats.count("getter-comparisons", n);
        Ok(())
    }
}

impl World for Cti {
    type Op = CtiOp;
    type Model = CtiModel;
    type Inst = CtiInst;

    fn name(&self) -> String {
        self.name.into()
    }
    fn seeds(&self) -> usize {
        self.seeds.len()
    }
    fn seed_name(&self, s: usize) -> String {
        format!("{:?}", self.seeds[s])
    }

    fn fresh(&self, seed: usize) -> (CtiInst, CtiModel) {
        let e = envx::mk_env(START);
        let c = e.register(wrap::CtiWrap, ());
        let mut book = Book::new();
        for x in 0..4u16 {
            book.gen(&e, x);
        }
        let mut m = CtiModel::default();
        match self.seeds[seed] {
            CtiSeed::Empty => {}
            CtiSeed::Topics14 => {
                for t in 100..114u32 {
                    seed_call(&e, &c, "add_claim_topic", (t,).into_val(&e));
                    m.topics.insert(t);
                }
            }
            CtiSeed::Issuers49 => {
                seed_call(&e, &c, "add_claim_topic", (100u32,).into_val(&e));
                m.topics.insert(100);
                for x in 100..149u16 {
                    book.gen(&e, x);
                    seed_call(&e, &c, "add_trusted_issuer", (book.a(x), SVec::from_slice(&e, &[100u32])).into_val(&e));
                    m.issuers.insert(x, [100u32].into_iter().collect());
                }
            }
        }
        for x in &self.probe_issuers {
            if !book.fwd.contains_key(x) {
                book.gen(&e, *x);
            }
        }
        (CtiInst { e, c, book }, m)
    }

    fn ops(&self, _i: &CtiInst, _m: &CtiModel, _d: usize) -> Vec<CtiOp> {
        let mut v = vec![];
        for t in &self.topics {
            v.push(CtiOp::AddTopic(*t));
        }
        for x in &self.issuers {
            for l in &self.lists {
                v.push(CtiOp::AddIssuer(*x, l.clone()));
            }
        }
        for x in &self.issuers {
            for l in &self.lists {
                v.push(CtiOp::Update(*x, l.clone()));
            }
        }
        for x in self.issuers.iter().chain(self.probe_issuers.iter()) {
            v.push(CtiOp::RemoveIssuer(*x));
        }
        for t in self.topics.iter().chain(self.probe_topics.iter()) {
            v.push(CtiOp::RemoveTopic(*t));
        }
        v.push(CtiOp::IdleProbe);
        v
    }

    fn kind(&self, op: &CtiOp) -> String {
        match op {
            CtiOp::AddTopic(_) => "cti.add_claim_topic",
            CtiOp::RemoveTopic(_) => "cti.remove_claim_topic",
            CtiOp::AddIssuer(..) => "cti.add_trusted_issuer",
            CtiOp::RemoveIssuer(_) => "cti.remove_trusted_issuer",
            CtiOp::Update(..) => "cti.update_issuer_claim_topics",
            CtiOp::IdleProbe => "idle-probe",
        }
        .into()
    }

    fn apply(&self, i: &mut CtiInst, op: &CtiOp) {
        self.call(i, op);
    }

    fn step(&self, i: &mut CtiInst, m: &mut CtiModel, op: &CtiOp, cx: &mut StepCtx<Self>) -> Result<bool, Violation> {
        if matches!(op, CtiOp::IdleProbe) {
            return idle_probe(cx, |c: &CtiInst| &c.e, |c, cx2| self.observe(c, m, cx2));
        }
        let x = self.expect(m, op);
        let ok = self.call(i, op);
        check_outcome(ok, &x, op)?;
        if ok {
            Self::update(m, op);
            if x.oracle == "limit-exact" {
                cx.stats.count("accepted-at-limit", 1);
            }
            if let CtiOp::AddIssuer(_, l) | CtiOp::Update(_, l) = op {
                if l.len() == MAX_TOPICS {
                    cx.stats.count("accepted-list-of-15-topics", 1);
                }
            }
            self.observe(i, m, cx)?;
        } else if x.ok == Some(false) {
            cx.stats.count(&format!("refused.{}", x.oracle), 1);
        }
        Ok(ok)
    }

    fn key(&self, i: &CtiInst) -> [u8; 32] {
        envx::storage_digest(&i.e, false)
    }
    fn model_digest(&self, m: &CtiModel) -> u64 {
        dig(m)
    }
}

fn cti_worlds(tier: Tier) -> Vec<(Cti, usize)> {
    let th = tier == Tier::Thorough;
    let lists: Vec<Vec<u32>> = if th {
        vec![vec![1], vec![2], vec![1, 2], vec![2, 3], vec![3, 2, 1], vec![], vec![1, 1]]
    } else {
        vec![vec![1], vec![1, 2], vec![3, 2], vec![3, 2, 1], vec![], vec![1, 1]]
    };
    vec![
        (
            Cti {
                name: "claim-topics-and-issuers",
                seeds: vec![CtiSeed::Empty],
                topics: vec![1, 2, 3],
                issuers: vec![0, 1, 2],
                lists,
                probe_topics: vec![],
                probe_issuers: vec![],
            },
            tier.pick(5, 6),
        ),
        (
            Cti {
                name: "claim-topics-and-issuers-at-limits",
                seeds: vec![CtiSeed::Topics14, CtiSeed::Issuers49],
                topics: vec![1, 2],
                issuers: vec![0, 1],
                // the last list names 15 topics: admissible exactly when all 15 exist (seed Topics14 + topic 1)
                lists: vec![vec![100], vec![1, 100], (100..114u32).chain([1]).collect()],
                probe_topics: vec![100, 113],
                probe_issuers: vec![100, 148],
            },
            tier.pick(3, 4),
        ),
    ]
}

// ==========================================================================================
// (2) claim-issuer signing keys: relation key x topic x registry

const MAX_KEYS_PER_TOPIC: usize = 50;
const MAX_REGISTRIES_PER_KEY: usize = 20;

type Triple = (u16, u32, u16); // key, topic, registry

#[derive(Clone, Debug, PartialEq, Eq)]
enum KeyOp {
    Allow(u16, u32, u16),
    Remove(u16, u32, u16),
    /// allow_key with an empty public key
    AllowEmpty(u32, u16),
    /// see `idle_probe`
    IdleProbe,
}

#[derive(Clone, Copy, Debug, PartialEq)]
enum KeySeed {
    Empty,
    /// 49 filler keys 100..148 allowed for (topic 1, registry 0)
    TopicKeys49,
    /// key 0 allowed for topic 1 at 19 filler registries 100..118
    Registries19,
}

struct Keys {
    name: &'static str,
    seeds: Vec<KeySeed>,
    keys: Vec<u16>,
    topics: Vec<u32>,
    regs: Vec<u16>,
    probe_keys: Vec<u16>,
    probe_regs: Vec<u16>,
    with_invalid: bool,
}

struct KeyInst {
    e: Env,
    c: Address,
    regs: Book,
}

/// key id -> (public key bytes, scheme); ids 0 and 2 share the public key and differ in scheme
fn key_of(id: u16) -> (Vec<u8>, u32) {
    match id {
        0 => (vec![0xA1; 32], 101),
        1 => (vec![0xB2; 32], 101),
        2 => (vec![0xA1; 32], 102),
        3 => (vec![0xC3; 33], 101),
        _ => {
            let mut v = vec![0x77u8; 32];
            v[0] = (id & 0xff) as u8;
            v[1] = (id >> 8) as u8;
            (v, 101)
        }
    }
}

fn key_id(pk: &[u8], scheme: u32) -> Result<u16, Violation> {
    for id in (0..4u16).chain(100..200u16) {
        let (p, s) = key_of(id);
        if p == pk && s == scheme {
            return Ok(id);
        }
    }
    Err(Violation::new("outside-universe", "a key enumeration contains a key that was never used".into()))
}

impl Keys {
    fn call(&self, i: &KeyInst, op: &KeyOp) -> bool {
        let e = &i.e;
        let (f, args): (&str, SVec<Val>) = match op {
            KeyOp::Allow(k, t, r) => {
                let (pk, s) = key_of(*k);
                ("allow_key", (Bytes::from_slice(e, &pk), i.regs.a(*r), s, *t).into_val(e))
            }
            KeyOp::Remove(k, t, r) => {
                let (pk, s) = key_of(*k);
                ("remove_key", (Bytes::from_slice(e, &pk), i.regs.a(*r), s, *t).into_val(e))
            }
            KeyOp::AllowEmpty(t, r) => ("allow_key", (Bytes::new(e), i.regs.a(*r), 101u32, *t).into_val(e)),
            KeyOp::IdleProbe => return false,
        };
        call_mocked(e, &i.c, f, args).is_ok()
    }

    fn expect(&self, m: &BTreeSet<Triple>, op: &KeyOp) -> Ex {
        match op {
            KeyOp::IdleProbe => open(),
            KeyOp::AllowEmpty(..) => must(false, "invalid-input-refused", "the public key is empty"),
            KeyOp::Remove(k, t, r) => {
                if m.contains(&(*k, *t, *r)) {
                    must(true, "valid-op-accepted", "this (key, topic, registry) authorization exists")
                } else {
                    must(false, "absent-removal-refused", "this (key, topic, registry) authorization does not exist")
                }
            }
            KeyOp::Allow(k, t, r) => {
                if *t == wrap::FORBIDDEN_TOPIC {
                    return must(false, "invalid-input-refused", "the registry says this issuer may not sign the topic");
                }
                if m.contains(&(*k, *t, *r)) {
                    return must(false, "duplicate-refused", "this exact (key, topic, registry) authorization already exists");
                }
                let keys_t: BTreeSet<u16> = m.iter().filter(|x| x.1 == *t).map(|x| x.0).collect();
                let new_for_topic = !keys_t.contains(k);
                if new_for_topic && keys_t.len() >= MAX_KEYS_PER_TOPIC {
                    return must(
                        false,
                        "limit-exact",
                        format!("topic {t} already has {} keys and the documented maximum is {MAX_KEYS_PER_TOPIC}", keys_t.len()),
                    );
                }
                let pairs_k = m.iter().filter(|x| x.0 == *k).count();
                let regs_k: BTreeSet<u16> = m.iter().filter(|x| x.0 == *k).map(|x| x.2).collect();
                if pairs_k < MAX_REGISTRIES_PER_KEY {
                    let at_edge = pairs_k + 1 >= MAX_REGISTRIES_PER_KEY || (new_for_topic && keys_t.len() + 1 >= MAX_KEYS_PER_TOPIC);
                    must(
                        true,
                        if at_edge { "limit-exact" } else { "valid-op-accepted" },
                        format!(
                            "the authorization is new, the key has {pairs_k} registry authorizations (documented maximum {MAX_REGISTRIES_PER_KEY}, so one more is admissible) and topic {t} has {} keys (documented maximum {MAX_KEYS_PER_TOPIC})",
                            keys_t.len()
                        ),
                    )
                } else if !regs_k.contains(r) && regs_k.len() >= MAX_REGISTRIES_PER_KEY {
                    must(
                        false,
                        "limit-exact",
                        format!("the key already has {} registries and the documented maximum is {MAX_REGISTRIES_PER_KEY}", regs_k.len()),
                    )
                } else {
                    // >= 20 (topic, registry) pairs over fewer than 20 distinct registries: the
                    // documentation does not say which of the two is counted
                    open()
                }
            }
        }
    }

    fn observe(&self, i: &KeyInst, m: &BTreeSet<Triple>, cx: &mut StepCtx<Self>) -> Result<(), Violation> {
        let e = &i.e;
        let mut n = 0u64;
        let mut topics = self.topics.clone();
        topics.push(wrap::FORBIDDEN_TOPIC);
        let keys: Vec<u16> = self.keys.iter().chain(self.probe_keys.iter()).copied().collect();
        let regs: Vec<u16> = self.regs.iter().chain(self.probe_regs.iter()).copied().collect();
        for t in &topics {
            let want: BTreeSet<u16> = m.iter().filter(|x| x.1 == *t).map(|x| x.0).collect();
            let r: Option<SVec<wrap_ci::SigningKey>> = getv(e, &i.c, "get_keys_for_topic", (*t,).into_val(e));
            n += 1;
            match r {
                None => ensure!(want.is_empty(), "keys-for-topic", "get_keys_for_topic({}) refused, model {:?}", t, want),
                Some(v) => {
                    let mut ids = vec![];
                    for sk in v.iter() {
                        let pk: Vec<u8> = sk.public_key.iter().collect();
                        ids.push(key_id(&pk, sk.scheme)?);
                    }
                    let got = as_set(ids, "get_keys_for_topic")?;
                    ensure!(got == want, "keys-for-topic", "get_keys_for_topic({}) = {:?}, model {:?}", t, got, want);
                }
            }
            for k in &keys {
                let (pk, s) = key_of(*k);
                let b: Option<bool> = getv(e, &i.c, "is_key_allowed_for_topic", (Bytes::from_slice(e, &pk), s, *t).into_val(e));
                n += 1;
                ensure!(b == Some(want.contains(k)), "key-allowed-for-topic", "is_key_allowed_for_topic(key {}, topic {}) = {:?}, model {}", k, t, b, want.contains(k));
            }
        }
        for k in &keys {
            let (pk, s) = key_of(*k);
            let want: BTreeSet<u16> = m.iter().filter(|x| x.0 == *k).map(|x| x.2).collect();
            let r: Option<SVec<Address>> = getv(e, &i.c, "get_registries", (Bytes::from_slice(e, &pk), s).into_val(e));
            n += 1;
            match r {
                None => ensure!(want.is_empty(), "registries-of-key", "get_registries(key {}) refused, model {:?}", k, want),
                Some(v) => {
                    // one entry per (topic, registry) authorization: compared as a plain set
                    let got: BTreeSet<u16> = i.regs.ids(&v, "get_registries")?.into_iter().collect();
                    ensure!(got == want, "registries-of-key", "get_registries(key {}) = {:?}, model {:?}", k, got, want);
                }
            }
            for r in &regs {
                let b: Option<bool> = getv(e, &i.c, "is_key_allowed_for_registry", (Bytes::from_slice(e, &pk), s, i.regs.a(*r)).into_val(e));
                n += 1;
                ensure!(b == Some(want.contains(r)), "key-allowed-for-registry", "is_key_allowed_for_registry(key {}, registry {}) = {:?}, model {}", k, r, b, want.contains(r));
            }
        }
        cx.stats.count("getter-comparisons", n);
        Ok(())
    }
}

use stellar_tokens::rwa::claim_issuer as wrap_ci;

impl World for Keys {
    type Op = KeyOp;
    type Model = BTreeSet<Triple>;
    type Inst = KeyInst;

    fn name(&self) -> String {
        self.name.into()
    }
    fn seeds(&self) -> usize {
        self.seeds.len()
    }
    fn seed_name(&self, s: usize) -> String {
        format!("{:?}", self.seeds[s])
    }

    fn fresh(&self, seed: usize) -> (KeyInst, BTreeSet<Triple>) {
        let e = envx::mk_env(START);
        let c = e.register(wrap::KeyWrap, ());
        let mut regs = Book::new();
        let mut ids: Vec<u16> = self.regs.iter().chain(self.probe_regs.iter()).copied().collect();
        if self.seeds[seed] == KeySeed::Registries19 {
            ids.extend(100..119u16);
        }
        ids.sort();
        ids.dedup();
        for r in ids {
            regs.fwd.insert(r, e.register(wrap::RegStub, ()));
        }
        let i = KeyInst { e, c, regs };
        let mut m = BTreeSet::new();
        match self.seeds[seed] {
            KeySeed::Empty => {}
            KeySeed::TopicKeys49 => {
                for k in 100..149u16 {
                    assert!(self.call(&i, &KeyOp::Allow(k, 1, 0)), "seed construction: allow_key failed");
                    m.insert((k, 1, 0));
                }
            }
            KeySeed::Registries19 => {
                for r in 100..119u16 {
                    assert!(self.call(&i, &KeyOp::Allow(0, 1, r)), "seed construction: allow_key failed");
                    m.insert((0, 1, r));
                }
            }
        }
        (i, m)
    }

    fn ops(&self, _i: &KeyInst, _m: &BTreeSet<Triple>, _d: usize) -> Vec<KeyOp> {
        let mut v = vec![];
        for k in &self.keys {
            for t in &self.topics {
                for r in &self.regs {
                    v.push(KeyOp::Allow(*k, *t, *r));
                }
            }
        }
        for k in self.keys.iter().chain(self.probe_keys.iter()) {
            for t in &self.topics {
                for r in self.regs.iter().chain(self.probe_regs.iter()) {
                    v.push(KeyOp::Remove(*k, *t, *r));
                }
            }
        }
        if self.with_invalid {
            v.push(KeyOp::Allow(self.keys[0], wrap::FORBIDDEN_TOPIC, self.regs[0]));
            v.push(KeyOp::AllowEmpty(self.topics[0], self.regs[0]));
        }
        v.push(KeyOp::IdleProbe);
        v
    }

    fn kind(&self, op: &KeyOp) -> String {
        match op {
            KeyOp::Allow(..) | KeyOp::AllowEmpty(..) => "keys.allow_key",
            KeyOp::Remove(..) => "keys.remove_key",
            KeyOp::IdleProbe => "idle-probe",
        }
        .into()
    }

    fn apply(&self, i: &mut KeyInst, op: &KeyOp) {
        self.call(i, op);
    }

    fn step(&self, i: &mut KeyInst, m: &mut BTreeSet<Triple>, op: &KeyOp, cx: &mut StepCtx<Self>) -> Result<bool, Violation> {
        if matches!(op, KeyOp::IdleProbe) {
            return idle_probe(cx, |c: &KeyInst| &c.e, |c, cx2| self.observe(c, m, cx2));
        }
        let x = self.expect(m, op);
        let ok = self.call(i, op);
        check_outcome(ok, &x, op)?;
        if ok {
            match op {
                KeyOp::Allow(k, t, r) => {
                    m.insert((*k, *t, *r));
                }
                KeyOp::Remove(k, t, r) => {
                    m.remove(&(*k, *t, *r));
                }
                KeyOp::AllowEmpty(..) | KeyOp::IdleProbe => {}
            }
            if x.oracle == "limit-exact" {
                cx.stats.count("accepted-at-limit", 1);
            }
            self.observe(i, m, cx)?;
        } else if x.ok == Some(false) {
            cx.stats.count(&format!("refused.{}", x.oracle), 1);
        }
        Ok(ok)
    }

    fn key(&self, i: &KeyInst) -> [u8; 32] {
        envx::storage_digest(&i.e, false)
    }
    fn model_digest(&self, m: &BTreeSet<Triple>) -> u64 {
        dig(m)
    }
}

fn key_worlds(tier: Tier) -> Vec<(Keys, usize)> {
    let th = tier == Tier::Thorough;
    vec![
        (
            Keys {
                name: "claim-issuer-keys",
                seeds: vec![KeySeed::Empty],
                keys: if th { vec![0, 1, 2] } else { vec![0, 2] },
                topics: vec![1, 2],
                regs: vec![0, 1],
                probe_keys: vec![],
                probe_regs: vec![],
                with_invalid: true,
            },
            5,
        ),
        (
            Keys {
                name: "claim-issuer-keys-at-limits",
                seeds: vec![KeySeed::TopicKeys49, KeySeed::Registries19],
                keys: vec![0, 1],
                topics: vec![1, 2],
                regs: vec![0, 1],
                probe_keys: vec![100],
                probe_regs: vec![118],
                with_invalid: false,
            },
            tier.pick(3, 4),
        ),
    ]
}

// ==========================================================================================
// (3) token binder: bucketed set of bound tokens

const BINDER_BUCKET: usize = 100;
const MAX_TOKENS: usize = 10_000;
const MAX_BATCH: usize = 2 * BINDER_BUCKET;
const POOL: u16 = 20_000; // ids of the big-batch pool

#[derive(Clone, Debug, PartialEq, Eq)]
enum BindOp {
    Bind(u16),
    Unbind(u16),
    Batch(Vec<u16>),
    /// bind_tokens with the first n addresses of a pool of fresh addresses (probe, never extended)
    BigBatch(u16),
    /// see `idle_probe`
    IdleProbe,
}

struct Binder {
    name: &'static str,
    /// number of filler tokens (ids 100..) bound in each seed
    seeds: Vec<usize>,
    universe: Vec<u16>,
    batches: Vec<Vec<u16>>,
    big: Vec<u16>,
    /// index-based getters are compared for every index when the registry holds at most this many
    /// tokens; above, for the indices around the edges of the first and last buckets and both ends
    full_index_scan_up_to: usize,
    /// `Some(k)`: batches the model predicts to be ACCEPTED are offered only at depth < k (an
    /// accepted `bind_tokens` next to 10 000 bound tokens costs about 7 s)
    accepted_batches_below_depth: Option<usize>,
    /// batches are probes that are never extended (every rebuild of a descendant would pay the
    /// 7 s again)
    batches_leaf_only: bool,
}

struct BindInst {
    e: Env,
    c: Address,
    book: Book,
    rev: BTreeMap<Address, u16>,
    fillers: usize,
}

/// Storage layout of the token binder, used ONLY to construct the 9 998-token capacity seed
/// (through the public API that seed costs minutes: `bind_tokens` is quadratic in the number of
/// bound tokens). The layout is validated before use: `Binder::direct_seed_is_faithful` builds a
/// 250-token state both ways and compares the canonical storage digests; if they differ (the
/// library changed its layout) the capacity world is skipped with a note instead of judged.
#[soroban_sdk::contracttype]
enum TbKey {
    TokenBucket(u32),
    TotalCount,
}

/// Seeds with more fillers than this are written directly into contract storage.
const DIRECT_SEED_ABOVE: usize = 2000;

impl Binder {
    fn build(&self, fillers: usize, direct: bool) -> (BindInst, BTreeSet<u16>) {
        let e = envx::mk_env(START);
        let c = e.register(wrap::BinderWrap, ());
        let mut book = Book::new();
        for x in &self.universe {
            book.gen(&e, *x);
        }
        let mut m = BTreeSet::new();
        let mut batch: SVec<Address> = SVec::new(&e);
        let mut bucket_no = 0u32;
        let chunk = if direct { BINDER_BUCKET } else { MAX_BATCH };
        for k in 0..fillers {
            let id = 100 + k as u16;
            book.gen(&e, id);
            m.insert(id);
            batch.push_back(book.a(id));
            if batch.len() as usize == chunk || k + 1 == fillers {
                if direct {
                    e.as_contract(&c, || e.storage().persistent().set(&TbKey::TokenBucket(bucket_no), &batch));
                    bucket_no += 1;
                } else {
                    seed_call(&e, &c, "bind_tokens", (batch.clone(),).into_val(&e));
                }
                batch = SVec::new(&e);
            }
        }
        if direct {
            e.as_contract(&c, || e.storage().persistent().set(&TbKey::TotalCount, &(fillers as u32)));
        }
        if let Some(n) = self.big.iter().max() {
            for x in POOL..POOL + *n {
                book.gen(&e, x);
            }
        }
        let rev: BTreeMap<Address, u16> = book.fwd.iter().map(|(k, a)| (a.clone(), *k)).collect();
        (BindInst { e, c, book, rev, fillers }, m)
    }

    /// Does writing the buckets directly give exactly the storage `bind_tokens` gives?
    fn direct_seed_is_faithful(&self) -> bool {
        let (a, _) = self.build(250, false);
        let (b, _) = self.build(250, true);
        let same = envx::storage_digest(&a.e, false) == envx::storage_digest(&b.e, false);
        let n: Option<SVec<Address>> = getv(&b.e, &b.c, "linked_tokens", no_args(&b.e));
        same && n.map(|v| v.len()) == Some(250)
    }

    fn call(&self, i: &BindInst, op: &BindOp) -> bool {
        let e = &i.e;
        let sv = |l: &mut dyn Iterator<Item = u16>| -> SVec<Address> {
            let mut v = SVec::new(e);
            for x in l {
                v.push_back(i.book.a(x));
            }
            v
        };
        let (f, args): (&str, SVec<Val>) = match op {
            BindOp::Bind(x) => ("bind_token", (i.book.a(*x),).into_val(e)),
            BindOp::Unbind(x) => ("unbind_token", (i.book.a(*x),).into_val(e)),
            BindOp::Batch(l) => ("bind_tokens", (sv(&mut l.iter().copied()),).into_val(e)),
            BindOp::BigBatch(n) => ("bind_tokens", (sv(&mut (POOL..POOL + *n)),).into_val(e)),
            BindOp::IdleProbe => return false,
        };
        call_mocked(e, &i.c, f, args).is_ok()
    }

    fn batch_ids(op: &BindOp) -> Vec<u16> {
        match op {
            BindOp::Batch(l) => l.clone(),
            BindOp::BigBatch(n) => (POOL..POOL + *n).collect(),
            _ => vec![],
        }
    }

    fn expect(&self, m: &BTreeSet<u16>, op: &BindOp) -> Ex {
        match op {
            BindOp::IdleProbe => open(),
            BindOp::Bind(x) => {
                if m.contains(x) {
                    must(false, "duplicate-refused", format!("token {x} is already bound"))
                } else if m.len() >= MAX_TOKENS {
                    must(false, "limit-exact", format!("{} tokens are bound and the documented maximum is {MAX_TOKENS}", m.len()))
                } else {
                    must(true, add_oracle(m.len(), MAX_TOKENS), format!("token {x} is not bound and {} of at most {MAX_TOKENS} tokens are bound", m.len()))
                }
            }
            BindOp::Unbind(x) => {
                if m.contains(x) {
                    must(true, "valid-op-accepted", format!("token {x} is bound"))
                } else {
                    must(false, "absent-removal-refused", format!("token {x} is not bound"))
                }
            }
            BindOp::Batch(_) | BindOp::BigBatch(_) => {
                let l = Self::batch_ids(op);
                let s: BTreeSet<u16> = l.iter().copied().collect();
                if s.len() != l.len() {
                    must(false, "duplicate-refused", "the batch names a token twice")
                } else if l.iter().any(|x| m.contains(x)) {
                    must(false, "duplicate-refused", "a token of the batch is already bound")
                } else if l.len() > MAX_BATCH {
                    must(false, "limit-exact", format!("the batch has {} tokens and the documented maximum batch is {MAX_BATCH}", l.len()))
                } else if m.len() + l.len() > MAX_TOKENS {
                    must(false, "limit-exact", format!("{} + {} tokens exceed the documented maximum {MAX_TOKENS}", m.len(), l.len()))
                } else {
                    let edge = l.len() == MAX_BATCH || m.len() + l.len() == MAX_TOKENS;
                    must(
                        true,
                        if edge { "limit-exact" } else { "valid-op-accepted" },
                        format!("all {} tokens of the batch are distinct and unbound, batch <= {MAX_BATCH}, total {} <= {MAX_TOKENS}", l.len(), m.len() + l.len()),
                    )
                }
            }
        }
    }

    fn probes(&self, i: &BindInst) -> Vec<u16> {
        let mut p = self.universe.clone();
        if i.fillers > 0 {
            p.push(100);
            p.push(100 + i.fillers as u16 - 1);
            p.push(100 + (i.fillers as u16) / 2);
        }
        p.sort();
        p.dedup();
        p
    }

    fn observe(&self, i: &BindInst, m: &BTreeSet<u16>, cx: &mut StepCtx<Self>) -> Result<(), Violation> {
        let e = &i.e;
        let mut n = 0u64;
        let v: SVec<Address> = getv(e, &i.c, "linked_tokens", no_args(e)).ok_or_else(|| Violation::new("getter", "linked_tokens failed".into()))?;
        let rev = &i.rev;
        let mut listed: Vec<u16> = vec![];
        for a in v.iter() {
            listed.push(*rev.get(&a).ok_or_else(|| Violation::new("outside-universe", "linked_tokens contains an address that was never bound".into()))?);
        }
        let got = as_set(listed.iter().copied(), "linked_tokens")?;
        ensure!(
            got == *m,
            "linked-tokens",
            "linked_tokens lists {} tokens, the model has {}; ids in exactly one of them: {:?}",
            got.len(),
            m.len(),
            got.symmetric_difference(m).take(6).collect::<Vec<_>>()
        );
        n += 1;
        let count = listed.len() as u32;
        // membership + index of a token
        for x in self.probes(i) {
            let a = i.book.a(x);
            let b: Option<bool> = getv(e, &i.c, "is_token_bound", (a.clone(),).into_val(e));
            ensure!(b == Some(m.contains(&x)), "is-token-bound", "is_token_bound({}) = {:?}, model {}", x, b, m.contains(&x));
            let ix: Option<u32> = getv(e, &i.c, "get_token_index", (a.clone(),).into_val(e));
            n += 2;
            match ix {
                None => ensure!(!m.contains(&x), "token-index", "get_token_index({}) refused although the token is bound", x),
                Some(ix) => {
                    ensure!(m.contains(&x), "token-index", "get_token_index({}) = {} although the token is not bound", x, ix);
                    let back: Option<Address> = getv(e, &i.c, "get_token_by_index", (ix,).into_val(e));
                    n += 1;
                    ensure!(back.as_ref() == Some(&a), "token-index", "get_token_by_index(get_token_index({}) = {}) is a different token", x, ix);
                }
            }
        }
        // index-based access: every element exactly once
        let idxs: Vec<u32> = if (count as usize) <= self.full_index_scan_up_to {
            (0..count).collect()
        } else {
            let mut s: BTreeSet<u32> = BTreeSet::new();
            // bucket edges of the first two and the last three buckets
            let b = BINDER_BUCKET as u32;
            let last_edge = (count / b) * b;
            for edge in [0, b, 2 * b, last_edge.saturating_sub(2 * b), last_edge.saturating_sub(b), last_edge] {
                for d in [edge.saturating_sub(2), edge.saturating_sub(1), edge, edge + 1] {
                    if d < count {
                        s.insert(d);
                    }
                }
            }
            for d in [count.saturating_sub(2), count.saturating_sub(1)] {
                s.insert(d);
            }
            s.into_iter().collect()
        };
        let mut by_index: Vec<u16> = vec![];
        for ix in &idxs {
            let a: Option<Address> = getv(e, &i.c, "get_token_by_index", (*ix,).into_val(e));
            n += 1;
            let a = a.ok_or_else(|| Violation::new("index-access", format!("get_token_by_index({ix}) refused although {count} tokens are bound")))?;
            by_index.push(*rev.get(&a).ok_or_else(|| Violation::new("outside-universe", "get_token_by_index returned an address that was never bound".into()))?);
        }
        let bs = as_set(by_index.iter().copied(), "get_token_by_index over the scanned indices")?;
        if idxs.len() == count as usize {
            ensure!(bs == *m, "index-access", "indices 0..{} enumerate {:?}…, model differs", count, bs.symmetric_difference(m).take(6).collect::<Vec<_>>());
        } else {
            ensure!(bs.is_subset(m), "index-access", "index access returned unbound tokens {:?}", bs.difference(m).take(6).collect::<Vec<_>>());
        }
        let past: Option<Address> = getv(e, &i.c, "get_token_by_index", (count,).into_val(e));
        n += 1;
        ensure!(past.is_none(), "index-access", "get_token_by_index({}) answered although only {} tokens are bound", count, count);
        cx.stats.count("getter-comparisons", n);
        Ok(())
    }
}

impl World for Binder {
    type Op = BindOp;
    type Model = BTreeSet<u16>;
    type Inst = BindInst;

    fn name(&self) -> String {
        self.name.into()
    }
    fn seeds(&self) -> usize {
        self.seeds.len()
    }
    fn seed_name(&self, s: usize) -> String {
        format!("{} tokens bound", self.seeds[s])
    }

    fn fresh(&self, seed: usize) -> (BindInst, BTreeSet<u16>) {
        let n = self.seeds[seed];
        self.build(n, n > DIRECT_SEED_ABOVE)
    }

    fn ops(&self, i: &BindInst, m: &BTreeSet<u16>, d: usize) -> Vec<BindOp> {
        let mut v = vec![];
        for x in &self.universe {
            v.push(BindOp::Bind(*x));
        }
        for x in self.probes(i) {
            v.push(BindOp::Unbind(x));
        }
        for l in &self.batches {
            let op = BindOp::Batch(l.clone());
            if let Some(k) = self.accepted_batches_below_depth {
                if d >= k && self.expect(m, &op).ok == Some(true) {
                    continue;
                }
            }
            v.push(op);
        }
        if d <= 1 {
            for n in &self.big {
                v.push(BindOp::BigBatch(*n));
            }
        }
        v.push(BindOp::IdleProbe);
        v
    }

    fn kind(&self, op: &BindOp) -> String {
        match op {
            BindOp::Bind(_) => "binder.bind_token",
            BindOp::Unbind(_) => "binder.unbind_token",
            BindOp::Batch(_) | BindOp::BigBatch(_) => "binder.bind_tokens",
            BindOp::IdleProbe => "idle-probe",
        }
        .into()
    }

    fn leaf_only(&self, op: &BindOp) -> bool {
        matches!(op, BindOp::BigBatch(_)) || (self.batches_leaf_only && matches!(op, BindOp::Batch(_)))
    }

    fn apply(&self, i: &mut BindInst, op: &BindOp) {
        self.call(i, op);
    }

    fn step(&self, i: &mut BindInst, m: &mut BTreeSet<u16>, op: &BindOp, cx: &mut StepCtx<Self>) -> Result<bool, Violation> {
        if matches!(op, BindOp::IdleProbe) {
            return idle_probe(cx, |c: &BindInst| &c.e, |c, cx2| self.observe(c, m, cx2));
        }
        let x = self.expect(m, op);
        let ok = self.call(i, op);
        check_outcome(ok, &x, op)?;
        if ok {
            match op {
                BindOp::Bind(t) => {
                    m.insert(*t);
                }
                BindOp::Unbind(t) => {
                    m.remove(t);
                }
                _ => m.extend(Self::batch_ids(op)),
            }
            if x.oracle == "limit-exact" {
                cx.stats.count("accepted-at-limit", 1);
            }
            self.observe(i, m, cx)?;
        } else if x.ok == Some(false) {
            cx.stats.count(&format!("refused.{}", x.oracle), 1);
        }
        Ok(ok)
    }

    fn key(&self, i: &BindInst) -> [u8; 32] {
        envx::storage_digest(&i.e, false)
    }
    fn model_digest(&self, m: &BTreeSet<u16>) -> u64 {
        dig(m)
    }
}

fn binder_worlds(tier: Tier) -> Vec<(Binder, usize)> {
    let th = tier == Tier::Thorough;
    vec![
        (
            Binder {
                name: "token-binder",
                seeds: vec![0],
                universe: vec![0, 1, 2, 3],
                batches: vec![vec![0, 1], vec![1, 0], vec![2, 3], vec![0, 1, 2], vec![0, 0], vec![]],
                big: vec![200, 201],
                full_index_scan_up_to: 1000,
                accepted_batches_below_depth: None,
                batches_leaf_only: false,
            },
            tier.pick(5, 7),
        ),
        (
            Binder {
                name: "token-binder-bucket-edge",
                seeds: if th { vec![98, 99, 100, 101, 199, 200] } else { vec![98, 99, 100] },
                universe: vec![0, 1, 2],
                batches: vec![vec![0, 1], vec![0, 1, 2], vec![1, 1]],
                big: vec![],
                full_index_scan_up_to: 1000,
                accepted_batches_below_depth: None,
                batches_leaf_only: false,
            },
            tier.pick(3, 4),
        ),
        (
            Binder {
                name: "token-binder-capacity",
                seeds: vec![MAX_TOKENS - tier.pick(1, 2)],
                universe: vec![0, 1, 2],
                batches: vec![vec![0, 1], vec![0, 1, 2]],
                big: vec![],
                full_index_scan_up_to: 0,
                accepted_batches_below_depth: Some(tier.pick(0, 2)),
                batches_leaf_only: true,
            },
            tier.pick(2, 3),
        ),
    ]
}

// ==========================================================================================
// (4) documents: bucketed map name -> (uri, hash, timestamp)

const DOC_BUCKET: usize = 50;
const MAX_DOCS: usize = 5_000;
const MAX_URI: u32 = 200;

use stellar_tokens::rwa::extensions::doc_manager as dm;

#[derive(Clone, Debug, PartialEq, Eq)]
enum DocOp {
    /// set_document(name, variant) executed at ledger START + 1 + at (at = depth of the step)
    Set { name: u16, var: u8, at: u32 },
    /// set_document with a URI of `len` characters (probe, never extended)
    SetUri { name: u16, len: u32, at: u32 },
    Remove(u16),
    /// see `idle_probe` (stored timestamps are values, not clocks: they must not change either)
    IdleProbe,
}

type DocVal = (String, u8, u64); // uri, first byte of the hash, timestamp

struct Docs {
    name: &'static str,
    /// number of filler documents (ids 100..) in each seed
    seeds: Vec<usize>,
    universe: Vec<u16>,
    vars: Vec<u8>,
    uri_probes: bool,
    full_index_scan_up_to: usize,
    /// ledger entries of the capacity seed (built once per run)
    snap: std::sync::OnceLock<std::sync::Arc<SeedMap>>,
}

struct DocInst {
    e: Env,
    c: Address,
    fillers: usize,
    /// the seed lives in the snapshot source: the state key covers the touched entries only
    snap: bool,
}

type SeedMap = BTreeMap<LedgerKey, (LedgerEntry, Option<u32>)>;

struct SeedSource(std::sync::Arc<SeedMap>);

impl soroban_env_host::storage::SnapshotSource for SeedSource {
    fn get(&self, key: &std::rc::Rc<LedgerKey>) -> Result<Option<soroban_env_host::storage::EntryWithLiveUntil>, soroban_env_host::HostError> {
        Ok(self.0.get(key.as_ref()).map(|(e, l)| (std::rc::Rc::new(e.clone()), *l)))
    }
}

/// State key of an instance whose seed entries live in the snapshot source: every entry the
/// storage map holds (written, read or REMOVED since the seed), keys and values. Two instances of
/// the same seed are in the same state iff they agree on all of these.
fn touched_digest(e: &Env) -> [u8; 32] {
    use sha2::{Digest, Sha256};
    let mut h = Sha256::new();
    for (k, v) in e.host().get_stored_entries().expect("stored entries").iter() {
        let LedgerKey::ContractData(cd) = k.as_ref() else { continue };
        if matches!(cd.key, ScVal::LedgerKeyNonce(_)) {
            continue;
        }
        let kb = k.to_xdr(Limits::none()).expect("xdr");
        h.update((kb.len() as u32).to_be_bytes());
        h.update(&kb);
        match v {
            Some((entry, _)) => {
                if let LedgerEntryData::ContractData(d) = &entry.data {
                    let vb = d.val.to_xdr(Limits::none()).expect("xdr");
                    h.update(b"S");
                    h.update((vb.len() as u32).to_be_bytes());
                    h.update(&vb);
                }
            }
            None => h.update(b"R"),
        }
    }
    h.finalize().into()
}

fn doc_name(e: &Env, id: u16) -> BytesN<32> {
    let mut b = [0x5du8; 32];
    b[0] = (id & 0xff) as u8;
    b[1] = (id >> 8) as u8;
    BytesN::from_array(e, &b)
}

fn doc_id(n: &BytesN<32>) -> Result<u16, Violation> {
    let b = n.to_array();
    ensure!(b[2..].iter().all(|x| *x == 0x5d), "outside-universe", "a document name that was never used is listed");
    Ok(b[0] as u16 | ((b[1] as u16) << 8))
}

fn doc_var(var: u8) -> (String, u8) {
    match var {
        0 => ("ipfs://a".into(), 1),
        1 => ("https://example.org/bb".into(), 2),
        _ => (format!("v{var}"), var),
    }
}

fn set_time(e: &Env, seq: u32) {
    e.ledger().with_mut(|li| {
        li.sequence_number = seq;
        li.timestamp = 1_700_000_000 + (seq as u64) * 5;
    });
}

impl Docs {
    fn filler(k: usize, fillers: usize) -> (u16, String, u8, u32, u64) {
        // fillers get distinct timestamps where cheap (the last 200 of them)
        let seq = START - (fillers - k).min(200) as u32;
        (100 + k as u16, format!("doc://{}", 100 + k), (k % 251) as u8, seq, 1_700_000_000 + (seq as u64) * 5)
    }

    /// Seed with `fillers` documents, built through `set_document`.
    fn build_api(&self, fillers: usize) -> (DocInst, BTreeMap<u16, DocVal>) {
        let e = envx::mk_env(START);
        let c = e.register(wrap::DocWrap, ());
        let i = DocInst { e, c, fillers, snap: false };
        let mut m = BTreeMap::new();
        for k in 0..fillers {
            let (id, uri, h, seq, ts) = Self::filler(k, fillers);
            assert!(self.set(&i, id, &uri, h, seq), "seed construction: set_document failed");
            m.insert(id, (uri, h, ts));
        }
        set_time(&i.e, START);
        (i, m)
    }

    /// The ledger entries of a `fillers`-document registry, produced WITHOUT running the library:
    /// chunks of 250 documents are written into scratch environments under the library's own
    /// (public) storage key and value types and harvested from their storage. Used only for the
    /// capacity seed; validated against `build_api` by `seed_entries_are_faithful`.
    fn seed_entries(fillers: usize) -> SeedMap {
        let mut out = SeedMap::new();
        let chunk = 5 * DOC_BUCKET;
        let mut k0 = 0;
        while k0 < fillers || (fillers == 0 && k0 == 0) {
            let k1 = (k0 + chunk).min(fillers);
            let e = envx::mk_env(START);
            let c = e.register(wrap::DocWrap, ());
            e.as_contract(&c, || {
                let mut bucket: SVec<(BytesN<32>, dm::Document)> = SVec::new(&e);
                for k in k0..k1 {
                    let (id, uri, h, _, ts) = Self::filler(k, fillers);
                    let name = doc_name(&e, id);
                    let doc = dm::Document { uri: SString::from_str(&e, &uri), document_hash: BytesN::from_array(&e, &[h; 32]), timestamp: ts };
                    bucket.push_back((name.clone(), doc));
                    e.storage().persistent().set(&dm::DocumentStorageKey::Index(name), &(k as u32));
                    if bucket.len() as usize == DOC_BUCKET || k + 1 == fillers {
                        e.storage().persistent().set(&dm::DocumentStorageKey::Bucket((k / DOC_BUCKET) as u32), &bucket);
                        bucket = SVec::new(&e);
                    }
                }
                if k1 == fillers {
                    e.storage().persistent().set(&dm::DocumentStorageKey::Count, &(fillers as u32));
                }
            });
            for (k, v) in e.host().get_stored_entries().expect("stored entries").iter() {
                let LedgerKey::ContractData(cd) = k.as_ref() else { continue };
                if matches!(cd.key, ScVal::LedgerKeyNonce(_) | ScVal::LedgerKeyContractInstance) {
                    continue;
                }
                if let Some((entry, live)) = v {
                    out.insert(k.as_ref().clone(), (entry.as_ref().clone(), *live));
                }
            }
            k0 = k1;
            if fillers == 0 {
                break;
            }
        }
        out
    }

    /// Capacity seed: the entries live in the environment's snapshot source and are loaded into the
    /// host's storage map only when touched (the map copies itself on every write, so a map that
    /// holds one entry per document makes every instance cost seconds).
    #[allow(deprecated)]
    fn build_snapshot(&self, fillers: usize) -> (DocInst, BTreeMap<u16, DocVal>) {
        let entries = self.snap.get_or_init(|| std::sync::Arc::new(Self::seed_entries(fillers))).clone();
        let src = std::rc::Rc::new(SeedSource(entries));
        let mut e = Env::from_ledger_snapshot(soroban_sdk::testutils::SnapshotSourceInput { source: src, ledger_info: None, snapshot: None });
        e.set_config(soroban_sdk::testutils::EnvTestConfig { capture_snapshot_at_drop: false });
        // same settings as vh::envx::mk_env
        e.ledger().set(soroban_sdk::testutils::LedgerInfo {
            timestamp: 1_700_000_000 + (START as u64) * 5,
            protocol_version: e.ledger().protocol_version(),
            sequence_number: START,
            network_id: [7u8; 32],
            base_reserve: 10,
            min_temp_entry_ttl: 1,
            min_persistent_entry_ttl: envx::PERSISTENT_TTL,
            max_entry_ttl: envx::MAX_ENTRY_TTL,
        });
        e.host().set_diagnostic_level(soroban_env_host::DiagnosticLevel::None).expect("diag");
        e.cost_estimate().budget().reset_unlimited();
        e.cost_estimate().disable_resource_limits();
        let c = e.register(wrap::DocWrap, ());
        let mut m = BTreeMap::new();
        for k in 0..fillers {
            let (id, uri, h, _, ts) = Self::filler(k, fillers);
            m.insert(id, (uri, h, ts));
        }
        (DocInst { e, c, fillers, snap: true }, m)
    }

    fn build(&self, fillers: usize, direct: bool) -> (DocInst, BTreeMap<u16, DocVal>) {
        if direct {
            self.build_snapshot(fillers)
        } else {
            self.build_api(fillers)
        }
    }

    /// Are the harvested entries exactly what `set_document` stores (keys and values)?
    fn direct_seed_is_faithful(&self) -> bool {
        let n = 120;
        let (a, _) = self.build_api(n);
        let mut api: BTreeMap<LedgerKey, ScVal> = BTreeMap::new();
        for (k, v) in a.e.host().get_stored_entries().expect("stored entries").iter() {
            let LedgerKey::ContractData(cd) = k.as_ref() else { continue };
            if matches!(cd.key, ScVal::LedgerKeyNonce(_) | ScVal::LedgerKeyContractInstance) {
                continue;
            }
            if let Some((entry, _)) = v {
                if let LedgerEntryData::ContractData(d) = &entry.data {
                    api.insert(k.as_ref().clone(), d.val.clone());
                }
            }
        }
        let mut mine: BTreeMap<LedgerKey, ScVal> = BTreeMap::new();
        for (k, (entry, _)) in Self::seed_entries(n).iter() {
            if let LedgerEntryData::ContractData(d) = &entry.data {
                mine.insert(k.clone(), d.val.clone());
            }
        }
        !api.is_empty() && api == mine
    }

    fn set(&self, i: &DocInst, name: u16, uri: &str, h: u8, seq: u32) -> bool {
        let e = &i.e;
        set_time(e, seq);
        let args: SVec<Val> = (doc_name(e, name), SString::from_str(e, uri), BytesN::<32>::from_array(e, &[h; 32])).into_val(e);
        call_mocked(e, &i.c, "set_document", args).is_ok()
    }

    fn call(&self, i: &DocInst, op: &DocOp) -> bool {
        match op {
            DocOp::Set { name, var, at } => {
                let (u, h) = doc_var(*var);
                self.set(i, *name, &u, h, START + 1 + at)
            }
            DocOp::SetUri { name, len, at } => self.set(i, *name, &"x".repeat(*len as usize), 9, START + 1 + at),
            DocOp::Remove(name) => call_mocked(&i.e, &i.c, "remove_document", (doc_name(&i.e, *name),).into_val(&i.e)).is_ok(),
            DocOp::IdleProbe => false,
        }
    }

    fn expect(&self, m: &BTreeMap<u16, DocVal>, op: &DocOp) -> Ex {
        match op {
            DocOp::IdleProbe => open(),
            DocOp::Remove(n) => {
                if m.contains_key(n) {
                    must(true, "valid-op-accepted", format!("document {n} exists"))
                } else {
                    must(false, "absent-removal-refused", format!("document {n} does not exist"))
                }
            }
            DocOp::Set { name, .. } | DocOp::SetUri { name, .. } => {
                let len = match op {
                    DocOp::SetUri { len, .. } => *len,
                    _ => 1,
                };
                if len > MAX_URI {
                    must(false, "limit-exact", format!("the URI has {len} characters and the documented maximum is {MAX_URI}"))
                } else if m.contains_key(name) {
                    must(true, if len == MAX_URI { "limit-exact" } else { "valid-op-accepted" }, format!("document {name} exists and is updated"))
                } else if m.len() >= MAX_DOCS {
                    must(false, "limit-exact", format!("{} documents are stored and the documented maximum is {MAX_DOCS}", m.len()))
                } else {
                    must(
                        true,
                        if len == MAX_URI { "limit-exact" } else { add_oracle(m.len(), MAX_DOCS) },
                        format!("document {name} is new and {} of at most {MAX_DOCS} documents are stored", m.len()),
                    )
                }
            }
        }
    }

    fn val_of(d: &dm::Document) -> DocVal {
        (d.uri.to_string(), d.document_hash.to_array()[0], d.timestamp)
    }

    fn probes(&self, i: &DocInst) -> Vec<u16> {
        let mut p = self.universe.clone();
        if i.fillers > 0 {
            p.push(100);
            p.push(100 + i.fillers as u16 - 1);
            p.push(100 + (i.fillers as u16) / 2);
        }
        p.sort();
        p.dedup();
        p
    }

    fn observe(&self, i: &DocInst, m: &BTreeMap<u16, DocVal>, cx: &mut StepCtx<Self>) -> Result<(), Violation> {
        let e = &i.e;
        let mut n = 0u64;
        let count: u32 = getv(e, &i.c, "get_document_count", no_args(e)).ok_or_else(|| Violation::new("getter", "get_document_count failed".into()))?;
        ensure!(count as usize == m.len(), "document-count", "get_document_count = {}, model {}", count, m.len());
        n += 1;
        for x in self.probes(i) {
            let d: Option<dm::Document> = getv(e, &i.c, "get_document", (doc_name(e, x),).into_val(e));
            let got = d.as_ref().map(Self::val_of);
            n += 1;
            ensure!(got.as_ref() == m.get(&x), "get-document", "get_document({}) = {:?} (None = refused), model {:?}", x, got, m.get(&x));
        }
        // buckets: union is the map, no name twice
        let buckets = (count as usize).div_ceil(DOC_BUCKET) as u32;
        let mut listed: Vec<(u16, DocVal)> = vec![];
        for b in 0..buckets + 2 {
            let v: SVec<(BytesN<32>, dm::Document)> =
                getv(e, &i.c, "get_documents", (b,).into_val(e)).ok_or_else(|| Violation::new("getter", format!("get_documents({b}) failed")))?;
            n += 1;
            ensure!(b < buckets || v.is_empty(), "get-documents", "get_documents({}) is not empty although {} documents fit in {} buckets", b, count, buckets);
            for (nm, d) in v.iter() {
                listed.push((doc_id(&nm)?, Self::val_of(&d)));
            }
        }
        as_set(listed.iter().map(|x| x.0), "get_documents over all buckets")?;
        let got: BTreeMap<u16, DocVal> = listed.into_iter().collect();
        ensure!(got == *m, "get-documents", "the buckets hold {} documents, the model {}; first difference: {:?}", got.len(), m.len(), first_diff(&got, m));
        // index access
        let idxs: Vec<u32> = if (count as usize) <= self.full_index_scan_up_to {
            (0..count).collect()
        } else {
            let b = DOC_BUCKET as u32;
            let last_edge = (count / b) * b;
            let mut s = BTreeSet::new();
            for edge in [0, b, 2 * b, last_edge.saturating_sub(b), last_edge, count] {
                for d in [edge.saturating_sub(2), edge.saturating_sub(1), edge, edge + 1] {
                    if d < count {
                        s.insert(d);
                    }
                }
            }
            s.into_iter().collect()
        };
        let mut by_index: Vec<(u16, DocVal)> = vec![];
        for ix in &idxs {
            let r: Option<(BytesN<32>, dm::Document)> = getv(e, &i.c, "get_document_by_index", (*ix,).into_val(e));
            n += 1;
            let (nm, d) = r.ok_or_else(|| Violation::new("index-access", format!("get_document_by_index({ix}) refused although {count} documents are stored")))?;
            by_index.push((doc_id(&nm)?, Self::val_of(&d)));
        }
        as_set(by_index.iter().map(|x| x.0), "get_document_by_index over the scanned indices")?;
        for (k, v) in &by_index {
            ensure!(m.get(k) == Some(v), "index-access", "index access returned document {} = {:?}, model {:?}", k, v, m.get(k));
        }
        if idxs.len() == count as usize {
            ensure!(by_index.len() == m.len(), "index-access", "indices 0..{} enumerate {} documents, model {}", count, by_index.len(), m.len());
        }
        let past: Option<(BytesN<32>, dm::Document)> = getv(e, &i.c, "get_document_by_index", (count,).into_val(e));
        n += 1;
        ensure!(past.is_none(), "index-access", "get_document_by_index({}) answered although only {} documents are stored", count, count);
        cx.stats.count("getter-comparisons", n);
        Ok(())
    }
}

fn first_diff<K: Ord + Clone + Debug, V: PartialEq + Clone + Debug>(a: &BTreeMap<K, V>, b: &BTreeMap<K, V>) -> Option<(K, Option<V>, Option<V>)> {
    for k in a.keys().chain(b.keys()) {
        if a.get(k) != b.get(k) {
            return Some((k.clone(), a.get(k).cloned(), b.get(k).cloned()));
        }
    }
    None
}

impl World for Docs {
    type Op = DocOp;
    type Model = BTreeMap<u16, DocVal>;
    type Inst = DocInst;

    fn name(&self) -> String {
        self.name.into()
    }
    fn seeds(&self) -> usize {
        self.seeds.len()
    }
    fn seed_name(&self, s: usize) -> String {
        format!("{} documents stored", self.seeds[s])
    }

    fn fresh(&self, seed: usize) -> (DocInst, BTreeMap<u16, DocVal>) {
        let n = self.seeds[seed];
        self.build(n, n > DIRECT_SEED_ABOVE)
    }

    fn ops(&self, i: &DocInst, _m: &BTreeMap<u16, DocVal>, d: usize) -> Vec<DocOp> {
        let at = d as u32;
        let mut v = vec![];
        for x in &self.universe {
            for var in &self.vars {
                v.push(DocOp::Set { name: *x, var: *var, at });
            }
        }
        for x in self.probes(i) {
            v.push(DocOp::Remove(x));
        }
        if self.uri_probes {
            v.push(DocOp::SetUri { name: self.universe[0], len: MAX_URI, at });
            v.push(DocOp::SetUri { name: self.universe[0], len: MAX_URI + 1, at });
        }
        v.push(DocOp::IdleProbe);
        v
    }

    fn kind(&self, op: &DocOp) -> String {
        match op {
            DocOp::Set { .. } | DocOp::SetUri { .. } => "docs.set_document",
            DocOp::Remove(_) => "docs.remove_document",
            DocOp::IdleProbe => "idle-probe",
        }
        .into()
    }

    fn leaf_only(&self, op: &DocOp) -> bool {
        matches!(op, DocOp::SetUri { .. })
    }

    fn apply(&self, i: &mut DocInst, op: &DocOp) {
        self.call(i, op);
    }

    fn step(&self, i: &mut DocInst, m: &mut BTreeMap<u16, DocVal>, op: &DocOp, cx: &mut StepCtx<Self>) -> Result<bool, Violation> {
        if matches!(op, DocOp::IdleProbe) {
            return idle_probe(cx, |c: &DocInst| &c.e, |c, cx2| self.observe(c, m, cx2));
        }
        let x = self.expect(m, op);
        let ok = self.call(i, op);
        check_outcome(ok, &x, op)?;
        if ok {
            let ts = i.e.ledger().timestamp();
            match op {
                DocOp::Set { name, var, .. } => {
                    let (u, h) = doc_var(*var);
                    m.insert(*name, (u, h, ts));
                }
                DocOp::SetUri { name, len, .. } => {
                    m.insert(*name, ("x".repeat(*len as usize), 9, ts));
                }
                DocOp::Remove(name) => {
                    m.remove(name);
                }
                DocOp::IdleProbe => {}
            }
            if x.oracle == "limit-exact" {
                cx.stats.count("accepted-at-limit", 1);
            }
            self.observe(i, m, cx)?;
        } else if x.ok == Some(false) {
            cx.stats.count(&format!("refused.{}", x.oracle), 1);
        }
        Ok(ok)
    }

    fn key(&self, i: &DocInst) -> [u8; 32] {
        if i.snap {
            touched_digest(&i.e)
        } else {
            envx::storage_digest(&i.e, false)
        }
    }
    fn model_digest(&self, m: &BTreeMap<u16, DocVal>) -> u64 {
        dig(m)
    }
}

fn doc_worlds(tier: Tier) -> Vec<(Docs, usize)> {
    let th = tier == Tier::Thorough;
    let mut v = vec![
        (
            Docs { name: "documents", seeds: vec![0], universe: vec![0, 1, 2], vars: vec![0, 1], uri_probes: true, full_index_scan_up_to: 1000, snap: Default::default() },
            tier.pick(5, 6),
        ),
        (
            Docs {
                name: "documents-bucket-edge",
                seeds: if th { vec![49, 50, 51, 99, 100] } else { vec![49, 50, 51] },
                universe: vec![0, 1],
                vars: vec![0],
                uri_probes: false,
                full_index_scan_up_to: 1000,
                snap: Default::default(),
            },
            tier.pick(3, 4),
        ),
    ];
    {
        v.push((
            Docs {
                name: "documents-capacity",
                seeds: vec![MAX_DOCS - tier.pick(1, 2)],
                universe: vec![0, 1, 2],
                vars: vec![0],
                uri_probes: false,
                full_index_scan_up_to: 0,
                snap: Default::default(),
            },
            tier.pick(2, 4),
        ));
    }
    v
}

// ==========================================================================================
// (5) identity registry storage: account -> (identity, type, country entries), recovery links

const MAX_COUNTRY: usize = 15;
const MAX_METADATA_ENTRIES: usize = 10;
const MAX_METADATA_STRING: usize = 100;

use stellar_tokens::rwa::identity_registry_storage as irs;

#[derive(Clone, Debug, PartialEq, Eq)]
enum IrsOp {
    Add { acc: u16, ident: u16, org: bool, cds: Vec<u8> },
    Modify(u16, u16),
    Remove(u16),
    Recover(u16, u16),
    AddCd(u16, Vec<u8>),
    ModCd(u16, u32, u8),
    DelCd(u16, u32),
    /// see `idle_probe` (recovery links are permanent, identities and country entries persistent)
    IdleProbe,
}

#[derive(Clone, Debug, Default, Hash, PartialEq)]
struct IrsModel {
    /// account -> (identity, is organization, country entries in the order the registry lists them)
    ids: BTreeMap<u16, (u16, bool, Vec<u8>)>,
    /// old account -> new account, permanent
    rec: BTreeMap<u16, u16>,
}

struct Irs {
    name: &'static str,
    /// seed: `Some(n)` = account 0 registered with identity 10 and n entries of variant 0
    seeds: Vec<Option<usize>>,
    accounts: Vec<u16>,
    idents: Vec<u16>,
    adds: Vec<(u16, bool, Vec<u8>)>, // (identity, org, entries) offered for every account
    add_cds: Vec<Vec<u8>>,
    mod_cd: u8,
}

struct IrsInst {
    e: Env,
    c: Address,
    book: Book,
}

fn cd_of(e: &Env, v: u8) -> irs::CountryData {
    use irs::{CountryData, CountryRelation, IndividualCountryRelation as I, OrganizationCountryRelation as O};
    match v {
        0 => CountryData { country: CountryRelation::Individual(I::Residence(840)), metadata: None },
        1 => CountryData { country: CountryRelation::Organization(O::Incorporation(276)), metadata: None },
        // metadata probes: 10 = ten entries of 100 characters (both documented maxima), 11 = eleven
        // entries, 12 = one entry of 101 characters
        10..=12 => {
            let mut md = SMap::new(e);
            let (entries, len) = match v {
                10 => (MAX_METADATA_ENTRIES, MAX_METADATA_STRING),
                11 => (MAX_METADATA_ENTRIES + 1, 1),
                _ => (1, MAX_METADATA_STRING + 1),
            };
            for k in 0..entries {
                md.set(soroban_sdk::Symbol::new(e, &format!("k{k}")), SString::from_str(e, &"m".repeat(len)));
            }
            CountryData { country: CountryRelation::Individual(I::TaxResidency(900 + v as u32)), metadata: Some(md) }
        }
        _ => {
            let mut md = SMap::new(e);
            md.set(soroban_sdk::Symbol::new(e, "note"), SString::from_str(e, "v"));
            CountryData { country: CountryRelation::Individual(I::Citizenship(4 + v as u32)), metadata: Some(md) }
        }
    }
}

fn cd_id(e: &Env, d: &irs::CountryData) -> Result<u8, Violation> {
    for v in (0..6u8).chain(10..13u8) {
        if cd_of(e, v) == *d {
            return Ok(v);
        }
    }
    Err(Violation::new("outside-universe", "a country data entry that was never stored is listed".into()))
}

fn sorted(mut v: Vec<u8>) -> Vec<u8> {
    v.sort();
    v
}

impl Irs {
    fn cds(e: &Env, l: &[u8]) -> SVec<irs::CountryData> {
        let mut v = SVec::new(e);
        for x in l {
            v.push_back(cd_of(e, *x));
        }
        v
    }

    fn call(&self, i: &IrsInst, op: &IrsOp) -> bool {
        let e = &i.e;
        let a = |x: &u16| i.book.a(*x);
        let (f, args): (&str, SVec<Val>) = match op {
            IrsOp::Add { acc, ident, org, cds } => {
                let t = if *org { irs::IdentityType::Organization } else { irs::IdentityType::Individual };
                ("add_identity", (a(acc), a(ident), t, Self::cds(e, cds)).into_val(e))
            }
            IrsOp::Modify(acc, ident) => ("modify_identity", (a(acc), a(ident)).into_val(e)),
            IrsOp::Remove(acc) => ("remove_identity", (a(acc),).into_val(e)),
            IrsOp::Recover(o, n) => ("recover_identity", (a(o), a(n)).into_val(e)),
            IrsOp::AddCd(acc, l) => ("add_country_data_entries", (a(acc), Self::cds(e, l)).into_val(e)),
            IrsOp::ModCd(acc, ix, v) => ("modify_country_data", (a(acc), *ix, cd_of(e, *v)).into_val(e)),
            IrsOp::DelCd(acc, ix) => ("delete_country_data", (a(acc), *ix).into_val(e)),
            IrsOp::IdleProbe => return false,
        };
        call_mocked(e, &i.c, f, args).is_ok()
    }

    fn expect(&self, m: &IrsModel, op: &IrsOp) -> Ex {
        let absent = |acc: &u16| must(false, "absent-removal-refused", format!("account {acc} has no stored identity"));
        let used: Vec<u8> = match op {
            IrsOp::Add { cds, .. } => cds.clone(),
            IrsOp::AddCd(_, l) => l.clone(),
            IrsOp::ModCd(_, _, v) => vec![*v],
            _ => vec![],
        };
        if used.iter().any(|v| *v == 11 || *v == 12) {
            return must(
                false,
                "limit-exact",
                format!("a country entry carries more than {MAX_METADATA_ENTRIES} metadata entries or a metadata string longer than {MAX_METADATA_STRING} characters"),
            );
        }
        match op {
            IrsOp::IdleProbe => open(),
            IrsOp::Add { acc, cds, .. } => {
                if m.rec.contains_key(acc) {
                    must(false, "recovered-never-registered-again", format!("account {acc} was recovered to {:?}", m.rec.get(acc)))
                } else if cds.is_empty() {
                    must(false, "invalid-input-refused", "the country list is empty")
                } else if cds.len() > MAX_COUNTRY {
                    must(false, "limit-exact", format!("{} country entries exceed the documented maximum {MAX_COUNTRY}", cds.len()))
                } else if m.ids.contains_key(acc) {
                    must(false, "duplicate-refused", format!("account {acc} already has an identity"))
                } else {
                    must(
                        true,
                        if cds.len() == MAX_COUNTRY { "limit-exact" } else { "valid-op-accepted" },
                        format!("account {acc} is unregistered, never recovered, and brings {} (<= {MAX_COUNTRY}) country entries", cds.len()),
                    )
                }
            }
            IrsOp::Modify(acc, _) => {
                if m.ids.contains_key(acc) {
                    must(true, "valid-op-accepted", format!("account {acc} has an identity"))
                } else {
                    absent(acc)
                }
            }
            IrsOp::Remove(acc) => {
                if m.ids.contains_key(acc) {
                    must(true, "valid-op-accepted", format!("account {acc} has an identity"))
                } else {
                    absent(acc)
                }
            }
            IrsOp::Recover(o, n) => {
                if m.rec.contains_key(n) {
                    must(false, "recovered-never-registered-again", format!("the new account {n} was itself recovered to {:?}", m.rec.get(n)))
                } else if !m.ids.contains_key(o) {
                    absent(o)
                } else if m.ids.contains_key(n) {
                    must(false, "duplicate-refused", format!("the new account {n} already has an identity"))
                } else {
                    must(true, "valid-op-accepted", format!("account {o} has an identity, account {n} has none and was never recovered"))
                }
            }
            IrsOp::AddCd(acc, l) => match m.ids.get(acc) {
                _ if l.is_empty() => must(false, "invalid-input-refused", "the country list is empty"),
                None => absent(acc),
                Some((_, _, cur)) => {
                    if cur.len() + l.len() > MAX_COUNTRY {
                        must(false, "limit-exact", format!("{} + {} country entries exceed the documented maximum {MAX_COUNTRY}", cur.len(), l.len()))
                    } else {
                        must(
                            true,
                            if cur.len() + l.len() == MAX_COUNTRY { "limit-exact" } else { "valid-op-accepted" },
                            format!("{} + {} country entries do not exceed the documented maximum {MAX_COUNTRY}", cur.len(), l.len()),
                        )
                    }
                }
            },
            IrsOp::ModCd(acc, ix, _) => match m.ids.get(acc) {
                None => absent(acc),
                Some((_, _, cur)) => {
                    if (*ix as usize) < cur.len() {
                        must(true, "valid-op-accepted", format!("entry {ix} of account {acc} exists"))
                    } else {
                        must(false, "absent-removal-refused", format!("account {acc} has only {} entries", cur.len()))
                    }
                }
            },
            IrsOp::DelCd(acc, ix) => match m.ids.get(acc) {
                None => absent(acc),
                Some((_, _, cur)) => {
                    if (*ix as usize) >= cur.len() {
                        must(false, "absent-removal-refused", format!("account {acc} has only {} entries", cur.len()))
                    } else if cur.len() == 1 {
                        must(false, "invalid-input-refused", "the last country entry of an identity cannot be deleted (documented)")
                    } else {
                        must(true, "valid-op-accepted", format!("entry {ix} of account {acc} exists and is not the only one"))
                    }
                }
            },
        }
    }

    /// Model step. Country entries are a multiset: index-based edits refer to the order the
    /// registry itself reported before the step (kept in the model), and the order after the step
    /// is taken from the registry once the multiset has been checked (`observe`).
    fn update(m: &mut IrsModel, op: &IrsOp) {
        match op {
            IrsOp::Add { acc, ident, org, cds } => {
                m.ids.insert(*acc, (*ident, *org, cds.clone()));
            }
            IrsOp::Modify(acc, ident) => {
                m.ids.get_mut(acc).unwrap().0 = *ident;
            }
            IrsOp::Remove(acc) => {
                m.ids.remove(acc);
            }
            IrsOp::Recover(o, n) => {
                let v = m.ids.remove(o).unwrap();
                m.ids.insert(*n, v);
                m.rec.insert(*o, *n);
            }
            IrsOp::AddCd(acc, l) => m.ids.get_mut(acc).unwrap().2.extend(l.iter().copied()),
            IrsOp::ModCd(acc, ix, v) => m.ids.get_mut(acc).unwrap().2[*ix as usize] = *v,
            IrsOp::DelCd(acc, ix) => {
                m.ids.get_mut(acc).unwrap().2.remove(*ix as usize);
            }
            IrsOp::IdleProbe => {}
        }
    }

    fn observe(&self, i: &IrsInst, m: &mut IrsModel, cx: &mut StepCtx<Self>) -> Result<(), Violation> {
        let e = &i.e;
        let mut n = 0u64;
        for acc in &self.accounts {
            let a = i.book.a(*acc);
            let want = m.ids.get(acc).cloned();
            let sid: Option<Address> = getv(e, &i.c, "stored_identity", (a.clone(),).into_val(e));
            let sid = match sid {
                Some(x) => Some(i.book.id(&x, "stored_identity")?),
                None => None,
            };
            ensure!(sid == want.as_ref().map(|w| w.0), "stored-identity", "stored_identity({}) = {:?} (None = refused), model {:?}", acc, sid, want.as_ref().map(|w| w.0));
            let prof: Option<irs::IdentityProfile> = getv(e, &i.c, "get_identity_profile", (a.clone(),).into_val(e));
            let entries: SVec<irs::CountryData> =
                getv(e, &i.c, "get_country_data_entries", (a.clone(),).into_val(e)).ok_or_else(|| Violation::new("getter", "get_country_data_entries failed".into()))?;
            n += 3;
            let mut listed = vec![];
            for d in entries.iter() {
                listed.push(cd_id(e, &d)?);
            }
            match (&prof, &want) {
                (None, None) => ensure!(listed.is_empty(), "country-entries", "get_country_data_entries({}) lists {:?} although the account has no identity", acc, listed),
                (Some(p), Some((_, org, cds))) => {
                    ensure!((p.identity_type == irs::IdentityType::Organization) == *org, "identity-profile", "get_identity_profile({}) has the wrong identity type", acc);
                    let mut pl = vec![];
                    for d in p.countries.iter() {
                        pl.push(cd_id(e, &d)?);
                    }
                    ensure!(pl == listed, "identity-profile", "get_identity_profile({}).countries = {:?} but get_country_data_entries = {:?}", acc, pl, listed);
                    ensure!(sorted(listed.clone()) == sorted(cds.clone()), "country-entries", "get_country_data_entries({}) = {:?}, model (as a multiset) {:?}", acc, listed, cds);
                    // index access: every entry exactly once, one past the end refused
                    let mut by_index = vec![];
                    for ix in 0..listed.len() as u32 {
                        let d: Option<irs::CountryData> = getv(e, &i.c, "get_country_data", (a.clone(), ix).into_val(e));
                        n += 1;
                        let d = d.ok_or_else(|| Violation::new("index-access", format!("get_country_data({acc}, {ix}) refused although {} entries exist", listed.len())))?;
                        by_index.push(cd_id(e, &d)?);
                    }
                    ensure!(sorted(by_index.clone()) == sorted(listed.clone()), "index-access", "get_country_data({}, 0..{}) = {:?}, entries {:?}", acc, listed.len(), by_index, listed);
                    // adopt the registry's order for the next index-based edit
                    m.ids.get_mut(acc).unwrap().2 = by_index;
                }
                (Some(_), None) => ensure!(false, "identity-profile", "get_identity_profile({}) answered although the account has no identity", acc),
                (None, Some(_)) => ensure!(false, "identity-profile", "get_identity_profile({}) refused although the account has an identity", acc),
            }
            let past: Option<irs::CountryData> = getv(e, &i.c, "get_country_data", (a.clone(), listed.len() as u32).into_val(e));
            ensure!(past.is_none(), "index-access", "get_country_data({}, {}) answered although only {} entries exist", acc, listed.len(), listed.len());
            let r: Option<Option<Address>> = getv(e, &i.c, "get_recovered_to", (a.clone(),).into_val(e));
            n += 2;
            let r = r.ok_or_else(|| Violation::new("getter", "get_recovered_to failed".into()))?;
            let r = match r {
                Some(x) => Some(i.book.id(&x, "get_recovered_to")?),
                None => None,
            };
            ensure!(r == m.rec.get(acc).copied(), "recovery-link-permanent", "get_recovered_to({}) = {:?}, model {:?}", acc, r, m.rec.get(acc));
        }
        cx.stats.count("getter-comparisons", n);
        Ok(())
    }
}

impl World for Irs {
    type Op = IrsOp;
    type Model = IrsModel;
    type Inst = IrsInst;

    fn name(&self) -> String {
        self.name.into()
    }
    fn seeds(&self) -> usize {
        self.seeds.len()
    }
    fn seed_name(&self, s: usize) -> String {
        match self.seeds[s] {
            None => "empty".into(),
            Some(n) => format!("account 0 with {n} country entries"),
        }
    }

    fn fresh(&self, seed: usize) -> (IrsInst, IrsModel) {
        let e = envx::mk_env(START);
        let c = e.register(wrap::IrsWrap, ());
        let mut book = Book::new();
        for x in self.accounts.iter().chain(self.idents.iter()) {
            book.gen(&e, *x);
        }
        let i = IrsInst { e, c, book };
        let mut m = IrsModel::default();
        if let Some(n) = self.seeds[seed] {
            let op = IrsOp::Add { acc: self.accounts[0], ident: self.idents[0], org: false, cds: vec![0; n] };
            assert!(self.call(&i, &op), "seed construction: add_identity failed");
            Self::update(&mut m, &op);
        }
        (i, m)
    }

    fn ops(&self, _i: &IrsInst, m: &IrsModel, _d: usize) -> Vec<IrsOp> {
        let mut v = vec![];
        for acc in &self.accounts {
            for (ident, org, cds) in &self.adds {
                v.push(IrsOp::Add { acc: *acc, ident: *ident, org: *org, cds: cds.clone() });
            }
        }
        for acc in &self.accounts {
            for ident in &self.idents {
                v.push(IrsOp::Modify(*acc, *ident));
            }
        }
        for acc in &self.accounts {
            v.push(IrsOp::Remove(*acc));
        }
        for o in &self.accounts {
            for n in &self.accounts {
                v.push(IrsOp::Recover(*o, *n));
            }
        }
        for acc in &self.accounts {
            for l in &self.add_cds {
                v.push(IrsOp::AddCd(*acc, l.clone()));
            }
            let len = m.ids.get(acc).map(|x| x.2.len()).unwrap_or(0) as u32;
            let mut idx = vec![0, len.saturating_sub(1), len];
            idx.dedup();
            for ix in &idx {
                v.push(IrsOp::ModCd(*acc, *ix, self.mod_cd));
            }
            for ix in &idx {
                v.push(IrsOp::DelCd(*acc, *ix));
            }
        }
        v.push(IrsOp::IdleProbe);
        v
    }

    fn kind(&self, op: &IrsOp) -> String {
        match op {
            IrsOp::Add { .. } => "irs.add_identity",
            IrsOp::Modify(..) => "irs.modify_identity",
            IrsOp::Remove(_) => "irs.remove_identity",
            IrsOp::Recover(..) => "irs.recover_identity",
            IrsOp::AddCd(..) => "irs.add_country_data_entries",
            IrsOp::ModCd(..) => "irs.modify_country_data",
            IrsOp::DelCd(..) => "irs.delete_country_data",
            IrsOp::IdleProbe => "idle-probe",
        }
        .into()
    }

    fn leaf_only(&self, op: &IrsOp) -> bool {
        matches!(op, IrsOp::AddCd(_, l) if l.iter().any(|v| *v >= 10))
    }

    fn apply(&self, i: &mut IrsInst, op: &IrsOp) {
        self.call(i, op);
    }

    fn step(&self, i: &mut IrsInst, m: &mut IrsModel, op: &IrsOp, cx: &mut StepCtx<Self>) -> Result<bool, Violation> {
        if matches!(op, IrsOp::IdleProbe) {
            // the observation adopts the registry's entry order: on a copy of the model
            let mut m2 = m.clone();
            return idle_probe(cx, |c: &IrsInst| &c.e, |c, cx2| self.observe(c, &mut m2, cx2));
        }
        let x = self.expect(m, op);
        let ok = self.call(i, op);
        check_outcome(ok, &x, op)?;
        if ok {
            Self::update(m, op);
            if x.oracle == "limit-exact" {
                cx.stats.count("accepted-at-limit", 1);
            }
            self.observe(i, m, cx)?;
        } else if x.ok == Some(false) {
            cx.stats.count(&format!("refused.{}", x.oracle), 1);
        }
        Ok(ok)
    }

    fn key(&self, i: &IrsInst) -> [u8; 32] {
        envx::storage_digest(&i.e, false)
    }
    fn model_digest(&self, m: &IrsModel) -> u64 {
        dig(m)
    }
}

fn irs_worlds(tier: Tier) -> Vec<(Irs, usize)> {
    let th = tier == Tier::Thorough;
    vec![
        (
            Irs {
                name: "identity-registry",
                seeds: vec![None],
                accounts: vec![0, 1, 2],
                idents: vec![10, 11],
                adds: if th { vec![(10, false, vec![0]), (11, true, vec![0, 1]), (10, false, vec![])] } else { vec![(10, false, vec![0, 1]), (11, true, vec![])] },
                add_cds: if th { vec![vec![2], vec![]] } else { vec![vec![2]] },
                mod_cd: 3,
            },
            tier.pick(5, 6),
        ),
        (
            Irs {
                name: "identity-registry-country-limit",
                seeds: vec![Some(MAX_COUNTRY - 1)],
                accounts: vec![0, 1],
                idents: vec![10],
                adds: vec![(10, false, vec![1; MAX_COUNTRY]), (10, false, vec![1; MAX_COUNTRY + 1])],
                add_cds: vec![vec![2], vec![2, 2], vec![10], vec![11], vec![12]],
                mod_cd: 3,
            },
            tier.pick(3, 4),
        ),
    ]
}

// ==========================================================================================
// (6) identity claims: claim id(issuer, topic) -> claim, topic -> claim ids

use stellar_tokens::rwa::identity_claims as ic;

#[derive(Clone, Debug, PartialEq, Eq)]
enum ClaimOp {
    Add { iss: u16, topic: u32, var: u8 },
    Remove { iss: u16, topic: u32 },
    /// see `idle_probe`
    IdleProbe,
}

struct Claims {
    name: &'static str,
    /// issuers 0.. accept every claim; REJECTING rejects every claim
    issuers: Vec<u16>,
    topics: Vec<u32>,
    vars: Vec<u8>,
}

const REJECTING: u16 = 9;

struct ClaimInst {
    e: Env,
    c: Address,
    book: Book,
}

type ClaimVal = (u32, Vec<u8>, Vec<u8>, String); // scheme, signature, data, uri

fn claim_var(var: u8) -> ClaimVal {
    (101 + var as u32, vec![0x50 + var; 64], vec![0xd0 + var; 5 + var as usize], format!("https://claims.example/{var}"))
}

impl Claims {
    fn id_of(&self, i: &ClaimInst, iss: u16, topic: u32) -> BytesN<32> {
        getv(&i.e, &i.c, "claim_id", (i.book.a(iss), topic).into_val(&i.e)).expect("claim_id")
    }

    /// `Ok(Some(id))` accepted with this returned claim id, `Ok(None)` refused
    fn call(&self, i: &ClaimInst, op: &ClaimOp) -> Option<Option<BytesN<32>>> {
        let e = &i.e;
        match op {
            ClaimOp::Add { iss, topic, var } => {
                let (scheme, sig, data, uri) = claim_var(*var);
                let args: SVec<Val> =
                    (*topic, scheme, i.book.a(*iss), Bytes::from_slice(e, &sig), Bytes::from_slice(e, &data), SString::from_str(e, &uri)).into_val(e);
                match call_mocked(e, &i.c, "add_claim", args) {
                    Ok(v) => Some(Some(BytesN::<32>::try_from_val(e, &v).expect("claim id"))),
                    Err(_) => None,
                }
            }
            ClaimOp::Remove { iss, topic } => {
                let id = self.id_of(i, *iss, *topic);
                call_mocked(e, &i.c, "remove_claim", (id,).into_val(e)).ok().map(|_| None)
            }
            ClaimOp::IdleProbe => None,
        }
    }

    fn all_issuers(&self) -> Vec<u16> {
        let mut v = self.issuers.clone();
        v.push(REJECTING);
        v
    }

    fn observe(&self, i: &ClaimInst, m: &BTreeMap<(u16, u32), u8>, cx: &mut StepCtx<Self>) -> Result<(), Violation> {
        let e = &i.e;
        let mut n = 0u64;
        let mut topics = self.topics.clone();
        topics.push(77);
        let mut ids: BTreeMap<Vec<u8>, (u16, u32)> = BTreeMap::new();
        for iss in self.all_issuers() {
            for t in &topics {
                let id = self.id_of(i, iss, *t);
                let prev = ids.insert(id.to_array().to_vec(), (iss, *t));
                ensure!(prev.is_none(), "claim-id", "claims ({}, {}) and {:?} share one claim id", iss, t, prev);
                let c: Option<ic::Claim> = getv(e, &i.c, "get_claim", (id,).into_val(e));
                n += 1;
                match (c, m.get(&(iss, *t))) {
                    (None, None) => {}
                    (Some(c), Some(var)) => {
                        let (scheme, sig, data, uri) = claim_var(*var);
                        let same = c.topic == *t
                            && c.scheme == scheme
                            && c.issuer == i.book.a(iss)
                            && c.signature == Bytes::from_slice(e, &sig)
                            && c.data == Bytes::from_slice(e, &data)
                            && c.uri == SString::from_str(e, &uri);
                        ensure!(same, "get-claim", "get_claim(id({}, {})) does not hold the claim stored last (variant {})", iss, t, var);
                    }
                    (Some(_), None) => ensure!(false, "get-claim", "get_claim(id({}, {})) answered although no such claim is stored", iss, t),
                    (None, Some(_)) => ensure!(false, "get-claim", "get_claim(id({}, {})) refused although the claim is stored", iss, t),
                }
            }
        }
        for t in &topics {
            let v: SVec<BytesN<32>> =
                getv(e, &i.c, "get_claim_ids_by_topic", (*t,).into_val(e)).ok_or_else(|| Violation::new("getter", "get_claim_ids_by_topic failed".into()))?;
            n += 1;
            let mut listed = vec![];
            for id in v.iter() {
                let k = ids.get(&id.to_array().to_vec()).ok_or_else(|| Violation::new("outside-universe", format!("get_claim_ids_by_topic({t}) lists an unknown claim id")))?;
                listed.push(*k);
            }
            let got = as_set(listed, "get_claim_ids_by_topic")?;
            let want: BTreeSet<(u16, u32)> = m.keys().filter(|k| k.1 == *t).copied().collect();
            ensure!(got == want, "claim-ids-by-topic", "get_claim_ids_by_topic({}) = {:?}, model {:?}", t, got, want);
        }
        cx.stats.count("getter-comparisons", n);
        Ok(())
    }
}

impl World for Claims {
    type Op = ClaimOp;
    type Model = BTreeMap<(u16, u32), u8>;
    type Inst = ClaimInst;

    fn name(&self) -> String {
        self.name.into()
    }

    fn fresh(&self, _seed: usize) -> (ClaimInst, Self::Model) {
        let e = envx::mk_env(START);
        let c = e.register(wrap::ClaimsWrap, ());
        let mut book = Book::new();
        for x in &self.issuers {
            book.fwd.insert(*x, e.register(wrap::IssuerYes, ()));
        }
        book.fwd.insert(REJECTING, e.register(wrap::IssuerNo, ()));
        (ClaimInst { e, c, book }, BTreeMap::new())
    }

    fn ops(&self, _i: &ClaimInst, _m: &Self::Model, _d: usize) -> Vec<ClaimOp> {
        let mut v = vec![];
        for iss in self.all_issuers() {
            for t in &self.topics {
                for var in &self.vars {
                    if iss == REJECTING && *var != self.vars[0] {
                        continue;
                    }
                    v.push(ClaimOp::Add { iss, topic: *t, var: *var });
                }
            }
        }
        for iss in self.all_issuers() {
            for t in &self.topics {
                v.push(ClaimOp::Remove { iss, topic: *t });
            }
        }
        v.push(ClaimOp::IdleProbe);
        v
    }

    fn kind(&self, op: &ClaimOp) -> String {
        match op {
            ClaimOp::Add { .. } => "claims.add_claim",
            ClaimOp::Remove { .. } => "claims.remove_claim",
            ClaimOp::IdleProbe => "idle-probe",
        }
        .into()
    }

    fn apply(&self, i: &mut ClaimInst, op: &ClaimOp) {
        self.call(i, op);
    }

    fn step(&self, i: &mut ClaimInst, m: &mut Self::Model, op: &ClaimOp, cx: &mut StepCtx<Self>) -> Result<bool, Violation> {
        if matches!(op, ClaimOp::IdleProbe) {
            return idle_probe(cx, |c: &ClaimInst| &c.e, |c, cx2| self.observe(c, m, cx2));
        }
        let x = match op {
            ClaimOp::IdleProbe => unreachable!(),
            ClaimOp::Add { iss, .. } => {
                if *iss == REJECTING {
                    must(false, "invalid-input-refused", "the issuer rejects the claim")
                } else {
                    must(true, "valid-op-accepted", "the issuer accepts the claim (a claim of the same issuer and topic is replaced)")
                }
            }
            ClaimOp::Remove { iss, topic } => {
                if m.contains_key(&(*iss, *topic)) {
                    must(true, "valid-op-accepted", "the claim is stored")
                } else {
                    must(false, "absent-removal-refused", "no claim of this issuer and topic is stored")
                }
            }
        };
        let r = self.call(i, op);
        let ok = r.is_some();
        check_outcome(ok, &x, op)?;
        if ok {
            match op {
                ClaimOp::Add { iss, topic, var } => {
                    let want = self.id_of(i, *iss, *topic);
                    ensure!(r == Some(Some(want)), "claim-id", "add_claim returned a claim id different from the documented id of (issuer {}, topic {})", iss, topic);
                    m.insert((*iss, *topic), *var);
                }
                ClaimOp::Remove { iss, topic } => {
                    m.remove(&(*iss, *topic));
                }
                ClaimOp::IdleProbe => {}
            }
            self.observe(i, m, cx)?;
        } else if x.ok == Some(false) {
            cx.stats.count(&format!("refused.{}", x.oracle), 1);
        }
        Ok(ok)
    }

    fn key(&self, i: &ClaimInst) -> [u8; 32] {
        envx::storage_digest(&i.e, false)
    }
    fn model_digest(&self, m: &Self::Model) -> u64 {
        dig(m)
    }
}

fn claim_worlds(tier: Tier) -> Vec<(Claims, usize)> {
    let th = tier == Tier::Thorough;
    vec![(
        Claims { name: "identity-claims", issuers: if th { vec![0, 1, 2] } else { vec![0, 1] }, topics: vec![1, 2], vars: vec![0, 1] },
        tier.pick(6, 7),
    )]
}

// ==========================================================================================

pub fn run(tier: Tier, r: &mut Runner) {
    let wall = tier.pick(20, 240);
    for (w, d) in cti_worlds(tier) {
        r.world(&w, &Bounds::new(d, wall));
    }
    for (w, d) in key_worlds(tier) {
        r.world(&w, &Bounds::new(d, wall));
    }
    for (w, d) in binder_worlds(tier) {
        if r.exploring() && w.seeds.iter().any(|n| *n > DIRECT_SEED_ABOVE) && !w.direct_seed_is_faithful() {
            if let Some(rep) = r.report() {
                rep.note(&format!(
                    "{}: SKIPPED — the capacity seed is written directly into storage and the token binder's storage layout no longer matches (a 250-token state built through bind_tokens differs); exact enforcement of MAX_TOKENS was not explored",
                    w.name
                ));
            }
            continue;
        }
        r.world(&w, &Bounds::new(d, wall));
    }
    for (w, d) in doc_worlds(tier) {
        if r.exploring() && w.seeds.iter().any(|n| *n > DIRECT_SEED_ABOVE) && !w.direct_seed_is_faithful() {
            if let Some(rep) = r.report() {
                rep.note(&format!(
                    "{}: SKIPPED — the capacity seed is assembled from ledger entries written under the document manager's public storage types and that layout no longer matches (a 120-document state built through set_document differs); exact enforcement of MAX_DOCUMENTS was not explored",
                    w.name
                ));
            }
            continue;
        }
        r.world(&w, &Bounds::new(d, wall));
    }
    for (w, d) in irs_worlds(tier) {
        r.world(&w, &Bounds::new(d, wall));
    }
    for (w, d) in claim_worlds(tier) {
        r.world(&w, &Bounds::new(d, wall));
    }
    if let Some(rep) = r.report() {
        let both = [
            "cti.add_claim_topic",
            "cti.remove_claim_topic",
            "cti.add_trusted_issuer",
            "cti.remove_trusted_issuer",
            "cti.update_issuer_claim_topics",
            "keys.allow_key",
            "keys.remove_key",
            "binder.bind_token",
            "binder.unbind_token",
            "binder.bind_tokens",
            "docs.set_document",
            "docs.remove_document",
            "irs.add_identity",
            "irs.modify_identity",
            "irs.remove_identity",
            "irs.recover_identity",
            "irs.add_country_data_entries",
            "irs.modify_country_data",
            "irs.delete_country_data",
            "claims.add_claim",
            "claims.remove_claim",
        ];
        rep.require(&both, &both);
        rep.require_counter(&[
            "getter-comparisons",
            "accepted-at-limit",
            "accepted-list-of-15-topics",
            "refused.limit-exact",
            "refused.duplicate-refused",
            "refused.absent-removal-refused",
            "refused.recovered-never-registered-again",
        ]);
        rep.require_counter(&["idle-probes", "getter-comparisons-after-long-idle"]);
    }
}
