//! C20, RWA half — claim topics / trusted issuers, claim-issuer signing keys, token binder,
//! documents, identity registry storage, identity claims.
//!
//! Each registry is its own small BFS world over a thin wrapper contract (bodies = single calls
//! into the library, no operator checks). The reference models are plain `BTreeSet`/`BTreeMap`s
//! written from the property statement and the doc comments of the library functions; after
//! every accepted operation EVERY getter is compared with the model (enumerations as sets, no
//! element twice, index-based access hits every element exactly once, one-past-the-end refused).
//! Acceptance is predicted from the documented preconditions: duplicates and absent removals
//! refused, documented capacity constants enforced exactly (seeds at limit-1).
#![allow(clippy::type_complexity)]

use soroban_sdk::testutils::{Address as _, Ledger as _};
use soroban_sdk::{Address, Bytes, BytesN, Env, IntoVal, Map as SMap, String as SString, TryFromVal, Val, Vec as SVec};
use std::collections::{BTreeMap, BTreeSet};
use std::fmt::Debug;
use vh::auth::{call_mocked, view};
use vh::cli::Runner;
use vh::engine::{dig, Bounds, StepCtx, Violation, World};
use vh::ensure;
use vh::envx;
use vh::report::Tier;

#[path = "../../shared/c20_rwa_wrap.rs"]
mod wrap;

const START: u32 = 1000;

// ------------------------------------------------------------------------------------------
// common helpers

/// Predicted outcome of an operation: `Some(true)` must be accepted, `Some(false)` must be
/// refused, `None` = the documentation leaves it open (the implementation's answer is followed).
struct Ex {
    ok: Option<bool>,
    oracle: &'static str,
    why: String,
}

fn must(ok: bool, oracle: &'static str, why: impl Into<String>) -> Ex {
    Ex { ok: Some(ok), oracle, why: why.into() }
}

fn open() -> Ex {
    Ex { ok: None, oracle: "", why: String::new() }
}

fn check_outcome(ok: bool, x: &Ex, op: &dyn Debug) -> Result<(), Violation> {
    if let Some(want) = x.ok {
        ensure!(ok == want, x.oracle, "{:?} was {} although {}", op, if ok { "accepted" } else { "refused" }, x.why);
    }
    Ok(())
}

/// Oracle name of an accepted addition: the last admissible one before a capacity constant is
/// reported under `limit-exact`.
fn add_oracle(count_before: usize, limit: usize) -> &'static str {
    if count_before + 1 >= limit {
        "limit-exact"
    } else {
        "valid-op-accepted"
    }
}

/// Getter call: `Some(decoded)` when it answered, `None` when it refused (any failure).
fn getv<T: TryFromVal<Env, Val>>(e: &Env, c: &Address, f: &str, args: SVec<Val>) -> Option<T> {
    match view(e, c, f, args) {
        Ok(v) => match T::try_from_val(e, &v) {
            Ok(t) => Some(t),
            Err(_) => panic!("cannot decode the result of {f}"),
        },
        Err(_) => None,
    }
}

fn no_args(e: &Env) -> SVec<Val> {
    SVec::new(e)
}

/// An enumeration as a set; an element listed twice is a violation.
fn as_set<T: Ord + Clone + Debug>(it: impl IntoIterator<Item = T>, what: &str) -> Result<BTreeSet<T>, Violation> {
    let mut s = BTreeSet::new();
    for x in it {
        ensure!(s.insert(x.clone()), "enumeration-no-duplicates", "{} lists {:?} twice", what, x);
    }
    Ok(s)
}

/// Address book: small ids <-> addresses.
struct Book {
    fwd: BTreeMap<u16, Address>,
}

impl Book {
    fn new() -> Self {
        Self { fwd: BTreeMap::new() }
    }
    fn gen(&mut self, e: &Env, id: u16) {
        self.fwd.insert(id, Address::generate(e));
    }
    fn a(&self, id: u16) -> Address {
        self.fwd.get(&id).unwrap_or_else(|| panic!("no address for id {id}")).clone()
    }
    fn id(&self, a: &Address, what: &str) -> Result<u16, Violation> {
        for (k, v) in &self.fwd {
            if v == a {
                return Ok(*k);
            }
        }
        Err(Violation::new("outside-universe", format!("{what} contains an address that was never used")))
    }
    fn ids(&self, v: &SVec<Address>, what: &str) -> Result<Vec<u16>, Violation> {
        let mut out = vec![];
        for a in v.iter() {
            out.push(self.id(&a, what)?);
        }
        Ok(out)
    }
}

fn seed_call(e: &Env, c: &Address, f: &str, args: SVec<Val>) {
    if let Err(x) = call_mocked(e, c, f, args) {
        panic!("seed construction: {f} failed: {x:?}");
    }
}

// ==========================================================================================
// (1) claim topics and trusted issuers

const MAX_TOPICS: usize = 15;
const MAX_ISSUERS: usize = 50;

#[derive(Clone, Debug, PartialEq, Eq)]
enum CtiOp {
    AddTopic(u32),
    RemoveTopic(u32),
    AddIssuer(u16, Vec<u32>),
    RemoveIssuer(u16),
    Update(u16, Vec<u32>),
}

#[derive(Clone, Debug, Default, Hash)]
struct CtiModel {
    topics: BTreeSet<u32>,
    issuers: BTreeMap<u16, BTreeSet<u32>>,
}

#[derive(Clone, Copy, Debug, PartialEq)]
enum CtiSeed {
    Empty,
    /// 14 filler topics 100..113
    Topics14,
    /// topic 100 and 49 filler issuers 100..148, each with topic list [100]
    Issuers49,
}

struct Cti {
    name: &'static str,
    seeds: Vec<CtiSeed>,
    topics: Vec<u32>,
    issuers: Vec<u16>,
    lists: Vec<Vec<u32>>,
    /// filler items that also get remove operations / per-item probes
    probe_topics: Vec<u32>,
    probe_issuers: Vec<u16>,
}

struct CtiInst {
    e: Env,
    c: Address,
    book: Book,
}

impl Cti {
    fn call(&self, i: &CtiInst, op: &CtiOp) -> bool {
        let e = &i.e;
        let (f, args): (&str, SVec<Val>) = match op {
            CtiOp::AddTopic(t) => ("add_claim_topic", (*t,).into_val(e)),
            CtiOp::RemoveTopic(t) => ("remove_claim_topic", (*t,).into_val(e)),
            CtiOp::AddIssuer(x, l) => ("add_trusted_issuer", (i.book.a(*x), SVec::from_slice(e, l)).into_val(e)),
            CtiOp::RemoveIssuer(x) => ("remove_trusted_issuer", (i.book.a(*x),).into_val(e)),
            CtiOp::Update(x, l) => ("update_issuer_claim_topics", (i.book.a(*x), SVec::from_slice(e, l)).into_val(e)),
        };
        call_mocked(e, &i.c, f, args).is_ok()
    }

    fn list_problem(m: &CtiModel, l: &[u32]) -> Option<String> {
        if l.is_empty() {
            return Some("the topic list is empty".into());
        }
        let mut s = BTreeSet::new();
        for t in l {
            if !s.insert(*t) {
                return Some(format!("the topic list names {t} twice"));
            }
        }
        for t in l {
            if !m.topics.contains(t) {
                return Some(format!("topic {t} of the list is not a registered claim topic"));
            }
        }
        None
    }

    fn expect(&self, m: &CtiModel, op: &CtiOp) -> Ex {
        match op {
            CtiOp::AddTopic(t) => {
                if m.topics.contains(t) {
                    must(false, "duplicate-refused", format!("topic {t} is already registered"))
                } else if m.topics.len() >= MAX_TOPICS {
                    must(false, "limit-exact", format!("{} topics are registered and the documented maximum is {MAX_TOPICS}", m.topics.len()))
                } else {
                    must(
                        true,
                        add_oracle(m.topics.len(), MAX_TOPICS),
                        format!("topic {t} is new and only {} of at most {MAX_TOPICS} topics are registered", m.topics.len()),
                    )
                }
            }
            CtiOp::RemoveTopic(t) => {
                if m.topics.contains(t) {
                    must(true, "valid-op-accepted", format!("topic {t} is registered"))
                } else {
                    must(false, "absent-removal-refused", format!("topic {t} is not registered"))
                }
            }
            CtiOp::AddIssuer(x, l) => {
                if let Some(p) = Self::list_problem(m, l) {
                    must(false, "invalid-input-refused", p)
                } else if m.issuers.contains_key(x) {
                    must(false, "duplicate-refused", format!("issuer {x} is already trusted"))
                } else if m.issuers.len() >= MAX_ISSUERS {
                    must(false, "limit-exact", format!("{} issuers are registered and the documented maximum is {MAX_ISSUERS}", m.issuers.len()))
                } else {
                    must(
                        true,
                        add_oracle(m.issuers.len(), MAX_ISSUERS),
                        format!("issuer {x} is new, its topics exist and only {} of at most {MAX_ISSUERS} issuers are registered", m.issuers.len()),
                    )
                }
            }
            CtiOp::RemoveIssuer(x) => {
                if m.issuers.contains_key(x) {
                    must(true, "valid-op-accepted", format!("issuer {x} is trusted"))
                } else {
                    must(false, "absent-removal-refused", format!("issuer {x} is not trusted"))
                }
            }
            CtiOp::Update(x, l) => {
                if let Some(p) = Self::list_problem(m, l) {
                    must(false, "invalid-input-refused", p)
                } else if !m.issuers.contains_key(x) {
                    must(false, "absent-removal-refused", format!("issuer {x} is not trusted"))
                } else {
                    must(true, "valid-op-accepted", format!("issuer {x} is trusted and every topic of the list exists"))
                }
            }
        }
    }

    fn update(m: &mut CtiModel, op: &CtiOp) {
        match op {
            CtiOp::AddTopic(t) => {
                m.topics.insert(*t);
            }
            CtiOp::RemoveTopic(t) => {
                m.topics.remove(t);
                for s in m.issuers.values_mut() {
                    s.remove(t);
                }
            }
            CtiOp::AddIssuer(x, l) | CtiOp::Update(x, l) => {
                m.issuers.insert(*x, l.iter().copied().collect());
            }
            CtiOp::RemoveIssuer(x) => {
                m.issuers.remove(x);
            }
        }
    }

    fn observe(&self, i: &CtiInst, m: &CtiModel, cx: &mut StepCtx<Self>) -> Result<(), Violation> {
        let e = &i.e;
        let mut n = 0u64;
        // topics
        let t: SVec<u32> = getv(e, &i.c, "get_claim_topics", no_args(e)).ok_or_else(|| Violation::new("getter", "get_claim_topics failed".into()))?;
        let ts = as_set(t.iter(), "get_claim_topics")?;
        ensure!(ts == m.topics, "topics", "get_claim_topics = {:?}, model {:?}", ts, m.topics);
        // issuers
        let v: SVec<Address> = getv(e, &i.c, "get_trusted_issuers", no_args(e)).ok_or_else(|| Violation::new("getter", "get_trusted_issuers failed".into()))?;
        let is = as_set(i.book.ids(&v, "get_trusted_issuers")?, "get_trusted_issuers")?;
        let want: BTreeSet<u16> = m.issuers.keys().copied().collect();
        ensure!(is == want, "issuers", "get_trusted_issuers = {:?}, model {:?}", is, want);
        n += 2;
        let issuers_of = |t: u32| -> BTreeSet<u16> { m.issuers.iter().filter(|(_, s)| s.contains(&t)).map(|(k, _)| *k).collect() };
        // topic -> issuers
        let mut probe_t: Vec<u32> = self.topics.clone();
        probe_t.extend(self.probe_topics.iter().copied());
        probe_t.push(77);
        for t in &probe_t {
            let r: Option<SVec<Address>> = getv(e, &i.c, "get_claim_topic_issuers", (*t,).into_val(e));
            n += 1;
            match r {
                Some(v) => {
                    ensure!(m.topics.contains(t), "topic-issuers", "get_claim_topic_issuers({}) answered although the topic is not registered", t);
                    let s = as_set(i.book.ids(&v, "get_claim_topic_issuers")?, "get_claim_topic_issuers")?;
                    ensure!(s == issuers_of(*t), "topic-issuers", "get_claim_topic_issuers({}) = {:?}, model {:?}", t, s, issuers_of(*t));
                }
                None => ensure!(!m.topics.contains(t), "topic-issuers", "get_claim_topic_issuers({}) refused although the topic is registered", t),
            }
        }
        // whole map
        let mp: SMap<u32, SVec<Address>> =
            getv(e, &i.c, "get_claim_topics_and_issuers", no_args(e)).ok_or_else(|| Violation::new("getter", "get_claim_topics_and_issuers failed".into()))?;
        n += 1;
        let mut got: BTreeMap<u32, BTreeSet<u16>> = BTreeMap::new();
        for (t, v) in mp.iter() {
            got.insert(t, as_set(i.book.ids(&v, "get_claim_topics_and_issuers")?, "get_claim_topics_and_issuers")?);
        }
        let want: BTreeMap<u32, BTreeSet<u16>> = m.topics.iter().map(|t| (*t, issuers_of(*t))).collect();
        ensure!(got == want, "topics-and-issuers", "get_claim_topics_and_issuers = {:?}, model {:?}", got, want);
        // issuer -> topics, membership both ways
        let mut probe_i: Vec<u16> = self.issuers.clone();
        probe_i.extend(self.probe_issuers.iter().copied());
        for x in &probe_i {
            let a = i.book.a(*x);
            let r: Option<SVec<u32>> = getv(e, &i.c, "get_trusted_issuer_claim_topics", (a.clone(),).into_val(e));
            match (&r, m.issuers.get(x)) {
                (Some(v), Some(s)) => {
                    let g = as_set(v.iter(), "get_trusted_issuer_claim_topics")?;
                    ensure!(g == *s, "issuer-topics", "get_trusted_issuer_claim_topics({}) = {:?}, model {:?}", x, g, s);
                }
                (None, None) => {}
                (Some(_), None) => ensure!(false, "issuer-topics", "get_trusted_issuer_claim_topics({}) answered although the issuer is not trusted", x),
                (None, Some(_)) => ensure!(false, "issuer-topics", "get_trusted_issuer_claim_topics({}) refused although the issuer is trusted", x),
            }
            let tr: Option<bool> = getv(e, &i.c, "is_trusted_issuer", (a.clone(),).into_val(e));
            ensure!(tr == Some(m.issuers.contains_key(x)), "is-trusted", "is_trusted_issuer({}) = {:?}, model {}", x, tr, m.issuers.contains_key(x));
            n += 2;
            for t in &probe_t {
                let h: Option<bool> = getv(e, &i.c, "has_claim_topic", (a.clone(), *t).into_val(e));
                let want = m.issuers.get(x).map(|s| s.contains(t));
                ensure!(h == want, "has-claim-topic", "has_claim_topic({}, {}) = {:?} (None = refused), model {:?}", x, t, h, want);
                n += 1;
            }
        }
        cx.stats.count("getter-comparisons", n);
        Ok(())
    }
}

impl World for Cti {
    type Op = CtiOp;
    type Model = CtiModel;
    type Inst = CtiInst;

    fn name(&self) -> String {
        self.name.into()
    }
    fn seeds(&self) -> usize {
        self.seeds.len()
    }
    fn seed_name(&self, s: usize) -> String {
        format!("{:?}", self.seeds[s])
    }

    fn fresh(&self, seed: usize) -> (CtiInst, CtiModel) {
        let e = envx::mk_env(START);
        let c = e.register(wrap::CtiWrap, ());
        let mut book = Book::new();
        for x in 0..4u16 {
            book.gen(&e, x);
        }
        let mut m = CtiModel::default();
        match self.seeds[seed] {
            CtiSeed::Empty => {}
            CtiSeed::Topics14 => {
                for t in 100..114u32 {
                    seed_call(&e, &c, "add_claim_topic", (t,).into_val(&e));
                    m.topics.insert(t);
                }
            }
            CtiSeed::Issuers49 => {
                seed_call(&e, &c, "add_claim_topic", (100u32,).into_val(&e));
                m.topics.insert(100);
                for x in 100..149u16 {
                    book.gen(&e, x);
                    seed_call(&e, &c, "add_trusted_issuer", (book.a(x), SVec::from_slice(&e, &[100u32])).into_val(&e));
                    m.issuers.insert(x, [100u32].into_iter().collect());
                }
            }
        }
        for x in &self.probe_issuers {
            if !book.fwd.contains_key(x) {
                book.gen(&e, *x);
            }
        }
        (CtiInst { e, c, book }, m)
    }

    fn ops(&self, _i: &CtiInst, _m: &CtiModel, _d: usize) -> Vec<CtiOp> {
        let mut v = vec![];
        for t in &self.topics {
            v.push(CtiOp::AddTopic(*t));
        }
        for x in &self.issuers {
            for l in &self.lists {
                v.push(CtiOp::AddIssuer(*x, l.clone()));
            }
        }
        for x in &self.issuers {
            for l in &self.lists {
                v.push(CtiOp::Update(*x, l.clone()));
            }
        }
        for x in self.issuers.iter().chain(self.probe_issuers.iter()) {
            v.push(CtiOp::RemoveIssuer(*x));
        }
        for t in self.topics.iter().chain(self.probe_topics.iter()) {
            v.push(CtiOp::RemoveTopic(*t));
        }
        v
    }

    fn kind(&self, op: &CtiOp) -> String {
        match op {
            CtiOp::AddTopic(_) => "cti.add_claim_topic",
            CtiOp::RemoveTopic(_) => "cti.remove_claim_topic",
            CtiOp::AddIssuer(..) => "cti.add_trusted_issuer",
            CtiOp::RemoveIssuer(_) => "cti.remove_trusted_issuer",
            CtiOp::Update(..) => "cti.update_issuer_claim_topics",
        }
        .into()
    }

    fn apply(&self, i: &mut CtiInst, op: &CtiOp) {
        self.call(i, op);
    }

    fn step(&self, i: &mut CtiInst, m: &mut CtiModel, op: &CtiOp, cx: &mut StepCtx<Self>) -> Result<bool, Violation> {
        let x = self.expect(m, op);
        let ok = self.call(i, op);
        check_outcome(ok, &x, op)?;
        if ok {
            Self::update(m, op);
            self.observe(i, m, cx)?;
        }
        Ok(ok)
    }

    fn key(&self, i: &CtiInst) -> [u8; 32] {
        envx::storage_digest(&i.e, false)
    }
    fn model_digest(&self, m: &CtiModel) -> u64 {
        dig(m)
    }
}

fn cti_worlds(tier: Tier) -> Vec<(Cti, usize)> {
    let th = tier == Tier::Thorough;
    let lists: Vec<Vec<u32>> = if th {
        vec![vec![1], vec![2], vec![1, 2], vec![2, 3], vec![3, 2, 1], vec![], vec![1, 1]]
    } else {
        vec![vec![1], vec![1, 2], vec![3, 2], vec![], vec![1, 1]]
    };
    vec![
        (
            Cti {
                name: "claim-topics-and-issuers",
                seeds: vec![CtiSeed::Empty],
                topics: vec![1, 2, 3],
                issuers: if th { vec![0, 1, 2] } else { vec![0, 1] },
                lists,
                probe_topics: vec![],
                probe_issuers: vec![],
            },
            tier.pick(5, 6),
        ),
        (
            Cti {
                name: "claim-topics-and-issuers-at-limits",
                seeds: vec![CtiSeed::Topics14, CtiSeed::Issuers49],
                topics: vec![1, 2],
                issuers: vec![0, 1],
                lists: vec![vec![100], vec![1, 100]],
                probe_topics: vec![100, 113],
                probe_issuers: vec![100, 148],
            },
            tier.pick(3, 4),
        ),
    ]
}

// ==========================================================================================
// (2) claim-issuer signing keys: relation key x topic x registry

const MAX_KEYS_PER_TOPIC: usize = 50;
const MAX_REGISTRIES_PER_KEY: usize = 20;

type Triple = (u16, u32, u16); // key, topic, registry

#[derive(Clone, Debug, PartialEq, Eq)]
enum KeyOp {
    Allow(u16, u32, u16),
    Remove(u16, u32, u16),
    /// allow_key with an empty public key
    AllowEmpty(u32, u16),
}

#[derive(Clone, Copy, Debug, PartialEq)]
enum KeySeed {
    Empty,
    /// 49 filler keys 100..148 allowed for (topic 1, registry 0)
    TopicKeys49,
    /// key 0 allowed for topic 1 at 19 filler registries 100..118
    Registries19,
}

struct Keys {
    name: &'static str,
    seeds: Vec<KeySeed>,
    keys: Vec<u16>,
    topics: Vec<u32>,
    regs: Vec<u16>,
    probe_keys: Vec<u16>,
    probe_regs: Vec<u16>,
    with_invalid: bool,
}

struct KeyInst {
    e: Env,
    c: Address,
    regs: Book,
}

/// key id -> (public key bytes, scheme); ids 0 and 2 share the public key and differ in scheme
fn key_of(id: u16) -> (Vec<u8>, u32) {
    match id {
        0 => (vec![0xA1; 32], 101),
        1 => (vec![0xB2; 32], 101),
        2 => (vec![0xA1; 32], 102),
        3 => (vec![0xC3; 33], 101),
        _ => {
            let mut v = vec![0x77u8; 32];
            v[0] = (id & 0xff) as u8;
            v[1] = (id >> 8) as u8;
            (v, 101)
        }
    }
}

fn key_id(pk: &[u8], scheme: u32) -> Result<u16, Violation> {
    for id in (0..4u16).chain(100..200u16) {
        let (p, s) = key_of(id);
        if p == pk && s == scheme {
            return Ok(id);
        }
    }
    Err(Violation::new("outside-universe", "a key enumeration contains a key that was never used".into()))
}

impl Keys {
    fn call(&self, i: &KeyInst, op: &KeyOp) -> bool {
        let e = &i.e;
        let (f, args): (&str, SVec<Val>) = match op {
            KeyOp::Allow(k, t, r) => {
                let (pk, s) = key_of(*k);
                ("allow_key", (Bytes::from_slice(e, &pk), i.regs.a(*r), s, *t).into_val(e))
            }
            KeyOp::Remove(k, t, r) => {
                let (pk, s) = key_of(*k);
                ("remove_key", (Bytes::from_slice(e, &pk), i.regs.a(*r), s, *t).into_val(e))
            }
            KeyOp::AllowEmpty(t, r) => ("allow_key", (Bytes::new(e), i.regs.a(*r), 101u32, *t).into_val(e)),
        };
        call_mocked(e, &i.c, f, args).is_ok()
    }

    fn expect(&self, m: &BTreeSet<Triple>, op: &KeyOp) -> Ex {
        match op {
            KeyOp::AllowEmpty(..) => must(false, "invalid-input-refused", "the public key is empty"),
            KeyOp::Remove(k, t, r) => {
                if m.contains(&(*k, *t, *r)) {
                    must(true, "valid-op-accepted", "this (key, topic, registry) authorization exists")
                } else {
                    must(false, "absent-removal-refused", "this (key, topic, registry) authorization does not exist")
                }
            }
            KeyOp::Allow(k, t, r) => {
                if *t == wrap::FORBIDDEN_TOPIC {
                    return must(false, "invalid-input-refused", "the registry says this issuer may not sign the topic");
                }
                if m.contains(&(*k, *t, *r)) {
                    return must(false, "duplicate-refused", "this exact (key, topic, registry) authorization already exists");
                }
                let keys_t: BTreeSet<u16> = m.iter().filter(|x| x.1 == *t).map(|x| x.0).collect();
                let new_for_topic = !keys_t.contains(k);
                if new_for_topic && keys_t.len() >= MAX_KEYS_PER_TOPIC {
                    return must(
                        false,
                        "limit-exact",
                        format!("topic {t} already has {} keys and the documented maximum is {MAX_KEYS_PER_TOPIC}", keys_t.len()),
                    );
                }
                let pairs_k = m.iter().filter(|x| x.0 == *k).count();
                let regs_k: BTreeSet<u16> = m.iter().filter(|x| x.0 == *k).map(|x| x.2).collect();
                if pairs_k < MAX_REGISTRIES_PER_KEY {
                    let at_edge = pairs_k + 1 >= MAX_REGISTRIES_PER_KEY || (new_for_topic && keys_t.len() + 1 >= MAX_KEYS_PER_TOPIC);
                    must(
                        true,
                        if at_edge { "limit-exact" } else { "valid-op-accepted" },
                        format!(
                            "the authorization is new, the key has {pairs_k} registry authorizations (documented maximum {MAX_REGISTRIES_PER_KEY}, so one more is admissible) and topic {t} has {} keys (documented maximum {MAX_KEYS_PER_TOPIC})",
                            keys_t.len()
                        ),
                    )
                } else if !regs_k.contains(r) && regs_k.len() >= MAX_REGISTRIES_PER_KEY {
                    must(
                        false,
                        "limit-exact",
                        format!("the key already has {} registries and the documented maximum is {MAX_REGISTRIES_PER_KEY}", regs_k.len()),
                    )
                } else {
                    // >= 20 (topic, registry) pairs over fewer than 20 distinct registries: the
                    // documentation does not say which of the two is counted
                    open()
                }
            }
        }
    }

    fn observe(&self, i: &KeyInst, m: &BTreeSet<Triple>, cx: &mut StepCtx<Self>) -> Result<(), Violation> {
        let e = &i.e;
        let mut n = 0u64;
        let mut topics = self.topics.clone();
        topics.push(wrap::FORBIDDEN_TOPIC);
        let keys: Vec<u16> = self.keys.iter().chain(self.probe_keys.iter()).copied().collect();
        let regs: Vec<u16> = self.regs.iter().chain(self.probe_regs.iter()).copied().collect();
        for t in &topics {
            let want: BTreeSet<u16> = m.iter().filter(|x| x.1 == *t).map(|x| x.0).collect();
            let r: Option<SVec<wrap_ci::SigningKey>> = getv(e, &i.c, "get_keys_for_topic", (*t,).into_val(e));
            n += 1;
            match r {
                None => ensure!(want.is_empty(), "keys-for-topic", "get_keys_for_topic({}) refused, model {:?}", t, want),
                Some(v) => {
                    let mut ids = vec![];
                    for sk in v.iter() {
                        let pk: Vec<u8> = sk.public_key.iter().collect();
                        ids.push(key_id(&pk, sk.scheme)?);
                    }
                    let got = as_set(ids, "get_keys_for_topic")?;
                    ensure!(got == want, "keys-for-topic", "get_keys_for_topic({}) = {:?}, model {:?}", t, got, want);
                }
            }
            for k in &keys {
                let (pk, s) = key_of(*k);
                let b: Option<bool> = getv(e, &i.c, "is_key_allowed_for_topic", (Bytes::from_slice(e, &pk), s, *t).into_val(e));
                n += 1;
                ensure!(b == Some(want.contains(k)), "key-allowed-for-topic", "is_key_allowed_for_topic(key {}, topic {}) = {:?}, model {}", k, t, b, want.contains(k));
            }
        }
        for k in &keys {
            let (pk, s) = key_of(*k);
            let want: BTreeSet<u16> = m.iter().filter(|x| x.0 == *k).map(|x| x.2).collect();
            let r: Option<SVec<Address>> = getv(e, &i.c, "get_registries", (Bytes::from_slice(e, &pk), s).into_val(e));
            n += 1;
            match r {
                None => ensure!(want.is_empty(), "registries-of-key", "get_registries(key {}) refused, model {:?}", k, want),
                Some(v) => {
                    // one entry per (topic, registry) authorization: compared as a plain set
                    let got: BTreeSet<u16> = i.regs.ids(&v, "get_registries")?.into_iter().collect();
                    ensure!(got == want, "registries-of-key", "get_registries(key {}) = {:?}, model {:?}", k, got, want);
                }
            }
            for r in &regs {
                let b: Option<bool> = getv(e, &i.c, "is_key_allowed_for_registry", (Bytes::from_slice(e, &pk), s, i.regs.a(*r)).into_val(e));
                n += 1;
                ensure!(b == Some(want.contains(r)), "key-allowed-for-registry", "is_key_allowed_for_registry(key {}, registry {}) = {:?}, model {}", k, r, b, want.contains(r));
            }
        }
        cx.stats.count("getter-comparisons", n);
        Ok(())
    }
}

use stellar_tokens::rwa::claim_issuer as wrap_ci;

impl World for Keys {
    type Op = KeyOp;
    type Model = BTreeSet<Triple>;
    type Inst = KeyInst;

    fn name(&self) -> String {
        self.name.into()
    }
    fn seeds(&self) -> usize {
        self.seeds.len()
    }
    fn seed_name(&self, s: usize) -> String {
        format!("{:?}", self.seeds[s])
    }

    fn fresh(&self, seed: usize) -> (KeyInst, BTreeSet<Triple>) {
        let e = envx::mk_env(START);
        let c = e.register(wrap::KeyWrap, ());
        let mut regs = Book::new();
        let mut ids: Vec<u16> = self.regs.iter().chain(self.probe_regs.iter()).copied().collect();
        if self.seeds[seed] == KeySeed::Registries19 {
            ids.extend(100..119u16);
        }
        ids.sort();
        ids.dedup();
        for r in ids {
            regs.fwd.insert(r, e.register(wrap::RegStub, ()));
        }
        let i = KeyInst { e, c, regs };
        let mut m = BTreeSet::new();
        match self.seeds[seed] {
            KeySeed::Empty => {}
            KeySeed::TopicKeys49 => {
                for k in 100..149u16 {
                    assert!(self.call(&i, &KeyOp::Allow(k, 1, 0)), "seed construction: allow_key failed");
                    m.insert((k, 1, 0));
                }
            }
            KeySeed::Registries19 => {
                for r in 100..119u16 {
                    assert!(self.call(&i, &KeyOp::Allow(0, 1, r)), "seed construction: allow_key failed");
                    m.insert((0, 1, r));
                }
            }
        }
        (i, m)
    }

    fn ops(&self, _i: &KeyInst, _m: &BTreeSet<Triple>, _d: usize) -> Vec<KeyOp> {
        let mut v = vec![];
        for k in &self.keys {
            for t in &self.topics {
                for r in &self.regs {
                    v.push(KeyOp::Allow(*k, *t, *r));
                }
            }
        }
        for k in self.keys.iter().chain(self.probe_keys.iter()) {
            for t in &self.topics {
                for r in self.regs.iter().chain(self.probe_regs.iter()) {
                    v.push(KeyOp::Remove(*k, *t, *r));
                }
            }
        }
        if self.with_invalid {
            v.push(KeyOp::Allow(self.keys[0], wrap::FORBIDDEN_TOPIC, self.regs[0]));
            v.push(KeyOp::AllowEmpty(self.topics[0], self.regs[0]));
        }
        v
    }

    fn kind(&self, op: &KeyOp) -> String {
        match op {
            KeyOp::Allow(..) | KeyOp::AllowEmpty(..) => "keys.allow_key",
            KeyOp::Remove(..) => "keys.remove_key",
        }
        .into()
    }

    fn apply(&self, i: &mut KeyInst, op: &KeyOp) {
        self.call(i, op);
    }

    fn step(&self, i: &mut KeyInst, m: &mut BTreeSet<Triple>, op: &KeyOp, cx: &mut StepCtx<Self>) -> Result<bool, Violation> {
        let x = self.expect(m, op);
        let ok = self.call(i, op);
        check_outcome(ok, &x, op)?;
        if ok {
            match op {
                KeyOp::Allow(k, t, r) => {
                    m.insert((*k, *t, *r));
                }
                KeyOp::Remove(k, t, r) => {
                    m.remove(&(*k, *t, *r));
                }
                KeyOp::AllowEmpty(..) => {}
            }
            self.observe(i, m, cx)?;
        } else if x.ok == Some(false) {
            cx.stats.count(&format!("refused.{}", x.oracle), 1);
        }
        Ok(ok)
    }

    fn key(&self, i: &KeyInst) -> [u8; 32] {
        envx::storage_digest(&i.e, false)
    }
    fn model_digest(&self, m: &BTreeSet<Triple>) -> u64 {
        dig(m)
    }
}

fn key_worlds(tier: Tier) -> Vec<(Keys, usize)> {
    let th = tier == Tier::Thorough;
    vec![
        (
            Keys {
                name: "claim-issuer-keys",
                seeds: vec![KeySeed::Empty],
                keys: if th { vec![0, 1, 2] } else { vec![0, 2] },
                topics: vec![1, 2],
                regs: vec![0, 1],
                probe_keys: vec![],
                probe_regs: vec![],
                with_invalid: true,
            },
            tier.pick(5, 6),
        ),
        (
            Keys {
                name: "claim-issuer-keys-at-limits",
                seeds: vec![KeySeed::TopicKeys49, KeySeed::Registries19],
                keys: vec![0, 1],
                topics: vec![1, 2],
                regs: vec![0, 1],
                probe_keys: vec![100, 148],
                probe_regs: vec![100, 118],
                with_invalid: false,
            },
            tier.pick(3, 4),
        ),
    ]
}

// ==========================================================================================
// (3) token binder: bucketed set of bound tokens

const BINDER_BUCKET: usize = 100;
const MAX_TOKENS: usize = 10_000;
const MAX_BATCH: usize = 2 * BINDER_BUCKET;
const POOL: u16 = 20_000; // ids of the big-batch pool

#[derive(Clone, Debug, PartialEq, Eq)]
enum BindOp {
    Bind(u16),
    Unbind(u16),
    Batch(Vec<u16>),
    /// bind_tokens with the first n addresses of a pool of fresh addresses (probe, never extended)
    BigBatch(u16),
}

struct Binder {
    name: &'static str,
    /// number of filler tokens (ids 100..) bound in each seed
    seeds: Vec<usize>,
    universe: Vec<u16>,
    batches: Vec<Vec<u16>>,
    big: Vec<u16>,
    /// index-based getters are compared for every index when the registry holds at most this many
    /// tokens; above, for the indices around the edges of the first and last buckets and both ends
    full_index_scan_up_to: usize,
    /// `Some(k)`: batches the model predicts to be ACCEPTED are offered only at depth < k (an
    /// accepted `bind_tokens` next to 10 000 bound tokens costs about 7 s)
    accepted_batches_below_depth: Option<usize>,
}

struct BindInst {
    e: Env,
    c: Address,
    book: Book,
    rev: BTreeMap<Address, u16>,
    fillers: usize,
}

/// Storage layout of the token binder, used ONLY to construct the 9 998-token capacity seed
/// (through the public API that seed costs minutes: `bind_tokens` is quadratic in the number of
/// bound tokens). The layout is validated before use: `Binder::direct_seed_is_faithful` builds a
/// 250-token state both ways and compares the canonical storage digests; if they differ (the
/// library changed its layout) the capacity world is skipped with a note instead of judged.
#[soroban_sdk::contracttype]
enum TbKey {
    TokenBucket(u32),
    TotalCount,
}

/// Seeds with more fillers than this are written directly into contract storage.
const DIRECT_SEED_ABOVE: usize = 2000;

impl Binder {
    fn build(&self, fillers: usize, direct: bool) -> (BindInst, BTreeSet<u16>) {
        let e = envx::mk_env(START);
        let c = e.register(wrap::BinderWrap, ());
        let mut book = Book::new();
        for x in &self.universe {
            book.gen(&e, *x);
        }
        let mut m = BTreeSet::new();
        let mut batch: SVec<Address> = SVec::new(&e);
        let mut bucket_no = 0u32;
        let chunk = if direct { BINDER_BUCKET } else { MAX_BATCH };
        for k in 0..fillers {
            let id = 100 + k as u16;
            book.gen(&e, id);
            m.insert(id);
            batch.push_back(book.a(id));
            if batch.len() as usize == chunk || k + 1 == fillers {
                if direct {
                    e.as_contract(&c, || e.storage().persistent().set(&TbKey::TokenBucket(bucket_no), &batch));
                    bucket_no += 1;
                } else {
                    seed_call(&e, &c, "bind_tokens", (batch.clone(),).into_val(&e));
                }
                batch = SVec::new(&e);
            }
        }
        if direct {
            e.as_contract(&c, || e.storage().persistent().set(&TbKey::TotalCount, &(fillers as u32)));
        }
        if let Some(n) = self.big.iter().max() {
            for x in POOL..POOL + *n {
                book.gen(&e, x);
            }
        }
        let rev: BTreeMap<Address, u16> = book.fwd.iter().map(|(k, a)| (a.clone(), *k)).collect();
        (BindInst { e, c, book, rev, fillers }, m)
    }

    /// Does writing the buckets directly give exactly the storage `bind_tokens` gives?
    fn direct_seed_is_faithful(&self) -> bool {
        let (a, _) = self.build(250, false);
        let (b, _) = self.build(250, true);
        let same = envx::storage_digest(&a.e, false) == envx::storage_digest(&b.e, false);
        let n: Option<SVec<Address>> = getv(&b.e, &b.c, "linked_tokens", no_args(&b.e));
        same && n.map(|v| v.len()) == Some(250)
    }

    fn call(&self, i: &BindInst, op: &BindOp) -> bool {
        let e = &i.e;
        let sv = |l: &mut dyn Iterator<Item = u16>| -> SVec<Address> {
            let mut v = SVec::new(e);
            for x in l {
                v.push_back(i.book.a(x));
            }
            v
        };
        let (f, args): (&str, SVec<Val>) = match op {
            BindOp::Bind(x) => ("bind_token", (i.book.a(*x),).into_val(e)),
            BindOp::Unbind(x) => ("unbind_token", (i.book.a(*x),).into_val(e)),
            BindOp::Batch(l) => ("bind_tokens", (sv(&mut l.iter().copied()),).into_val(e)),
            BindOp::BigBatch(n) => ("bind_tokens", (sv(&mut (POOL..POOL + *n)),).into_val(e)),
        };
        call_mocked(e, &i.c, f, args).is_ok()
    }

    fn batch_ids(op: &BindOp) -> Vec<u16> {
        match op {
            BindOp::Batch(l) => l.clone(),
            BindOp::BigBatch(n) => (POOL..POOL + *n).collect(),
            _ => vec![],
        }
    }

    fn expect(&self, m: &BTreeSet<u16>, op: &BindOp) -> Ex {
        match op {
            BindOp::Bind(x) => {
                if m.contains(x) {
                    must(false, "duplicate-refused", format!("token {x} is already bound"))
                } else if m.len() >= MAX_TOKENS {
                    must(false, "limit-exact", format!("{} tokens are bound and the documented maximum is {MAX_TOKENS}", m.len()))
                } else {
                    must(true, add_oracle(m.len(), MAX_TOKENS), format!("token {x} is not bound and {} of at most {MAX_TOKENS} tokens are bound", m.len()))
                }
            }
            BindOp::Unbind(x) => {
                if m.contains(x) {
                    must(true, "valid-op-accepted", format!("token {x} is bound"))
                } else {
                    must(false, "absent-removal-refused", format!("token {x} is not bound"))
                }
            }
            BindOp::Batch(_) | BindOp::BigBatch(_) => {
                let l = Self::batch_ids(op);
                let s: BTreeSet<u16> = l.iter().copied().collect();
                if s.len() != l.len() {
                    must(false, "duplicate-refused", "the batch names a token twice")
                } else if l.iter().any(|x| m.contains(x)) {
                    must(false, "duplicate-refused", "a token of the batch is already bound")
                } else if l.len() > MAX_BATCH {
                    must(false, "limit-exact", format!("the batch has {} tokens and the documented maximum batch is {MAX_BATCH}", l.len()))
                } else if m.len() + l.len() > MAX_TOKENS {
                    must(false, "limit-exact", format!("{} + {} tokens exceed the documented maximum {MAX_TOKENS}", m.len(), l.len()))
                } else {
                    let edge = l.len() == MAX_BATCH || m.len() + l.len() == MAX_TOKENS;
                    must(
                        true,
                        if edge { "limit-exact" } else { "valid-op-accepted" },
                        format!("all {} tokens of the batch are distinct and unbound, batch <= {MAX_BATCH}, total {} <= {MAX_TOKENS}", l.len(), m.len() + l.len()),
                    )
                }
            }
        }
    }

    fn probes(&self, i: &BindInst) -> Vec<u16> {
        let mut p = self.universe.clone();
        if i.fillers > 0 {
            p.push(100);
            p.push(100 + i.fillers as u16 - 1);
            p.push(100 + (i.fillers as u16) / 2);
        }
        p.sort();
        p.dedup();
        p
    }

    fn observe(&self, i: &BindInst, m: &BTreeSet<u16>, cx: &mut StepCtx<Self>) -> Result<(), Violation> {
        let e = &i.e;
        let mut n = 0u64;
        let v: SVec<Address> = getv(e, &i.c, "linked_tokens", no_args(e)).ok_or_else(|| Violation::new("getter", "linked_tokens failed".into()))?;
        let rev = &i.rev;
        let mut listed: Vec<u16> = vec![];
        for a in v.iter() {
            listed.push(*rev.get(&a).ok_or_else(|| Violation::new("outside-universe", "linked_tokens contains an address that was never bound".into()))?);
        }
        let got = as_set(listed.iter().copied(), "linked_tokens")?;
        ensure!(
            got == *m,
            "linked-tokens",
            "linked_tokens lists {} tokens, the model has {}; ids in exactly one of them: {:?}",
            got.len(),
            m.len(),
            got.symmetric_difference(m).take(6).collect::<Vec<_>>()
        );
        n += 1;
        let count = listed.len() as u32;
        // membership + index of a token
        for x in self.probes(i) {
            let a = i.book.a(x);
            let b: Option<bool> = getv(e, &i.c, "is_token_bound", (a.clone(),).into_val(e));
            ensure!(b == Some(m.contains(&x)), "is-token-bound", "is_token_bound({}) = {:?}, model {}", x, b, m.contains(&x));
            let ix: Option<u32> = getv(e, &i.c, "get_token_index", (a.clone(),).into_val(e));
            n += 2;
            match ix {
                None => ensure!(!m.contains(&x), "token-index", "get_token_index({}) refused although the token is bound", x),
                Some(ix) => {
                    ensure!(m.contains(&x), "token-index", "get_token_index({}) = {} although the token is not bound", x, ix);
                    let back: Option<Address> = getv(e, &i.c, "get_token_by_index", (ix,).into_val(e));
                    n += 1;
                    ensure!(back.as_ref() == Some(&a), "token-index", "get_token_by_index(get_token_index({}) = {}) is a different token", x, ix);
                }
            }
        }
        // index-based access: every element exactly once
        let idxs: Vec<u32> = if (count as usize) <= self.full_index_scan_up_to {
            (0..count).collect()
        } else {
            let mut s: BTreeSet<u32> = BTreeSet::new();
            // bucket edges of the first two and the last three buckets
            let b = BINDER_BUCKET as u32;
            let last_edge = (count / b) * b;
            for edge in [0, b, 2 * b, last_edge.saturating_sub(2 * b), last_edge.saturating_sub(b), last_edge] {
                for d in [edge.saturating_sub(2), edge.saturating_sub(1), edge, edge + 1] {
                    if d < count {
                        s.insert(d);
                    }
                }
            }
            for d in [count.saturating_sub(2), count.saturating_sub(1)] {
                s.insert(d);
            }
            s.into_iter().collect()
        };
        let mut by_index: Vec<u16> = vec![];
        for ix in &idxs {
            let a: Option<Address> = getv(e, &i.c, "get_token_by_index", (*ix,).into_val(e));
            n += 1;
            let a = a.ok_or_else(|| Violation::new("index-access", format!("get_token_by_index({ix}) refused although {count} tokens are bound")))?;
            by_index.push(*rev.get(&a).ok_or_else(|| Violation::new("outside-universe", "get_token_by_index returned an address that was never bound".into()))?);
        }
        let bs = as_set(by_index.iter().copied(), "get_token_by_index over the scanned indices")?;
        if idxs.len() == count as usize {
            ensure!(bs == *m, "index-access", "indices 0..{} enumerate {:?}…, model differs", count, bs.symmetric_difference(m).take(6).collect::<Vec<_>>());
        } else {
            ensure!(bs.is_subset(m), "index-access", "index access returned unbound tokens {:?}", bs.difference(m).take(6).collect::<Vec<_>>());
        }
        let past: Option<Address> = getv(e, &i.c, "get_token_by_index", (count,).into_val(e));
        n += 1;
        ensure!(past.is_none(), "index-access", "get_token_by_index({}) answered although only {} tokens are bound", count, count);
        cx.stats.count("getter-comparisons", n);
        Ok(())
    }
}

impl World for Binder {
    type Op = BindOp;
    type Model = BTreeSet<u16>;
    type Inst = BindInst;

    fn name(&self) -> String {
        self.name.into()
    }
    fn seeds(&self) -> usize {
        self.seeds.len()
    }
    fn seed_name(&self, s: usize) -> String {
        format!("{} tokens bound", self.seeds[s])
    }

    fn fresh(&self, seed: usize) -> (BindInst, BTreeSet<u16>) {
        let n = self.seeds[seed];
        self.build(n, n > DIRECT_SEED_ABOVE)
    }

    fn ops(&self, i: &BindInst, m: &BTreeSet<u16>, d: usize) -> Vec<BindOp> {
        let mut v = vec![];
        for x in &self.universe {
            v.push(BindOp::Bind(*x));
        }
        for x in self.probes(i) {
            v.push(BindOp::Unbind(x));
        }
        for l in &self.batches {
            let op = BindOp::Batch(l.clone());
            if let Some(k) = self.accepted_batches_below_depth {
                if d >= k && self.expect(m, &op).ok == Some(true) {
                    continue;
                }
            }
            v.push(op);
        }
        if d <= 1 {
            for n in &self.big {
                v.push(BindOp::BigBatch(*n));
            }
        }
        v
    }

    fn kind(&self, op: &BindOp) -> String {
        match op {
            BindOp::Bind(_) => "binder.bind_token",
            BindOp::Unbind(_) => "binder.unbind_token",
            BindOp::Batch(_) | BindOp::BigBatch(_) => "binder.bind_tokens",
        }
        .into()
    }

    fn leaf_only(&self, op: &BindOp) -> bool {
        matches!(op, BindOp::BigBatch(_))
    }

    fn apply(&self, i: &mut BindInst, op: &BindOp) {
        self.call(i, op);
    }

    fn step(&self, i: &mut BindInst, m: &mut BTreeSet<u16>, op: &BindOp, cx: &mut StepCtx<Self>) -> Result<bool, Violation> {
        let x = self.expect(m, op);
        let ok = self.call(i, op);
        check_outcome(ok, &x, op)?;
        if ok {
            match op {
                BindOp::Bind(t) => {
                    m.insert(*t);
                }
                BindOp::Unbind(t) => {
                    m.remove(t);
                }
                _ => m.extend(Self::batch_ids(op)),
            }
            if x.oracle == "limit-exact" {
                cx.stats.count("accepted-at-limit", 1);
            }
            self.observe(i, m, cx)?;
        } else if x.ok == Some(false) {
            cx.stats.count(&format!("refused.{}", x.oracle), 1);
        }
        Ok(ok)
    }

    fn key(&self, i: &BindInst) -> [u8; 32] {
        envx::storage_digest(&i.e, false)
    }
    fn model_digest(&self, m: &BTreeSet<u16>) -> u64 {
        dig(m)
    }
}

fn binder_worlds(tier: Tier) -> Vec<(Binder, usize)> {
    let th = tier == Tier::Thorough;
    vec![
        (
            Binder {
                name: "token-binder",
                seeds: vec![0],
                universe: vec![0, 1, 2, 3],
                batches: vec![vec![0, 1], vec![1, 0], vec![2, 3], vec![0, 1, 2], vec![0, 0], vec![]],
                big: vec![200, 201],
                full_index_scan_up_to: 1000,
                accepted_batches_below_depth: None,
            },
            tier.pick(5, 7),
        ),
        (
            Binder {
                name: "token-binder-bucket-edge",
                seeds: if th { vec![98, 99, 100, 101, 199, 200] } else { vec![98, 99, 100] },
                universe: vec![0, 1, 2],
                batches: vec![vec![0, 1], vec![0, 1, 2], vec![1, 1]],
                big: vec![],
                full_index_scan_up_to: 1000,
                accepted_batches_below_depth: None,
            },
            tier.pick(3, 4),
        ),
        (
            Binder {
                name: "token-binder-capacity",
                seeds: vec![MAX_TOKENS - 2],
                universe: vec![0, 1, 2],
                batches: vec![vec![0, 1], vec![0, 1, 2]],
                big: vec![],
                full_index_scan_up_to: 0,
                accepted_batches_below_depth: Some(tier.pick(0, 2)),
            },
            tier.pick(2, 3),
        ),
    ]
}

// ==========================================================================================

pub fn run(tier: Tier, r: &mut Runner) {
    let wall = tier.pick(20, 240);
    for (w, d) in cti_worlds(tier) {
        r.world(&w, &Bounds::new(d, wall));
    }
    for (w, d) in key_worlds(tier) {
        r.world(&w, &Bounds::new(d, wall));
    }
    for (w, d) in binder_worlds(tier) {
        if r.exploring() && w.seeds.iter().any(|n| *n > DIRECT_SEED_ABOVE) && !w.direct_seed_is_faithful() {
            if let Some(rep) = r.report() {
                rep.note(&format!(
                    "{}: SKIPPED — the capacity seed is written directly into storage and the token binder's storage layout no longer matches (a 250-token state built through bind_tokens differs); exact enforcement of MAX_TOKENS was not explored",
                    w.name
                ));
            }
            continue;
        }
        r.world(&w, &Bounds::new(d, wall));
    }
    if let Some(rep) = r.report() {
        let both = [
            "cti.add_claim_topic",
            "cti.remove_claim_topic",
            "cti.add_trusted_issuer",
            "cti.remove_trusted_issuer",
            "cti.update_issuer_claim_topics",
            "keys.allow_key",
            "keys.remove_key",
            "binder.bind_token",
            "binder.unbind_token",
            "binder.bind_tokens",
        ];
        rep.require(&both, &both);
    }
}

#[allow(dead_code)]
fn _unused(_: Bytes, _: BytesN<32>, _: SString, e: &Env) {
    e.ledger().sequence();
}
