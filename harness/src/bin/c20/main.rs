//! C20 — registries behave as the sets and maps they represent under any edit history.
//!
//! Sub-worlds live in two modules, each exposing `pub fn run(tier, runner)`:
//! * `accounts`  — smart-account context rules (ids, per-type lists, count, fingerprints, signer and
//!                 policy lists) and the RWA compliance module registry;
//! * `rwa_regs`  — claim topics / trusted issuers, claim-issuer signing keys, token binder,
//!                 documents, identity registry storage (recovery links, country entries),
//!                 identity claims.

use vh::cli::{main_with, Runner};
use vh::report::Tier;

mod accounts;
mod rwa_regs;

fn main() {
    main_with(
        "C20",
        "model_checking",
        "level-BFS over add / remove / update histories on small key universes for every indexed registry of the library (real library code inside thin wrapper contracts), every getter compared with a BTreeSet/BTreeMap model after every step (enumerations as sets + each index exactly once), duplicates and absent removals refused, seeds at limit-1 so the last admissible addition succeeds and the next is refused exactly at the documented constant",
        |tier: Tier, r: &mut Runner| {
            accounts::run(tier, r);
            rwa_regs::run(tier, r);
        },
    );
}
