//! C20, `accounts` half — two registries checked against plain set / map models:
//!
//! 1. the smart-account context-rule registry (`packages/accounts/src/smart_account/storage.rs`)
//!    through the entry points of the multisig smart-account example (compiled from the working
//!    tree; every mutating entry point demands the account's own authorization, calls therefore
//!    run under recording authorization — who may call is not this property's subject);
//! 2. the RWA compliance module registry (`packages/tokens/src/rwa/compliance/storage.rs`)
//!    through a thin wrapper contract.
//!
//! Oracles (both directions — the property says the registries *are* the sets / maps):
//! * an operation is accepted exactly when the model admits it: additions of duplicates
//!   (signer, policy, module, rule fingerprint = context type + signer set + policy set, order
//!   irrelevant) refused, removals / updates of absent items refused, a rule keeps at least one
//!   signer or policy, capacity limits hit exactly at the documented constant (seeds at
//!   limit-1: the last admissible addition succeeds, the next one is refused);
//! * rule ids strictly increase over everything ever issued (never reused after removal);
//! * after every accepted step every getter equals the model (lists compared as sets, no element
//!   twice); refused steps leave storage untouched (engine: failure atomicity).

use soroban_sdk::testutils::Address as _;
use soroban_sdk::{Address, Bytes, BytesN, Env, IntoVal, Map, String as SString, TryFromVal, Val, Vec as SVec};
use std::collections::{BTreeMap, BTreeSet};
use stellar_accounts::smart_account::{ContextRule, ContextRuleType, Signer};
use stellar_tokens::rwa::compliance::ComplianceHook;
use vh::auth::{call_mocked, view, CallRes};
use vh::cli::Runner;
use vh::engine::{dig, Bounds, StepCtx, Violation, World};
use vh::ensure;
use vh::envx;
use vh::report::Tier;

#[path = "/repo/examples/multisig-smart-account/account/src/contract.rs"]
mod multisig;
#[path = "../../shared/c20_accounts_wrap.rs"]
mod wrap;

// Documented capacities (doc comments of smart_account/mod.rs and rwa/compliance/mod.rs). They
// are written down here as literals on purpose: the check is "exactly at the documented number".
const MAX_CONTEXT_RULES: usize = 15;
const MAX_SIGNERS: usize = 15;
const MAX_POLICIES: usize = 5;
const MAX_MODULES: usize = 20;

const START: u32 = 100;

// =============================================================================================
// 1. smart-account context rules

/// context types written by operations: 0 Default, 1 CallContract(T1), 2 CreateContract(W);
/// 3 = CallContract(T2) is only ever queried (must stay empty)
const CTX_ALL: [u8; 4] = [0, 1, 2, 3];
/// rule names: index 0 = whatever the example's constructor chose, 1 = given by `add_context_rule`
/// calls of this check, 2 = given by renames
const NAMES: [&str; 3] = ["<constructor>", "n1", "n2"];

#[derive(Clone, Debug, PartialEq, Eq)]
enum Op {
    AddRule { ctx: u8, signers: Vec<u8>, policies: Vec<u8>, valid: Option<u32> },
    RemoveRule(u32),
    Rename { id: u32, name: u8 },
    SetValid { id: u32, valid: Option<u32> },
    AddSigner { id: u32, s: u8 },
    RemoveSigner { id: u32, s: u8 },
    AddPolicy { id: u32, p: u8 },
    RemovePolicy { id: u32, p: u8 },
    /// seeds only: let ledgers pass (rules may expire; the registry must keep listing them)
    Advance(u32),
    /// no call at all: on a rebuilt copy of the state 600000 ledgers pass without any invocation
    /// (beyond the lifetime of every temporary entry and of every TTL extension the library
    /// performs); every getter must still answer what the model says (the registry lists rules
    /// whatever their `valid_until`), and the first admissible `add_context_rule` of the alphabet
    /// must then behave as in an ordinary step (in particular: a new, never issued id)
    IdleProbe,
}

/// ledgers that pass in an idle probe (largest TTL extension of the library: 518400; persistent
/// TTL of `envx::mk_env`: 3000000)
const IDLE: u32 = 600_000;

/// A disagreement found after the idle period: nothing was called in between, so whatever differs
/// from the model was lost (or appeared) through the passage of time alone.
fn idle_viol(v: Violation) -> Violation {
    Violation::new("state-survives-idle", format!("after {IDLE} ledgers without any call [{}] {}", v.oracle, v.detail))
}

#[derive(Clone, Debug, PartialEq, Eq, Hash)]
struct Rule {
    ctx: u8,
    name: u8,
    valid: Option<u32>,
    signers: BTreeSet<u8>,
    policies: BTreeSet<u8>,
}

#[derive(Clone, Debug)]
struct AModel {
    rules: BTreeMap<u32, Rule>,
    /// every id ever handed out
    issued: BTreeSet<u32>,
    /// an operation of the seed's set-up that the model admits was refused by the contract
    /// (reported as a violation by the first step from that seed; replayable)
    seed_fail: Option<String>,
}

impl AModel {
    fn fingerprint_taken(&self, except: Option<u32>, ctx: u8, s: &BTreeSet<u8>, p: &BTreeSet<u8>) -> bool {
        self.rules.iter().any(|(id, r)| Some(*id) != except && r.ctx == ctx && r.signers == *s && r.policies == *p)
    }
    fn next_unissued(&self) -> u32 {
        self.issued.iter().next_back().map(|x| x + 1).unwrap_or(0)
    }
}

struct Acct {
    name: &'static str,
    /// signers / policy contracts in the universe
    ns: usize,
    np: usize,
    /// (seed name, operations applied after construction); construction itself creates rule 0 =
    /// (Default, [s0], no policy, "multisig")
    seeds: Vec<(&'static str, Vec<Op>)>,
    /// `add_context_rule` alphabet: (context type, signer list in call order, policies)
    adds: Vec<(u8, Vec<u8>, Vec<u8>)>,
    remove_rule: bool,
    renames: Vec<u8>,
    valids: Vec<Option<u32>>,
    edit_signers: Vec<u8>,
    edit_policies: Vec<u8>,
    /// at most this many live rules are addressed by per-rule operations (first / middle / last)
    max_targets: usize,
    /// `add_context_rule` is a probe only (checked with every oracle, never extends the frontier)
    leaf_adds: bool,
}

struct AInst {
    e: Env,
    c: Address,
    t: [Address; 2],
    wasm: BytesN<32>,
    signers: Vec<Signer>,
    policies: Vec<Address>,
    /// the name the example's constructor gave to its rule (name index 0)
    ctor_name: SString,
}

impl AInst {
    fn ctx(&self, k: u8) -> ContextRuleType {
        match k {
            0 => ContextRuleType::Default,
            1 => ContextRuleType::CallContract(self.t[0].clone()),
            2 => ContextRuleType::CreateContract(self.wasm.clone()),
            _ => ContextRuleType::CallContract(self.t[1].clone()),
        }
    }
    fn ctx_idx(&self, c: &ContextRuleType) -> Option<u8> {
        CTX_ALL.iter().copied().find(|k| self.ctx(*k) == *c)
    }
    fn name(&self, k: u8) -> SString {
        if k == 0 {
            self.ctor_name.clone()
        } else {
            SString::from_str(&self.e, NAMES[k as usize])
        }
    }
    fn name_idx(&self, s: &SString) -> Option<u8> {
        (0..NAMES.len() as u8).find(|k| self.name(*k) == *s)
    }
}

fn viol(oracle: &str, detail: String) -> Violation {
    Violation::new(oracle, detail)
}

impl Acct {
    fn exec(&self, i: &AInst, op: &Op) -> CallRes {
        let e = &i.e;
        match op {
            Op::AddRule { ctx, signers, policies, valid } => {
                let mut sv: SVec<Signer> = SVec::new(e);
                for s in signers {
                    sv.push_back(i.signers[*s as usize].clone());
                }
                let mut pm: Map<Address, Val> = Map::new(e);
                for p in policies {
                    pm.set(i.policies[*p as usize].clone(), 7u32.into_val(e));
                }
                let args: SVec<Val> = (i.ctx(*ctx), i.name(1), *valid, sv, pm).into_val(e);
                call_mocked(e, &i.c, "add_context_rule", args)
            }
            Op::RemoveRule(id) => call_mocked(e, &i.c, "remove_context_rule", (*id,).into_val(e)),
            Op::Rename { id, name } => call_mocked(e, &i.c, "update_context_rule_name", (*id, i.name(*name)).into_val(e)),
            Op::SetValid { id, valid } => call_mocked(e, &i.c, "update_context_rule_valid_until", (*id, *valid).into_val(e)),
            Op::AddSigner { id, s } => call_mocked(e, &i.c, "add_signer", (*id, i.signers[*s as usize].clone()).into_val(e)),
            Op::RemoveSigner { id, s } => call_mocked(e, &i.c, "remove_signer", (*id, i.signers[*s as usize].clone()).into_val(e)),
            Op::AddPolicy { id, p } => {
                let param: Val = 7u32.into_val(e);
                call_mocked(e, &i.c, "add_policy", (*id, i.policies[*p as usize].clone(), param).into_val(e))
            }
            Op::RemovePolicy { id, p } => call_mocked(e, &i.c, "remove_policy", (*id, i.policies[*p as usize].clone()).into_val(e)),
            Op::Advance(k) => {
                envx::advance(e, *k);
                Ok(().into_val(e))
            }
            Op::IdleProbe => Err(vh::auth::CallErr::Other("idle probe: no call".into())),
        }
    }

    /// The idle probe (see `Op::IdleProbe`) on a throw-away copy of the state.
    fn idle_probe(&self, copy: &mut AInst, m: &AModel, cx: &mut StepCtx<Self>) -> Result<(), Violation> {
        envx::advance(&copy.e, IDLE);
        let mut n = 0u64;
        self.observe(copy, m, &mut n).map_err(idle_viol)?;
        cx.stats.count("acct.getter-comparisons-after-long-idle", n);
        // the id counter and the fingerprint set: one admissible addition, judged by the oracles
        // of an ordinary step; its statistics are kept apart from the vacuity counters
        let adds: Vec<Op> = self.adds.iter().map(|(ctx, s, p)| Op::AddRule { ctx: *ctx, signers: s.clone(), policies: p.clone(), valid: None }).collect();
        if let Some(op) = adds.iter().find(|op| self.expect(m, op).is_ok()) {
            let mut m2 = m.clone();
            let mut own = vh::engine::Stats::default();
            let mut cx2 = StepCtx { world: self, seed: cx.seed, hist: cx.hist, stats: &mut own };
            self.step(copy, &mut m2, op, &mut cx2).map_err(idle_viol)?;
            cx.stats.count("acct.additions-after-long-idle", 1);
        }
        cx.stats.count("idle-probes", 1);
        Ok(())
    }

    /// What the set / map semantics of the property statement say about `op` in model state `m`:
    /// `Ok` = admissible, `Err((oracle, reason))` = has to be refused.
    fn expect(&self, m: &AModel, op: &Op) -> Result<(), (&'static str, String)> {
        let absent = |id: &u32| -> Result<&Rule, (&'static str, String)> {
            m.rules.get(id).ok_or(("absent-refused", format!("rule {id} does not exist")))
        };
        match op {
            Op::AddRule { ctx, signers, policies, .. } => {
                let s: BTreeSet<u8> = signers.iter().copied().collect();
                let p: BTreeSet<u8> = policies.iter().copied().collect();
                if s.len() != signers.len() {
                    return Err(("duplicate-refused", "the same signer is listed twice".into()));
                }
                if s.len() > MAX_SIGNERS {
                    return Err(("limit-exact", format!("{} signers > {MAX_SIGNERS}", s.len())));
                }
                if p.len() > MAX_POLICIES {
                    return Err(("limit-exact", format!("{} policies > {MAX_POLICIES}", p.len())));
                }
                if s.is_empty() && p.is_empty() {
                    return Err(("min-one-signer-or-policy", "rule without signer and policy".into()));
                }
                if m.rules.len() >= MAX_CONTEXT_RULES {
                    return Err(("limit-exact", format!("{} rules already stored", m.rules.len())));
                }
                if m.fingerprint_taken(None, *ctx, &s, &p) {
                    return Err(("duplicate-fingerprint-refused", "a rule with this context type, signer set and policy set exists".into()));
                }
                Ok(())
            }
            Op::RemoveRule(id) | Op::Rename { id, .. } | Op::SetValid { id, .. } => absent(id).map(|_| ()),
            Op::Advance(_) | Op::IdleProbe => Ok(()),
            Op::AddSigner { id, s } => {
                let r = absent(id)?;
                if r.signers.contains(s) {
                    return Err(("duplicate-refused", format!("signer s{s} already in rule {id}")));
                }
                if r.signers.len() >= MAX_SIGNERS {
                    return Err(("limit-exact", format!("rule {id} already has {} signers", r.signers.len())));
                }
                let mut ns = r.signers.clone();
                ns.insert(*s);
                if m.fingerprint_taken(Some(*id), r.ctx, &ns, &r.policies) {
                    return Err(("duplicate-fingerprint-refused", "the edited rule would equal another rule".into()));
                }
                Ok(())
            }
            Op::RemoveSigner { id, s } => {
                let r = absent(id)?;
                if !r.signers.contains(s) {
                    return Err(("absent-refused", format!("signer s{s} not in rule {id}")));
                }
                if r.signers.len() == 1 && r.policies.is_empty() {
                    return Err(("min-one-signer-or-policy", "last signer of a rule without policies".into()));
                }
                let mut ns = r.signers.clone();
                ns.remove(s);
                if m.fingerprint_taken(Some(*id), r.ctx, &ns, &r.policies) {
                    return Err(("duplicate-fingerprint-refused", "the edited rule would equal another rule".into()));
                }
                Ok(())
            }
            Op::AddPolicy { id, p } => {
                let r = absent(id)?;
                if r.policies.contains(p) {
                    return Err(("duplicate-refused", format!("policy P{p} already in rule {id}")));
                }
                if r.policies.len() >= MAX_POLICIES {
                    return Err(("limit-exact", format!("rule {id} already has {} policies", r.policies.len())));
                }
                let mut np = r.policies.clone();
                np.insert(*p);
                if m.fingerprint_taken(Some(*id), r.ctx, &r.signers, &np) {
                    return Err(("duplicate-fingerprint-refused", "the edited rule would equal another rule".into()));
                }
                Ok(())
            }
            Op::RemovePolicy { id, p } => {
                let r = absent(id)?;
                if !r.policies.contains(p) {
                    return Err(("absent-refused", format!("policy P{p} not in rule {id}")));
                }
                if r.policies.len() == 1 && r.signers.is_empty() {
                    return Err(("min-one-signer-or-policy", "last policy of a rule without signers".into()));
                }
                let mut np = r.policies.clone();
                np.remove(p);
                if m.fingerprint_taken(Some(*id), r.ctx, &r.signers, &np) {
                    return Err(("duplicate-fingerprint-refused", "the edited rule would equal another rule".into()));
                }
                Ok(())
            }
        }
    }

    /// Is `op` an addition that fills a capacity to exactly its documented maximum?
    fn fills_limit(&self, m: &AModel, op: &Op) -> Option<&'static str> {
        match op {
            Op::AddRule { signers, policies, .. } => {
                if m.rules.len() + 1 == MAX_CONTEXT_RULES {
                    Some("rules")
                } else if signers.len() == MAX_SIGNERS {
                    Some("signers")
                } else if policies.len() == MAX_POLICIES {
                    Some("policies")
                } else {
                    None
                }
            }
            Op::AddSigner { id, .. } => m.rules.get(id).filter(|r| r.signers.len() + 1 == MAX_SIGNERS).map(|_| "signers"),
            Op::AddPolicy { id, .. } => m.rules.get(id).filter(|r| r.policies.len() + 1 == MAX_POLICIES).map(|_| "policies"),
            _ => None,
        }
    }

    /// Model transition of an accepted operation (`new_id` = id reported for a new rule).
    fn commit(&self, m: &mut AModel, op: &Op, new_id: Option<u32>) {
        match op {
            Op::AddRule { ctx, signers, policies, valid } => {
                let id = new_id.expect("id of the new rule");
                m.rules.insert(
                    id,
                    Rule {
                        ctx: *ctx,
                        name: 1,
                        valid: *valid,
                        signers: signers.iter().copied().collect(),
                        policies: policies.iter().copied().collect(),
                    },
                );
                m.issued.insert(id);
            }
            Op::RemoveRule(id) => {
                m.rules.remove(id);
            }
            Op::Rename { id, name } => {
                if let Some(r) = m.rules.get_mut(id) {
                    r.name = *name
                }
            }
            Op::SetValid { id, valid } => {
                if let Some(r) = m.rules.get_mut(id) {
                    r.valid = *valid
                }
            }
            Op::AddSigner { id, s } => {
                if let Some(r) = m.rules.get_mut(id) {
                    r.signers.insert(*s);
                }
            }
            Op::RemoveSigner { id, s } => {
                if let Some(r) = m.rules.get_mut(id) {
                    r.signers.remove(s);
                }
            }
            Op::AddPolicy { id, p } => {
                if let Some(r) = m.rules.get_mut(id) {
                    r.policies.insert(*p);
                }
            }
            Op::RemovePolicy { id, p } => {
                if let Some(r) = m.rules.get_mut(id) {
                    r.policies.remove(p);
                }
            }
            Op::Advance(_) | Op::IdleProbe => {}
        }
    }

    /// Decode a `ContextRule` answer into universe indices; lists must not repeat an element.
    fn decode(&self, i: &AInst, v: &Val, what: &str) -> Result<(u32, Rule), Violation> {
        let cr = ContextRule::try_from_val(&i.e, v).map_err(|_| viol("getter", format!("{what}: answer is not a ContextRule")))?;
        let ctx = i.ctx_idx(&cr.context_type).ok_or_else(|| viol("getter-vs-model", format!("{what}: context type outside the universe")))?;
        let name = i.name_idx(&cr.name).ok_or_else(|| viol("getter-vs-model", format!("{what}: name {:?} was never given", cr.name)))?;
        let mut signers = BTreeSet::new();
        for s in cr.signers.iter() {
            let k = i.signers.iter().position(|x| *x == s).ok_or_else(|| viol("getter-vs-model", format!("{what}: signer outside the universe")))?;
            ensure!(signers.insert(k as u8), "each-element-once", "{what}: signer s{k} listed twice in rule {}", cr.id);
        }
        let mut policies = BTreeSet::new();
        for p in cr.policies.iter() {
            let k = i.policies.iter().position(|x| *x == p).ok_or_else(|| viol("getter-vs-model", format!("{what}: policy outside the universe")))?;
            ensure!(policies.insert(k as u8), "each-element-once", "{what}: policy P{k} listed twice in rule {}", cr.id);
        }
        Ok((cr.id, Rule { ctx, name, valid: cr.valid_until, signers, policies }))
    }

    /// Every getter against the model.
    fn observe(&self, i: &AInst, m: &AModel, n: &mut u64) -> Result<(), Violation> {
        let e = &i.e;
        let cv = view(e, &i.c, "get_context_rules_count", SVec::new(e)).map_err(|x| viol("getter", format!("get_context_rules_count: {x:?}")))?;
        let count = u32::try_from_val(e, &cv).map_err(|_| viol("getter", "count is not u32".into()))?;
        *n += 1;
        ensure!(count as usize == m.rules.len(), "getter-vs-model", "get_context_rules_count = {count}, model holds {} rules {:?}", m.rules.len(), m.rules.keys());
        for k in CTX_ALL {
            let lv = view(e, &i.c, "get_context_rules", (i.ctx(k),).into_val(e)).map_err(|x| viol("getter", format!("get_context_rules(ctx{k}): {x:?}")))?;
            let list = SVec::<Val>::try_from_val(e, &lv).map_err(|_| viol("getter", "get_context_rules: not a vector".into()))?;
            *n += 1;
            let mut got: BTreeMap<u32, Rule> = BTreeMap::new();
            for item in list.iter() {
                let (id, r) = self.decode(i, &item, &format!("get_context_rules(ctx{k})"))?;
                ensure!(got.insert(id, r).is_none(), "each-element-once", "get_context_rules(ctx{k}) lists rule {id} twice");
            }
            let want: BTreeMap<u32, Rule> = m.rules.iter().filter(|(_, r)| r.ctx == k).map(|(a, b)| (*a, b.clone())).collect();
            ensure!(got == want, "getter-vs-model", "get_context_rules(ctx{k}) = {got:?}, model {want:?}");
        }
        for id in 0..=m.next_unissued() {
            let r = view(e, &i.c, "get_context_rule", (id,).into_val(e));
            *n += 1;
            match (r, m.rules.get(&id)) {
                (Ok(v), Some(want)) => {
                    let (gid, got) = self.decode(i, &v, &format!("get_context_rule({id})"))?;
                    ensure!(gid == id && got == *want, "getter-vs-model", "get_context_rule({id}) = id {gid} {got:?}, model {want:?}");
                }
                (Err(_), None) => {}
                (Ok(_), None) => return Err(viol("getter-vs-model", format!("get_context_rule({id}) answers although the model has no such rule"))),
                (Err(x), Some(want)) => return Err(viol("getter-vs-model", format!("get_context_rule({id}) fails ({x:?}) although the model holds {want:?}"))),
            }
        }
        Ok(())
    }

    fn targets(&self, m: &AModel) -> (Vec<u32>, Vec<u32>) {
        let live: Vec<u32> = m.rules.keys().copied().collect();
        let live = if live.len() > self.max_targets {
            let mut v = vec![live[0], live[live.len() / 2], live[live.len() - 1]];
            v.dedup();
            v.truncate(self.max_targets.max(1));
            v
        } else {
            live
        };
        let mut absent = vec![];
        if let Some(x) = m.issued.iter().find(|x| !m.rules.contains_key(x)) {
            absent.push(*x); // a removed rule
        }
        absent.push(m.next_unissued()); // never existed
        (live, absent)
    }
}

impl World for Acct {
    type Op = Op;
    type Model = AModel;
    type Inst = AInst;

    fn name(&self) -> String {
        self.name.to_string()
    }
    fn seeds(&self) -> usize {
        self.seeds.len()
    }
    fn seed_name(&self, seed: usize) -> String {
        self.seeds[seed].0.to_string()
    }

    fn fresh(&self, seed: usize) -> (AInst, AModel) {
        let e = envx::mk_env(START);
        let t = [Address::generate(&e), Address::generate(&e)];
        let verifier = Address::generate(&e);
        let wasm = BytesN::from_array(&e, &[0x57u8; 32]);
        let mut signers = vec![];
        for k in 0..self.ns {
            // every third signer is an external one (verifier contract + key bytes)
            if k % 3 == 2 {
                signers.push(Signer::External(verifier.clone(), Bytes::from_array(&e, &[k as u8; 8])));
            } else {
                signers.push(Signer::Delegated(Address::generate(&e)));
            }
        }
        let mut policies = vec![];
        for k in 0..self.np {
            // the second policy fails in its uninstall hook
            policies.push(if k == 1 { e.register(wrap::FailingUninstallPolicy, ()) } else { e.register(wrap::NopPolicy, ()) });
        }
        let mut sv: SVec<Signer> = SVec::new(&e);
        sv.push_back(signers[0].clone());
        let pm: Map<Address, Val> = Map::new(&e);
        let c = e.register(multisig::MultisigContract, (sv, pm));
        let ctor_name = view(&e, &c, "get_context_rule", (0u32,).into_val(&e))
            .ok()
            .and_then(|v| ContextRule::try_from_val(&e, &v).ok())
            .map(|r| r.name)
            .unwrap_or_else(|| SString::from_str(&e, "?"));
        let i = AInst { e, c, t, wasm, signers, policies, ctor_name };
        let mut m = AModel { rules: BTreeMap::new(), issued: BTreeSet::new(), seed_fail: None };
        m.rules.insert(0, Rule { ctx: 0, name: 0, valid: None, signers: [0u8].into(), policies: BTreeSet::new() });
        m.issued.insert(0);
        for op in &self.seeds[seed].1 {
            let r = match self.exec(&i, op) {
                Ok(r) => r,
                Err(x) => {
                    // the set-up consists of admissible operations only
                    m.seed_fail = Some(format!(
                        "set-up of seed '{}': {op:?} was refused ({x:?}) although the registry admits it{}; model before: {:?}",
                        self.seeds[seed].0,
                        self.fills_limit(&m, op).map(|f| format!(" (it fills the {f} capacity to exactly its documented maximum)")).unwrap_or_default(),
                        m.rules
                    ));
                    break;
                }
            };
            let new_id = match op {
                Op::AddRule { .. } => Some(ContextRule::try_from_val(&i.e, &r).expect("rule").id),
                _ => None,
            };
            self.commit(&mut m, op, new_id);
        }
        (i, m)
    }

    fn ops(&self, _i: &AInst, m: &AModel, _depth: usize) -> Vec<Op> {
        let mut v = vec![];
        for (ctx, s, p) in &self.adds {
            v.push(Op::AddRule { ctx: *ctx, signers: s.clone(), policies: p.clone(), valid: None });
        }
        let (live, absent) = self.targets(m);
        let all: Vec<u32> = live.iter().chain(absent.iter()).copied().collect();
        if self.remove_rule {
            for id in &all {
                v.push(Op::RemoveRule(*id));
            }
        }
        for id in &all {
            for name in &self.renames {
                v.push(Op::Rename { id: *id, name: *name });
            }
            for valid in &self.valids {
                v.push(Op::SetValid { id: *id, valid: *valid });
            }
        }
        // signer / policy edits: live rules and the id that never existed
        for id in live.iter().chain(absent.last()) {
            for s in &self.edit_signers {
                v.push(Op::AddSigner { id: *id, s: *s });
                v.push(Op::RemoveSigner { id: *id, s: *s });
            }
            for p in &self.edit_policies {
                v.push(Op::AddPolicy { id: *id, p: *p });
                v.push(Op::RemovePolicy { id: *id, p: *p });
            }
        }
        v.push(Op::IdleProbe);
        v
    }

    fn kind(&self, op: &Op) -> String {
        match op {
            Op::AddRule { .. } => "acct.add_context_rule",
            Op::RemoveRule(_) => "acct.remove_context_rule",
            Op::Rename { .. } => "acct.update_name",
            Op::SetValid { .. } => "acct.update_valid_until",
            Op::AddSigner { .. } => "acct.add_signer",
            Op::RemoveSigner { .. } => "acct.remove_signer",
            Op::AddPolicy { .. } => "acct.add_policy",
            Op::RemovePolicy { .. } => "acct.remove_policy",
            Op::Advance(_) => "acct.advance",
            Op::IdleProbe => "idle-probe",
        }
        .into()
    }

    fn apply(&self, i: &mut AInst, op: &Op) {
        let _ = self.exec(i, op);
    }

    fn leaf_only(&self, op: &Op) -> bool {
        self.leaf_adds && matches!(op, Op::AddRule { .. })
    }

    fn step(&self, i: &mut AInst, m: &mut AModel, op: &Op, cx: &mut StepCtx<Self>) -> Result<bool, Violation> {
        if let Some(f) = &m.seed_fail {
            return Err(viol("seed-admissible-refused", f.clone()));
        }
        if matches!(op, Op::IdleProbe) {
            let mut copy = cx.rebuild();
            self.idle_probe(&mut copy, m, cx)?;
            return Ok(false);
        }
        let expect = self.expect(m, op);
        let fills = self.fills_limit(m, op);
        let res = self.exec(i, op);
        let ok = res.is_ok();
        match (&expect, ok) {
            (Err((oracle, why)), true) => {
                return Err(viol(oracle, format!("{op:?} was accepted although {why}; model before: {:?}", m.rules)));
            }
            (Ok(()), false) => {
                let oracle = if fills.is_some() { "limit-exact" } else { "admissible-refused" };
                return Err(viol(
                    oracle,
                    format!(
                        "{op:?} was refused ({:?}) although the registry admits it{}; model before: {:?}",
                        res.as_ref().err(),
                        fills.map(|f| format!(" (it fills the {f} capacity to exactly its documented maximum)")).unwrap_or_default(),
                        m.rules
                    ),
                ));
            }
            (Err((oracle, _)), false) => {
                cx.stats.count(&format!("acct.refused.{oracle}"), 1);
                return Ok(false);
            }
            (Ok(()), true) => {}
        }
        if let Some(f) = fills {
            cx.stats.count(&format!("acct.accepted-filling-limit.{f}"), 1);
        }
        let v = res.expect("ok");
        let mut new_id = None;
        if let Op::AddRule { .. } = op {
            let (id, _) = self.decode(i, &v, "add_context_rule answer")?;
            if let Some(hi) = m.issued.iter().next_back() {
                ensure!(id > *hi, "ids-never-reused", "new rule got id {id} although id {hi} had been handed out before (issued so far: {:?})", m.issued);
            }
            new_id = Some(id);
        }
        self.commit(m, op, new_id);
        match op {
            Op::AddRule { .. } | Op::Rename { .. } | Op::SetValid { .. } => {
                let (id, got) = self.decode(i, &v, "answer of the call")?;
                let want_id = match op {
                    Op::Rename { id, .. } | Op::SetValid { id, .. } => *id,
                    _ => id,
                };
                let want = m.rules.get(&want_id);
                ensure!(id == want_id && Some(&got) == want, "answer-vs-model", "{op:?} answered rule {id} {got:?}, model says rule {want_id} {want:?}");
            }
            _ => {}
        }
        let mut n = 0u64;
        self.observe(i, m, &mut n)?;
        cx.stats.count("acct.getter-comparisons", n);
        Ok(true)
    }

    fn key(&self, i: &AInst) -> [u8; 32] {
        envx::storage_digest(&i.e, false)
    }

    fn model_key(&self, m: &AModel) -> u64 {
        // the set of ids ever handed out decides later "never reused" verdicts; an implementation
        // that derived ids from the live rules would not keep it in storage
        dig(&m.issued.iter().next_back())
    }

    fn model_digest(&self, m: &AModel) -> u64 {
        dig(&m.rules)
    }
}

fn add(ctx: u8, signers: &[u8], policies: &[u8]) -> Op {
    Op::AddRule { ctx, signers: signers.to_vec(), policies: policies.to_vec(), valid: None }
}

fn acct_worlds(tier: Tier) -> Vec<(Acct, Bounds)> {
    let th = tier == Tier::Thorough;
    let later = Some(START + 100);
    let mut out = vec![];

    // (a) rule life cycle: ids, count, per-type lists, names / expiry, fingerprints across
    //     context types
    {
        let mut adds: Vec<(u8, Vec<u8>, Vec<u8>)> = vec![
            (0, vec![0], vec![]),     // equals the constructor's rule while that one lives
            (0, vec![0, 1], vec![]),  //
            (0, vec![1, 0], vec![]),  // same set, other order
            (1, vec![0], vec![]),     // same signers, other context type: a different rule
            (1, vec![], vec![0]),     // policy only
            (2, vec![2], vec![0, 1]), // external signer + two policies
            (0, vec![], vec![]),      // nothing at all
            (0, vec![1, 1], vec![]),  // duplicate signer in the call
        ];
        if th {
            adds.extend([(2, vec![0], vec![]), (1, vec![], vec![1, 0])]);
        }
        out.push((
            Acct {
                name: "acct-rule-lifecycle",
                ns: 3,
                np: 2,
                seeds: vec![("constructor-rule", vec![]), ("emptied", vec![Op::RemoveRule(0)])],
                adds: adds.clone(),
                remove_rule: true,
                renames: if th { vec![1, 2] } else { vec![2] },
                valids: if th { vec![later, None] } else { vec![] }, // quick: expiry edits are left to acct-expired-rule
                edit_signers: vec![],
                edit_policies: vec![],
                max_targets: 8,
                leaf_adds: false,
            },
            Bounds::new(5, tier.pick(15, 120)),
        ));
        // the constructor's rule has expired (the getters and the count cover expired rules too;
        // every edit works on them as on any other rule)
        out.push((
            Acct {
                name: "acct-expired-rule",
                ns: 3,
                np: 2,
                seeds: vec![("constructor-rule-expired", vec![Op::SetValid { id: 0, valid: Some(START + 5) }, Op::Advance(20)])],
                adds,
                remove_rule: true,
                renames: vec![1, 2],
                valids: vec![later, None],
                edit_signers: vec![1],
                edit_policies: vec![0],
                max_targets: 8,
                leaf_adds: false,
            },
            Bounds::new(tier.pick(3, 4), tier.pick(20, 60)),
        ));
    }
    // (a') the same registry, lean alphabet (three rules of one type that exclude / admit each
    //      other + one of another type, removal at every position), longer histories
    {
        out.push((
            Acct {
                name: "acct-rule-lifecycle-deep",
                ns: 2,
                np: 1,
                seeds: vec![("constructor-rule", vec![])],
                adds: vec![(0, vec![0], vec![]), (0, vec![0, 1], vec![]), (0, vec![1, 0], vec![]), (0, vec![1], vec![0]), (1, vec![0], vec![])],
                remove_rule: true,
                renames: vec![],
                valids: vec![],
                edit_signers: vec![],
                edit_policies: vec![],
                max_targets: 8,
                leaf_adds: false,
            },
            Bounds::new(tier.pick(7, 9), tier.pick(10, 40)),
        ));
    }

    // (b) signer / policy edits of rules that can collide (same context type) or must not
    //     collide (different context types); `add_context_rule` probes which fingerprints are
    //     taken / free after every edit (old one released, new one claimed)
    {
        out.push((
            Acct {
                name: "acct-signer-policy-edits",
                ns: 3,
                np: 2,
                seeds: vec![
                    ("two-default-rules", vec![add(0, &[1], &[])]),
                    ("default-and-call-rule", vec![add(1, &[1], &[])]),
                    ("policy-only-rule", vec![add(0, &[], &[0])]),
                ],
                adds: vec![(0, vec![0], vec![]), (0, vec![1, 0], vec![]), (0, vec![0], vec![1]), (1, vec![0], vec![])],
                remove_rule: true,
                renames: vec![],
                valids: vec![],
                edit_signers: vec![0, 1, 2],
                edit_policies: vec![0, 1],
                max_targets: 3,
                leaf_adds: true,
            },
            Bounds::new(tier.pick(5, 7), tier.pick(10, 60)),
        ));
    }
    // (b') thorough only: the same with rules added in between (new ids, third rule)
    if th {
        out.push((
            Acct {
                name: "acct-signer-policy-edits-growing",
                ns: 3,
                np: 2,
                seeds: vec![("two-default-rules", vec![add(0, &[1], &[])])],
                adds: vec![(0, vec![0], vec![]), (0, vec![1, 0], vec![]), (0, vec![0], vec![1])],
                remove_rule: true,
                renames: vec![],
                valids: vec![],
                edit_signers: vec![0, 1, 2],
                edit_policies: vec![0, 1],
                max_targets: 3,
                leaf_adds: false,
            },
            Bounds::new(5, 40),
        ));
    }

    // (c) MAX_CONTEXT_RULES: 14 rules stored
    {
        let mut setup = vec![];
        let combos: [(u8, &[u8]); 13] = [
            (0, &[1]),
            (0, &[2]),
            (0, &[0, 1]),
            (0, &[0, 2]),
            (1, &[0]),
            (1, &[1]),
            (1, &[2]),
            (1, &[0, 1]),
            (1, &[0, 2]),
            (2, &[0]),
            (2, &[1]),
            (2, &[2]),
            (2, &[0, 1]),
        ];
        for (ctx, s) in combos {
            setup.push(add(ctx, s, &[]));
        }
        // second seed: 14 rules reached through 15 rules and a removal (the count had been at the
        // limit before; ids 0..=14 issued, id 7 free again - it must not be handed out)
        let mut setup2 = setup.clone();
        setup2.push(add(2, &[0, 2], &[]));
        setup2.push(Op::RemoveRule(7));
        out.push((
            Acct {
                name: "acct-limit-rules",
                ns: 3,
                np: 1,
                seeds: vec![("14-rules", setup), ("15-rules-minus-one", setup2)],
                adds: vec![(2, vec![1, 2], vec![]), (0, vec![], vec![0]), (1, vec![], vec![0]), (0, vec![0], vec![])],
                remove_rule: true,
                renames: vec![],
                valids: vec![],
                edit_signers: vec![],
                edit_policies: vec![],
                max_targets: 3,
                leaf_adds: false,
            },
            Bounds::new(tier.pick(3, 4), tier.pick(20, 60)),
        ));
    }

    // (d) MAX_SIGNERS: rule 0 grown to 14 signers
    {
        let setup: Vec<Op> = (1..14u8).map(|s| Op::AddSigner { id: 0, s }).collect();
        out.push((
            Acct {
                name: "acct-limit-signers",
                ns: 17,
                np: 1,
                seeds: vec![("rule0-with-14-signers", setup)],
                adds: vec![
                    (1, (0..15u8).collect(), vec![]),        // 15 signers at once: admissible
                    (2, (0..16u8).collect(), vec![]),        // 16: one too many
                    (2, (1..16u8).rev().collect(), vec![0]), // 15 again, other type, with a policy
                ],
                remove_rule: false,
                renames: vec![],
                valids: vec![],
                edit_signers: vec![0, 13, 14, 15, 16],
                edit_policies: vec![],
                max_targets: 2,
                leaf_adds: false,
            },
            Bounds::new(tier.pick(3, 4), tier.pick(20, 60)),
        ));
    }

    // (e) MAX_POLICIES: rule 0 with 4 policies
    {
        let setup: Vec<Op> = (0..4u8).map(|p| Op::AddPolicy { id: 0, p }).collect();
        out.push((
            Acct {
                name: "acct-limit-policies",
                ns: 2,
                np: 7,
                seeds: vec![("rule0-with-4-policies", setup)],
                adds: vec![
                    (1, vec![0], (0..5u8).collect()), // 5 policies at once: admissible
                    (2, vec![0], (0..6u8).collect()), // 6: one too many
                    (2, vec![], (1..6u8).collect()),  // 5, no signer
                ],
                remove_rule: false,
                renames: vec![],
                valids: vec![],
                edit_signers: vec![],
                edit_policies: vec![0, 3, 4, 5, 6],
                max_targets: 2,
                leaf_adds: false,
            },
            Bounds::new(tier.pick(3, 4), tier.pick(20, 60)),
        ));
    }
    out
}

// =============================================================================================
// 2. RWA compliance module registry

const HOOKS: usize = 5;

fn hook(k: u8) -> ComplianceHook {
    match k {
        0 => ComplianceHook::Transferred,
        1 => ComplianceHook::Created,
        2 => ComplianceHook::Destroyed,
        3 => ComplianceHook::CanTransfer,
        _ => ComplianceHook::CanCreate,
    }
}

#[derive(Clone, Debug, PartialEq, Eq)]
enum COp {
    Add { hook: u8, m: u8 },
    Remove { hook: u8, m: u8 },
    /// as `Op::IdleProbe`: every getter after 600000 ledgers without any call
    IdleProbe,
}

#[derive(Clone, Debug, Hash)]
struct CModel {
    reg: [BTreeSet<u8>; HOOKS],
    /// a registration of the seed's set-up (all admissible) was refused by the contract
    seed_fail: Option<String>,
}

struct Comp {
    name: &'static str,
    /// modules in the universe (all of them are queried)
    nm: usize,
    /// (seed name, registrations applied at construction)
    seeds: Vec<(String, Vec<(u8, u8)>)>,
    /// (hook, module) pairs operated on; in `limit` mode hook 0 stands for the seeded (nearly
    /// full) hook and hook 1 for the one after it (empty)
    alphabet: Vec<(u8, u8)>,
    limit: bool,
    /// modules asked for with `is_module_registered` (the list getter covers all of them)
    query: Vec<u8>,
}

struct CInst {
    e: Env,
    c: Address,
    mods: Vec<Address>,
}

impl Comp {
    fn exec(&self, i: &CInst, op: &COp) -> CallRes {
        let e = &i.e;
        match op {
            COp::Add { hook: h, m } => call_mocked(e, &i.c, "add_module_to", (hook(*h), i.mods[*m as usize].clone()).into_val(e)),
            COp::Remove { hook: h, m } => call_mocked(e, &i.c, "remove_module_from", (hook(*h), i.mods[*m as usize].clone()).into_val(e)),
            COp::IdleProbe => Err(vh::auth::CallErr::Other("idle probe: no call".into())),
        }
    }

    fn observe(&self, i: &CInst, m: &CModel, n: &mut u64) -> Result<(), Violation> {
        let e = &i.e;
        for h in 0..HOOKS as u8 {
            let lv = view(e, &i.c, "get_modules_for_hook", (hook(h),).into_val(e)).map_err(|x| viol("getter", format!("get_modules_for_hook({:?}): {x:?}", hook(h))))?;
            let list = SVec::<Address>::try_from_val(e, &lv).map_err(|_| viol("getter", "get_modules_for_hook: not a vector of addresses".into()))?;
            *n += 1;
            let mut got = BTreeSet::new();
            for a in list.iter() {
                let k = i.mods.iter().position(|x| *x == a).ok_or_else(|| viol("getter-vs-model", format!("get_modules_for_hook({:?}) lists an address outside the universe", hook(h))))?;
                ensure!(got.insert(k as u8), "each-element-once", "get_modules_for_hook({:?}) lists module M{k} twice", hook(h));
            }
            let want = &m.reg[h as usize];
            ensure!(got == *want, "getter-vs-model", "get_modules_for_hook({:?}) = {got:?}, model {want:?}", hook(h));
            for k in self.query.iter().copied() {
                let bv = view(e, &i.c, "is_module_registered", (hook(h), i.mods[k as usize].clone()).into_val(e))
                    .map_err(|x| viol("getter", format!("is_module_registered: {x:?}")))?;
                let b = bool::try_from_val(e, &bv).map_err(|_| viol("getter", "is_module_registered: not a bool".into()))?;
                *n += 1;
                ensure!(b == want.contains(&k), "getter-vs-model", "is_module_registered({:?}, M{k}) = {b}, model set {want:?}", hook(h));
            }
        }
        Ok(())
    }
}

impl World for Comp {
    type Op = COp;
    type Model = CModel;
    type Inst = CInst;

    fn name(&self) -> String {
        self.name.to_string()
    }
    fn seeds(&self) -> usize {
        self.seeds.len()
    }
    fn seed_name(&self, seed: usize) -> String {
        self.seeds[seed].0.clone()
    }

    fn fresh(&self, seed: usize) -> (CInst, CModel) {
        let e = envx::mk_env(START);
        let mods: Vec<Address> = (0..self.nm).map(|_| Address::generate(&e)).collect();
        let c = e.register(wrap::ComplianceReg, ());
        let i = CInst { e, c, mods };
        let mut m = CModel { reg: Default::default(), seed_fail: None };
        for (h, k) in &self.seeds[seed].1 {
            if let Err(x) = self.exec(&i, &COp::Add { hook: *h, m: *k }) {
                m.seed_fail = Some(format!(
                    "set-up of seed '{}': registering module M{k} for {:?} was refused ({x:?}) although the hook holds only {} modules",
                    self.seeds[seed].0,
                    hook(*h),
                    m.reg[*h as usize].len()
                ));
                break;
            }
            m.reg[*h as usize].insert(*k);
        }
        (i, m)
    }

    fn ops(&self, _i: &CInst, m: &CModel, _depth: usize) -> Vec<COp> {
        // limit mode: the fullest hook is the seeded one (18..=20 modules at any explored depth)
        let base = if self.limit { (0..HOOKS as u8).max_by_key(|h| (m.reg[*h as usize].len(), HOOKS as u8 - *h)).unwrap_or(0) } else { 0 };
        let hk = |h: u8| (base + h) % HOOKS as u8;
        let mut v = vec![];
        for (h, k) in &self.alphabet {
            v.push(COp::Add { hook: hk(*h), m: *k });
        }
        for (h, k) in &self.alphabet {
            v.push(COp::Remove { hook: hk(*h), m: *k });
        }
        v.push(COp::IdleProbe);
        v
    }

    fn kind(&self, op: &COp) -> String {
        match op {
            COp::Add { .. } => "comp.add_module_to",
            COp::Remove { .. } => "comp.remove_module_from",
            COp::IdleProbe => "idle-probe",
        }
        .into()
    }

    fn apply(&self, i: &mut CInst, op: &COp) {
        let _ = self.exec(i, op);
    }

    fn step(&self, i: &mut CInst, m: &mut CModel, op: &COp, cx: &mut StepCtx<Self>) -> Result<bool, Violation> {
        if let Some(f) = &m.seed_fail {
            return Err(viol("seed-admissible-refused", f.clone()));
        }
        if matches!(op, COp::IdleProbe) {
            let copy = cx.rebuild();
            envx::advance(&copy.e, IDLE);
            let mut n = 0u64;
            self.observe(&copy, m, &mut n).map_err(idle_viol)?;
            cx.stats.count("comp.getter-comparisons-after-long-idle", n);
            cx.stats.count("idle-probes", 1);
            return Ok(false);
        }
        let (expect, fills): (Result<(), (&'static str, String)>, bool) = match op {
            COp::Add { hook: h, m: k } => {
                let set = &m.reg[*h as usize];
                if set.contains(k) {
                    (Err(("duplicate-refused", format!("module M{k} is already registered for {:?}", hook(*h)))), false)
                } else if set.len() >= MAX_MODULES {
                    (Err(("limit-exact", format!("{:?} already has {} modules", hook(*h), set.len()))), false)
                } else {
                    (Ok(()), set.len() + 1 == MAX_MODULES)
                }
            }
            COp::Remove { hook: h, m: k } => {
                if m.reg[*h as usize].contains(k) {
                    (Ok(()), false)
                } else {
                    (Err(("absent-refused", format!("module M{k} is not registered for {:?}", hook(*h)))), false)
                }
            }
            COp::IdleProbe => unreachable!(),
        };
        let res = self.exec(i, op);
        let ok = res.is_ok();
        match (&expect, ok) {
            (Err((oracle, why)), true) => return Err(viol(oracle, format!("{op:?} was accepted although {why}; model before: {:?}", m.reg))),
            (Ok(()), false) => {
                let oracle = if fills { "limit-exact" } else { "admissible-refused" };
                return Err(viol(
                    oracle,
                    format!(
                        "{op:?} was refused ({:?}) although the registry admits it{}; model before: {:?}",
                        res.as_ref().err(),
                        if fills { " (it fills the hook to exactly the documented maximum of 20 modules)" } else { "" },
                        m.reg
                    ),
                ));
            }
            (Err((oracle, _)), false) => {
                cx.stats.count(&format!("comp.refused.{oracle}"), 1);
                return Ok(false);
            }
            (Ok(()), true) => {}
        }
        if fills {
            cx.stats.count("comp.accepted-filling-limit.modules", 1);
        }
        match op {
            COp::Add { hook: h, m: k } => {
                m.reg[*h as usize].insert(*k);
            }
            COp::Remove { hook: h, m: k } => {
                m.reg[*h as usize].remove(k);
            }
            COp::IdleProbe => {}
        }
        let mut n = 0u64;
        self.observe(i, m, &mut n)?;
        cx.stats.count("comp.getter-comparisons", n);
        Ok(true)
    }

    fn key(&self, i: &CInst) -> [u8; 32] {
        envx::storage_digest(&i.e, false)
    }

    fn model_digest(&self, m: &CModel) -> u64 {
        dig(&m.reg)
    }
}

fn comp_worlds(tier: Tier) -> Vec<(Comp, Bounds)> {
    let th = tier == Tier::Thorough;
    let mut out = vec![];
    // (a) every hook x {M1, M2, M3} from the empty registry (M4 is only queried)
    {
        let mut alphabet = vec![];
        for h in 0..HOOKS as u8 {
            for k in 0..3u8 {
                // quick: the third module only on the first and the last hook
                if th || k < 2 || h == 0 || h == 4 {
                    alphabet.push((h, k));
                }
            }
        }
        out.push((
            Comp { name: "compliance-modules", nm: 4, seeds: vec![("empty".into(), vec![])], alphabet, limit: false, query: vec![0, 1, 2, 3] },
            Bounds::new(tier.pick(5, 6), tier.pick(10, 60)),
        ));
    }
    // (a') two hooks x three modules, long histories (the hooks are independent lists; 16 x 16
    //      ordered states, the search saturates)
    {
        let mut alphabet = vec![];
        for h in [0u8, 3] {
            for k in 0..3u8 {
                alphabet.push((h, k));
            }
        }
        out.push((
            Comp { name: "compliance-modules-deep", nm: 4, seeds: vec![("empty".into(), vec![])], alphabet, limit: false, query: vec![0, 1, 2, 3] },
            Bounds::new(tier.pick(7, 9), tier.pick(10, 30)),
        ));
    }
    // (b) one hook with 19 modules (one seed per hook variant); the next hook is empty
    {
        let mut seeds = vec![];
        for h in 0..HOOKS as u8 {
            seeds.push((format!("{:?}-with-19-modules", hook(h)), (0..19u8).map(|k| (h, k)).collect::<Vec<_>>()));
        }
        let alphabet = vec![(0, 19), (0, 20), (0, 21), (0, 0), (0, 9), (0, 18), (1, 0), (1, 19)];
        out.push((
            Comp { name: "compliance-modules-limit", nm: 22, seeds, alphabet, limit: true, query: vec![0, 9, 18, 19, 20, 21] },
            Bounds::new(tier.pick(3, 4), tier.pick(20, 60)),
        ));
    }
    out
}

// =============================================================================================

pub fn run(tier: Tier, r: &mut Runner) {
    for (w, b) in acct_worlds(tier) {
        r.world(&w, &b);
    }
    for (w, b) in comp_worlds(tier) {
        r.world(&w, &b);
    }
    if let Some(rep) = r.report() {
        let all = [
            "acct.add_context_rule",
            "acct.remove_context_rule",
            "acct.update_name",
            "acct.update_valid_until",
            "acct.add_signer",
            "acct.remove_signer",
            "acct.add_policy",
            "acct.remove_policy",
            "comp.add_module_to",
            "comp.remove_module_from",
        ];
        rep.require(&all, &all);
        rep.require_counter(&[
            "acct.refused.duplicate-refused",
            "acct.refused.duplicate-fingerprint-refused",
            "acct.refused.absent-refused",
            "acct.refused.min-one-signer-or-policy",
            "acct.refused.limit-exact",
            "acct.accepted-filling-limit.rules",
            "acct.accepted-filling-limit.signers",
            "acct.accepted-filling-limit.policies",
            "comp.refused.duplicate-refused",
            "comp.refused.absent-refused",
            "comp.refused.limit-exact",
            "comp.accepted-filling-limit.modules",
        ]);
        rep.require_counter(&[
            "idle-probes",
            "acct.getter-comparisons-after-long-idle",
            "acct.additions-after-long-idle",
            "comp.getter-comparisons-after-long-idle",
        ]);
    }
}
