//! placeholder — written by the builder of the `accounts` half
use vh::cli::Runner;
use vh::report::Tier;
pub fn run(_tier: Tier, _r: &mut Runner) {}
