//! C04 — RWA tokens never move past the compliance, identity, freeze and pause gates.
//!
//! World: wrapper token over `stellar_tokens::rwa::RWA` + `pausable`, scripted compliance contract
//! (flags + notification log) and scripted identity verifier (verified set + recovery map).
//! The model predicts the complete post-state of every accepted operation from the pre-state
//! (exact lockstep over balances, frozen tokens, address freezes, pause flag, allowances, supply
//! and the compliance notification log); acceptance itself is monitored ("only if" clauses).

use soroban_sdk::testutils::Address as _;
use soroban_sdk::{Address, Env, IntoVal, TryFromVal, Val, Vec as SVec};
use vh::auth::{call_mocked, view};
use vh::cli::{main_with, Runner};
use vh::engine::{Bounds, StepCtx, Violation, World};
use vh::ensure;
use vh::envx;
use vh::report::Tier;

#[path = "../shared/rwa_wrap.rs"]
mod rwa_wrap;
use rwa_wrap::Note;

const N: usize = 3;
const NAMES: [&str; N] = ["A", "B", "C"];

#[derive(Clone, Debug, PartialEq, Eq)]
enum Op {
    Mint { to: usize, a: i128 },
    Transfer { from: usize, to: usize, a: i128 },
    Approve { o: usize, s: usize, a: i128 },
    TransferFrom { s: usize, from: usize, to: usize, a: i128 },
    ForcedTransfer { from: usize, to: usize, a: i128 },
    Burn { x: usize, a: i128 },
    Recover { old: usize, new: usize },
    SetFrozen { x: usize, b: bool },
    FreezePartial { x: usize, a: i128 },
    UnfreezePartial { x: usize, a: i128 },
    Pause,
    Unpause,
    // environment
    EnvVerified { x: usize, b: bool },
    EnvFlags { transfer: bool, create: bool },
    /// the compliance contract's notification hooks fail from now on (true) / work again (false)
    EnvHooksFail { b: bool },
    EnvRecovery { old: usize, new: Option<usize> },
    /// probe on a rebuilt copy: 600000 ledgers pass without a call; balances, freezes, pause flag
    /// and supply must read the same
    IdleProbe,
    /// probe on a rebuilt copy: A transfers 1 token to a MUXED destination (an account address with a mux
    /// id, verified like the others); if it goes through, the compliance contract must have been told once,
    /// with the plain destination address
    MuxedProbe,
}

#[derive(Clone, Debug, PartialEq, Eq, Hash)]
struct St {
    bal: [i128; N],
    frozen: [i128; N],
    afrozen: [bool; N],
    paused: bool,
    allow: [[i128; N]; N],
    supply: i128,
    // environment (scripted contracts)
    verified: [bool; N],
    can_transfer: bool,
    can_create: bool,
    hooks_fail: bool,
    recovery: [Option<usize>; N],
}

impl St {
    fn free(&self, x: usize) -> i128 {
        self.bal[x] - self.frozen[x]
    }
}

struct Rwa {
    thorough: bool,
    /// which of the 8 seed configurations form level 0 of this world
    seed_set: Vec<usize>,
}

struct Inst {
    e: Env,
    tok: Address,
    comp: Address,
    ver: Address,
    u: [Address; N],
}

#[derive(Clone, Debug, PartialEq, Eq)]
struct LogRec {
    what: String,
    from: Option<usize>,
    to: Option<usize>,
    amount: i128,
}

fn i128_of(e: &Env, v: Val) -> i128 {
    i128::try_from_val(e, &v).expect("i128")
}
fn bool_of(e: &Env, v: Val) -> bool {
    bool::try_from_val(e, &v).expect("bool")
}

impl Rwa {
    fn call(&self, i: &Inst, op: &Op) -> (Address, &'static str, SVec<Val>) {
        let e = &i.e;
        let u = |k: usize| i.u[k].clone();
        let t = i.tok.clone();
        match op {
            Op::Mint { to, a } => (t, "mint", (u(*to), *a).into_val(e)),
            Op::Transfer { from, to, a } => (t, "transfer", (u(*from), u(*to), *a).into_val(e)),
            Op::Approve { o, s, a } => (t, "approve", (u(*o), u(*s), *a, envx::now(e) + 1000).into_val(e)),
            Op::TransferFrom { s, from, to, a } => (t, "transfer_from", (u(*s), u(*from), u(*to), *a).into_val(e)),
            Op::ForcedTransfer { from, to, a } => (t, "forced_transfer", (u(*from), u(*to), *a).into_val(e)),
            Op::Burn { x, a } => (t, "burn", (u(*x), *a).into_val(e)),
            Op::Recover { old, new } => (t, "recover_balance", (u(*old), u(*new)).into_val(e)),
            Op::SetFrozen { x, b } => (t, "set_address_frozen", (u(*x), *b).into_val(e)),
            Op::FreezePartial { x, a } => (t, "freeze_partial_tokens", (u(*x), *a).into_val(e)),
            Op::UnfreezePartial { x, a } => (t, "unfreeze_partial_tokens", (u(*x), *a).into_val(e)),
            Op::Pause => (t, "pause", SVec::new(e)),
            Op::Unpause => (t, "unpause", SVec::new(e)),
            Op::EnvVerified { x, b } => (i.ver.clone(), "set_verified", (u(*x), *b).into_val(e)),
            Op::EnvFlags { transfer, create } => (i.comp.clone(), "set_flags", (*transfer, *create).into_val(e)),
            Op::EnvHooksFail { b } => (i.comp.clone(), "set_hooks_fail", (*b,).into_val(e)),
            Op::EnvRecovery { old, new } => (i.ver.clone(), "set_recovery", (u(*old), new.map(u)).into_val(e)),
            Op::IdleProbe | Op::MuxedProbe => unreachable!(),
        }
    }

    /// Execute; returns (accepted, return value, compliance notifications of this call).
    fn exec(&self, i: &Inst, op: &Op) -> (bool, Option<Val>, Vec<LogRec>) {
        if matches!(op, Op::IdleProbe | Op::MuxedProbe) {
            return (false, None, vec![]);
        }
        let (c, f, args) = self.call(i, op);
        let r = call_mocked(&i.e, &c, f, args);
        let ok = r.is_ok();
        let mut log = vec![];
        if ok {
            let v = view(&i.e, &i.comp, "log", SVec::new(&i.e)).expect("log");
            let notes: SVec<Note> = SVec::try_from_val(&i.e, &v).expect("notes");
            for n in notes.iter() {
                log.push(LogRec {
                    what: n.what.to_string(),
                    from: n.from.as_ref().and_then(|a| i.u.iter().position(|x| x == a)),
                    to: n.to.as_ref().and_then(|a| i.u.iter().position(|x| x == a)),
                    amount: if n.token == i.tok { n.amount } else { i128::MIN },
                });
            }
            if !log.is_empty() {
                call_mocked(&i.e, &i.comp, "reset_log", SVec::new(&i.e)).expect("reset");
            }
        }
        (ok, r.ok(), log)
    }

    fn observe(&self, i: &Inst, m: &St) -> Result<St, Violation> {
        let e = &i.e;
        let get = |f: &str, args: SVec<Val>| -> Result<Val, Violation> {
            view(e, &i.tok, f, args).map_err(|x| Violation::new("getter", format!("{f}: {x:?}")))
        };
        let mut o = m.clone();
        o.supply = i128_of(e, get("total_supply", SVec::new(e))?);
        o.paused = bool_of(e, get("paused", SVec::new(e))?);
        for a in 0..N {
            o.bal[a] = i128_of(e, get("balance", (i.u[a].clone(),).into_val(e))?);
            o.frozen[a] = i128_of(e, get("get_frozen_tokens", (i.u[a].clone(),).into_val(e))?);
            o.afrozen[a] = bool_of(e, get("is_frozen", (i.u[a].clone(),).into_val(e))?);
            for s in 0..N {
                o.allow[a][s] = i128_of(e, get("allowance", (i.u[a].clone(), i.u[s].clone()).into_val(e))?);
            }
        }
        Ok(o)
    }
}

impl World for Rwa {
    type Op = Op;
    type Model = St;
    type Inst = Inst;

    fn name(&self) -> String {
        format!("rwa-token{}-seeds{:?}", if self.thorough { "-t" } else { "" }, self.seed_set)
    }
    fn seeds(&self) -> usize {
        self.seed_set.len()
    }
    fn seed_name(&self, s: usize) -> String {
        let s = self.seed_set[s];
        ["gates-open", "paused", "A-address-frozen", "B-address-frozen", "A-unverified", "B-unverified", "compliance-denies-transfer", "A-all-tokens-frozen"][s].to_string()
    }

    fn fresh(&self, seed: usize) -> (Inst, St) {
        let seed = self.seed_set[seed];
        let e = envx::mk_env(100);
        let u = [Address::generate(&e), Address::generate(&e), Address::generate(&e)];
        let comp = e.register(rwa_wrap::MockCompliance, ());
        let ver = e.register(rwa_wrap::MockVerifier, ());
        let tok = e.register(rwa_wrap::RwaTok, (comp.clone(), ver.clone()));
        let i = Inst { e, tok, comp, ver, u };
        let mut m = St {
            bal: [0; N],
            frozen: [0; N],
            afrozen: [false; N],
            paused: false,
            allow: [[0; N]; N],
            supply: 0,
            verified: [false; N],
            can_transfer: true,
            can_create: true,
            hooks_fail: false,
            recovery: [None; N],
        };
        // base configuration through the real entry points (not checked here; the observation
        // below is what the model starts from)
        let mut setup = vec![
            Op::EnvVerified { x: 0, b: true },
            Op::EnvVerified { x: 1, b: true },
            Op::EnvVerified { x: 2, b: true },
            Op::EnvRecovery { old: 0, new: Some(2) },
            Op::Mint { to: 0, a: 5 },
            Op::Mint { to: 1, a: 3 },
            Op::FreezePartial { x: 0, a: 2 },
            Op::Approve { o: 0, s: 2, a: 4 },
            Op::Approve { o: 1, s: 2, a: 4 },
        ];
        match seed {
            1 => setup.push(Op::Pause),
            2 => setup.push(Op::SetFrozen { x: 0, b: true }),
            3 => setup.push(Op::SetFrozen { x: 1, b: true }),
            4 => setup.push(Op::EnvVerified { x: 0, b: false }),
            5 => setup.push(Op::EnvVerified { x: 1, b: false }),
            6 => setup.push(Op::EnvFlags { transfer: false, create: true }),
            7 => setup.push(Op::FreezePartial { x: 0, a: 3 }),
            _ => {}
        }
        for op in &setup {
            let (ok, _, _) = self.exec(&i, op);
            assert!(ok, "seed step {op:?} refused");
            match op {
                Op::EnvVerified { x, b } => m.verified[*x] = *b,
                Op::EnvFlags { transfer, create } => {
                    m.can_transfer = *transfer;
                    m.can_create = *create;
                }
                Op::EnvRecovery { old, new } => m.recovery[*old] = *new,
                _ => {}
            }
        }
        let m = self.observe(&i, &m).expect("observe seed");
        (i, m)
    }

    fn ops(&self, _i: &Inst, m: &St, _d: usize) -> Vec<Op> {
        let mut v = vec![Op::IdleProbe, Op::MuxedProbe];
        let dedup = |xs: Vec<i128>| {
            let mut out: Vec<i128> = vec![];
            for x in xs {
                if !out.contains(&x) {
                    out.push(x);
                }
            }
            out
        };
        let th = self.thorough;
        let moves = |x: usize| {
            if th {
                dedup(vec![-1, 0, 1, m.free(x), m.free(x) + 1, m.bal[x], m.bal[x] + 1])
            } else {
                dedup(vec![-1, 1, m.free(x), m.free(x) + 1, m.bal[x] + 1])
            }
        };
        for from in 0..N {
            for to in 0..N {
                if !th && from == 2 {
                    continue;
                }
                for a in moves(from) {
                    v.push(Op::Transfer { from, to, a });
                }
            }
        }
        for s in 0..N {
            for from in 0..N {
                if s == from || (!th && s != 2) {
                    continue;
                }
                let al = m.allow[from][s];
                for to in 0..N {
                    if !th && to == s {
                        continue;
                    }
                    for a in dedup(vec![1, m.free(from), m.free(from) + 1, al, al + 1]) {
                        v.push(Op::TransferFrom { s, from, to, a });
                    }
                }
            }
        }
        for to in 0..N {
            for a in if th { vec![-1, 0, 1, 3] } else { vec![-1, 2] } {
                v.push(Op::Mint { to, a });
            }
        }
        for x in 0..N {
            for a in moves(x) {
                v.push(Op::Burn { x, a });
            }
            for to in 0..N {
                if to == x {
                    continue;
                }
                for a in moves(x) {
                    v.push(Op::ForcedTransfer { from: x, to, a });
                }
            }
        }
        for old in 0..N {
            for new in 0..N {
                if old != new {
                    v.push(Op::Recover { old, new });
                }
            }
        }
        for x in 0..N {
            v.push(Op::SetFrozen { x, b: true });
            v.push(Op::SetFrozen { x, b: false });
            for a in dedup(vec![-1, 0, 1, m.free(x), m.free(x) + 1]) {
                v.push(Op::FreezePartial { x, a });
            }
            for a in dedup(vec![-1, 0, 1, m.frozen[x], m.frozen[x] + 1]) {
                v.push(Op::UnfreezePartial { x, a });
            }
        }
        v.push(Op::Pause);
        v.push(Op::Unpause);
        if th {
            for o in 0..N {
                for s in 0..N {
                    if o != s {
                        for a in [0, 2] {
                            v.push(Op::Approve { o, s, a });
                        }
                    }
                }
            }
        }
        for x in 0..N {
            v.push(Op::EnvVerified { x, b: !m.verified[x] });
        }
        v.push(Op::EnvFlags { transfer: !m.can_transfer, create: m.can_create });
        v.push(Op::EnvFlags { transfer: m.can_transfer, create: !m.can_create });
        v.push(Op::EnvHooksFail { b: !m.hooks_fail });
        for old in 0..N {
            for new in [None, Some((old + 1) % N), Some((old + 2) % N)] {
                if m.recovery[old] != new && (th || old != 2) {
                    v.push(Op::EnvRecovery { old, new });
                }
            }
        }
        v
    }

    fn kind(&self, op: &Op) -> String {
        match op {
            Op::Mint { .. } => "mint",
            Op::Transfer { .. } => "transfer",
            Op::Approve { .. } => "approve",
            Op::TransferFrom { .. } => "transfer_from",
            Op::ForcedTransfer { .. } => "forced_transfer",
            Op::Burn { .. } => "burn",
            Op::Recover { .. } => "recover_balance",
            Op::SetFrozen { .. } => "set_address_frozen",
            Op::FreezePartial { .. } => "freeze_partial",
            Op::UnfreezePartial { .. } => "unfreeze_partial",
            Op::Pause => "pause",
            Op::Unpause => "unpause",
            Op::EnvVerified { .. } | Op::EnvFlags { .. } | Op::EnvRecovery { .. } | Op::EnvHooksFail { .. } => "env",
            Op::IdleProbe => "idle-probe",
            Op::MuxedProbe => "transfer-to-muxed-destination",
        }
        .to_string()
    }

    fn apply(&self, i: &mut Inst, op: &Op) {
        self.exec(i, op);
    }

    fn step(&self, i: &mut Inst, m: &mut St, op: &Op, cx: &mut StepCtx<Self>) -> Result<bool, Violation> {
        if matches!(op, Op::IdleProbe) {
            let copy = cx.rebuild();
            envx::advance(&copy.e, 600_000);
            let mut o = self.observe(&copy, m)?;
            o.allow = m.allow; // allowances may have expired meanwhile (C02's subject)
            ensure!(o == *m, "state-survives-idle", "600000 ledgers without any call changed the token's state:\n     before {:?}\n     after  {:?}", m, o);
            cx.stats.count("idle-probes", 1);
            return Ok(false);
        }
        if matches!(op, Op::MuxedProbe) {
            use soroban_sdk::testutils::MuxedAddress as _;
            let copy = cx.rebuild();
            let e = &copy.e;
            let mux = soroban_sdk::MuxedAddress::generate(e);
            let dest = mux.address();
            call_mocked(e, &copy.ver, "set_verified", (dest.clone(), true).into_val(e)).map_err(|x| Violation::new("machinery", format!("set_verified: {x:?}")))?;
            let ok = call_mocked(e, &copy.tok, "transfer", (copy.u[0].clone(), mux, 1i128).into_val(e)).is_ok();
            if ok {
                let v = view(e, &copy.comp, "log", SVec::new(e)).expect("log");
                let notes: SVec<Note> = SVec::try_from_val(e, &v).expect("notes");
                let hits: Vec<Note> = notes.iter().filter(|n| n.to.as_ref() == Some(&dest)).collect();
                ensure!(
                    hits.len() == 1 && hits[0].amount == 1 && hits[0].from.as_ref() == Some(&copy.u[0]) && hits[0].token == copy.tok && hits[0].what.to_string() == "transfer",
                    "compliance-notification",
                    "a transfer of 1 from A to a muxed destination succeeded, but the compliance contract holds {} notification(s) naming the destination (expected exactly one transfer record with the plain address, amount 1)",
                    hits.len()
                );
                let b = i128_of(e, view(e, &copy.tok, "balance", (dest.clone(),).into_val(e)).map_err(|x| Violation::new("getter", format!("{x:?}")))?);
                ensure!(b == 1, "lockstep", "balance of the muxed destination's address is {} after receiving 1", b);
                cx.stats.count("transfers to a muxed destination accepted", 1);
            }
            return Ok(false);
        }
        let pre = m.clone();
        let (ok, ret, log) = self.exec(i, op);
        if !ok {
            return Ok(false);
        }
        let mut x = pre.clone(); // expected post-state
        let mut want_log: Vec<LogRec> = vec![];
        let gates = |from: usize, to: usize, a: i128| -> Result<(), Violation> {
            ensure!(!pre.paused, "gate-pause", "{:?} succeeded while the token is paused", op);
            ensure!(!pre.afrozen[from], "gate-address-frozen", "{:?} succeeded although sender {} is frozen", op, NAMES[from]);
            ensure!(!pre.afrozen[to], "gate-address-frozen", "{:?} succeeded although receiver {} is frozen", op, NAMES[to]);
            ensure!(
                a <= pre.free(from),
                "gate-frozen-tokens",
                "{:?} succeeded although only {} of {}'s {} tokens are unfrozen",
                op,
                pre.free(from),
                NAMES[from],
                pre.bal[from]
            );
            ensure!(pre.verified[from], "gate-identity", "{:?} succeeded although sender {} fails identity verification", op, NAMES[from]);
            ensure!(pre.verified[to], "gate-identity", "{:?} succeeded although receiver {} fails identity verification", op, NAMES[to]);
            ensure!(pre.can_transfer, "gate-compliance", "{:?} succeeded although the compliance contract denies transfers", op);
            Ok(())
        };
        let nonneg = |a: i128| -> Result<(), Violation> {
            ensure!(a >= 0, "negative-amount-accepted", "{:?} succeeded with a negative amount", op);
            Ok(())
        };
        match op {
            Op::Mint { to, a } => {
                nonneg(*a)?;
                ensure!(pre.verified[*to], "gate-identity", "mint to unverified {} succeeded", NAMES[*to]);
                ensure!(pre.can_create, "gate-compliance", "mint succeeded although the compliance contract denies creation");
                x.bal[*to] += a;
                x.supply += a;
                want_log.push(LogRec { what: "created".into(), from: None, to: Some(*to), amount: *a });
            }
            Op::Transfer { from, to, a } => {
                nonneg(*a)?;
                gates(*from, *to, *a)?;
                x.bal[*from] -= a;
                x.bal[*to] += a;
                want_log.push(LogRec { what: "transfer".into(), from: Some(*from), to: Some(*to), amount: *a });
            }
            Op::TransferFrom { s, from, to, a } => {
                nonneg(*a)?;
                gates(*from, *to, *a)?;
                ensure!(pre.allow[*from][*s] >= *a, "allowance", "{:?} succeeded with allowance {}", op, pre.allow[*from][*s]);
                x.allow[*from][*s] -= a;
                x.bal[*from] -= a;
                x.bal[*to] += a;
                want_log.push(LogRec { what: "transfer".into(), from: Some(*from), to: Some(*to), amount: *a });
            }
            Op::Approve { o, s, a } => {
                nonneg(*a)?;
                x.allow[*o][*s] = *a;
            }
            Op::ForcedTransfer { from, to, a } => {
                nonneg(*a)?;
                ensure!(*a <= pre.bal[*from], "balance", "{:?} succeeded with balance {}", op, pre.bal[*from]);
                let unfreeze = (*a - pre.free(*from)).max(0);
                x.frozen[*from] -= unfreeze;
                x.bal[*from] -= a;
                x.bal[*to] += a;
                want_log.push(LogRec { what: "transfer".into(), from: Some(*from), to: Some(*to), amount: *a });
            }
            Op::Burn { x: who, a } => {
                nonneg(*a)?;
                ensure!(*a <= pre.bal[*who], "balance", "{:?} succeeded with balance {}", op, pre.bal[*who]);
                let unfreeze = (*a - pre.free(*who)).max(0);
                x.frozen[*who] -= unfreeze;
                x.bal[*who] -= a;
                x.supply -= a;
                want_log.push(LogRec { what: "destroyed".into(), from: Some(*who), to: None, amount: *a });
            }
            Op::Recover { old, new } => {
                ensure!(pre.verified[*new], "gate-identity", "recovery to unverified {} succeeded", NAMES[*new]);
                ensure!(
                    pre.recovery[*old] == Some(*new),
                    "recovery-target",
                    "recovery {} -> {} succeeded but the registered target is {:?}",
                    NAMES[*old],
                    NAMES[*new],
                    pre.recovery[*old].map(|k| NAMES[k])
                );
                let moved = ret.map(|v| bool_of(&i.e, v)).unwrap_or(false);
                ensure!(moved == (pre.bal[*old] > 0), "recovery-result", "recover_balance returned {} with old balance {}", moved, pre.bal[*old]);
                if moved {
                    x.bal[*new] += pre.bal[*old];
                    x.bal[*old] = 0;
                    x.frozen[*new] += pre.frozen[*old];
                    x.frozen[*old] = 0;
                    x.afrozen[*new] = pre.afrozen[*new] || pre.afrozen[*old];
                    want_log.push(LogRec { what: "transfer".into(), from: Some(*old), to: Some(*new), amount: pre.bal[*old] });
                }
            }
            Op::SetFrozen { x: who, b } => x.afrozen[*who] = *b,
            Op::FreezePartial { x: who, a } => {
                nonneg(*a)?;
                x.frozen[*who] += a;
            }
            Op::UnfreezePartial { x: who, a } => {
                nonneg(*a)?;
                ensure!(*a <= pre.frozen[*who], "unfreeze", "{:?} succeeded with {} frozen", op, pre.frozen[*who]);
                x.frozen[*who] -= a;
            }
            Op::Pause => {
                ensure!(!pre.paused, "pause-alternation", "pause succeeded while paused");
                x.paused = true;
            }
            Op::Unpause => {
                ensure!(pre.paused, "pause-alternation", "unpause succeeded while not paused");
                x.paused = false;
            }
            Op::EnvVerified { x: who, b } => x.verified[*who] = *b,
            Op::EnvFlags { transfer, create } => {
                x.can_transfer = *transfer;
                x.can_create = *create;
            }
            Op::EnvRecovery { old, new } => x.recovery[*old] = *new,
            Op::EnvHooksFail { b } => x.hooks_fail = *b,
            Op::IdleProbe | Op::MuxedProbe => unreachable!(),
        }
        // a movement the compliance contract could not be told about must not have happened
        if pre.hooks_fail && !want_log.is_empty() {
            return Err(Violation::new(
                "compliance-notification",
                format!("{:?} succeeded although the compliance contract's notification hook fails: the movement happened without the compliance contract being notified", op),
            ));
        }
        let mut post = self.observe(i, &x)?;
        cx.stats.count("getter-comparisons", (2 + 3 * N + N * N) as u64);
        if let Op::Recover { old, .. } = op {
            // the property does not say what happens to the old account's address-freeze flag
            x.afrozen[*old] = post.afrozen[*old];
        }
        post.verified = x.verified;
        ensure!(post == x, "lockstep", "after {:?}\n     expected {:?}\n     observed {:?}", op, x, post);
        for k in 0..N {
            ensure!(
                0 <= post.frozen[k] && post.frozen[k] <= post.bal[k],
                "0<=frozen<=balance",
                "after {:?}: {} has balance {} and {} frozen tokens",
                op,
                NAMES[k],
                post.bal[k],
                post.frozen[k]
            );
        }
        ensure!(post.bal.iter().sum::<i128>() == post.supply, "supply=sum(balances)", "after {:?}: {:?}", op, post);
        ensure!(log == want_log, "compliance-notification", "{:?}: compliance contract was notified {:?}, expected {:?}", op, log, want_log);
        *m = post;
        Ok(true)
    }

    fn key(&self, i: &Inst) -> [u8; 32] {
        envx::storage_digest(&i.e, false)
    }
    fn model_digest(&self, m: &St) -> u64 {
        vh::engine::dig(m)
    }
}

// =============================================================================================
// World 2: the same token over the library's REAL compliance contract (module registry + hook
// dispatch) with two scripted modules: the compliance gate is the conjunction over the modules
// registered for CanTransfer / CanCreate, and every module registered for Transferred / Created /
// Destroyed is notified exactly once per successful movement.

use stellar_tokens::rwa::compliance::ComplianceHook;

const HOOKS: [(&str, usize); 5] = [("CanTransfer", 0), ("CanCreate", 1), ("Transferred", 2), ("Created", 3), ("Destroyed", 4)];

fn hook(k: usize) -> ComplianceHook {
    match k {
        0 => ComplianceHook::CanTransfer,
        1 => ComplianceHook::CanCreate,
        2 => ComplianceHook::Transferred,
        3 => ComplianceHook::Created,
        _ => ComplianceHook::Destroyed,
    }
}

#[derive(Clone, Debug, PartialEq, Eq)]
enum COp {
    Register { hook: usize, m: usize },
    Unregister { hook: usize, m: usize },
    ModuleFlags { m: usize, transfer: bool, create: bool },
    Mint { to: usize },
    Transfer { from: usize, to: usize },
    TransferFrom { from: usize, to: usize },
    Forced { from: usize, to: usize },
    Burn { x: usize },
}

#[derive(Clone, Debug, PartialEq, Eq, Hash)]
struct CState {
    bal: [i128; 2],
    allow: [i128; 2], // allowance(x -> spender)
    reg: [[bool; 2]; 5],
    flags: [(bool, bool); 2],
}

struct RealComp {
    thorough: bool,
}

struct CInst {
    e: Env,
    tok: Address,
    comp: Address,
    modules: [Address; 2],
    u: [Address; 2],
    spender: Address,
}

impl RealComp {
    fn call(&self, i: &CInst, op: &COp) -> (Address, &'static str, SVec<Val>) {
        let e = &i.e;
        let u = |k: usize| i.u[k].clone();
        let t = i.tok.clone();
        match op {
            COp::Register { hook: h, m } => (i.comp.clone(), "add_module_to", (hook(*h), i.modules[*m].clone()).into_val(e)),
            COp::Unregister { hook: h, m } => (i.comp.clone(), "remove_module_from", (hook(*h), i.modules[*m].clone()).into_val(e)),
            COp::ModuleFlags { m, transfer, create } => (i.modules[*m].clone(), "set_flags", (*transfer, *create).into_val(e)),
            COp::Mint { to } => (t, "mint", (u(*to), 2i128).into_val(e)),
            COp::Transfer { from, to } => (t, "transfer", (u(*from), u(*to), 1i128).into_val(e)),
            COp::TransferFrom { from, to } => (t, "transfer_from", (i.spender.clone(), u(*from), u(*to), 1i128).into_val(e)),
            COp::Forced { from, to } => (t, "forced_transfer", (u(*from), u(*to), 1i128).into_val(e)),
            COp::Burn { x } => (t, "burn", (u(*x), 1i128).into_val(e)),
        }
    }
    /// Execute; returns (accepted, notifications received by module 0 and module 1).
    fn exec(&self, i: &CInst, op: &COp) -> (bool, [Vec<LogRec>; 2]) {
        let (c, f, args) = self.call(i, op);
        let ok = call_mocked(&i.e, &c, f, args).is_ok();
        let mut logs: [Vec<LogRec>; 2] = [vec![], vec![]];
        if ok {
            for m in 0..2 {
                let v = view(&i.e, &i.modules[m], "log", SVec::new(&i.e)).expect("log");
                let notes: SVec<Note> = SVec::try_from_val(&i.e, &v).expect("notes");
                for n in notes.iter() {
                    logs[m].push(LogRec {
                        what: n.what.to_string(),
                        from: n.from.as_ref().and_then(|a| i.u.iter().position(|x| x == a)),
                        to: n.to.as_ref().and_then(|a| i.u.iter().position(|x| x == a)),
                        amount: if n.token == i.tok { n.amount } else { i128::MIN },
                    });
                }
                if !logs[m].is_empty() {
                    call_mocked(&i.e, &i.modules[m], "reset_log", SVec::new(&i.e)).expect("reset");
                }
            }
        }
        (ok, logs)
    }
    fn observe(&self, i: &CInst, m: &CState) -> Result<CState, Violation> {
        let e = &i.e;
        let mut o = m.clone();
        for k in 0..2 {
            o.bal[k] = i128_of(e, view(e, &i.tok, "balance", (i.u[k].clone(),).into_val(e)).map_err(|x| Violation::new("getter", format!("{x:?}")))?);
            o.allow[k] = i128_of(e, view(e, &i.tok, "allowance", (i.u[k].clone(), i.spender.clone()).into_val(e)).map_err(|x| Violation::new("getter", format!("{x:?}")))?);
        }
        Ok(o)
    }
}

impl World for RealComp {
    type Op = COp;
    type Model = CState;
    type Inst = CInst;

    fn name(&self) -> String {
        format!("rwa-token-over-real-compliance{}", if self.thorough { "-t" } else { "" })
    }

    fn seeds(&self) -> usize {
        2
    }
    fn seed_name(&self, s: usize) -> String {
        ["no module registered", "both modules registered for every hook"][s].into()
    }

    fn fresh(&self, seed: usize) -> (CInst, CState) {
        let e = envx::mk_env(100);
        let u = [Address::generate(&e), Address::generate(&e)];
        let spender = Address::generate(&e);
        let comp = e.register(rwa_wrap::RealCompliance, ());
        let ver = e.register(rwa_wrap::MockVerifier, ());
        let modules = [e.register(rwa_wrap::MockModule, ()), e.register(rwa_wrap::MockModule, ())];
        let tok = e.register(rwa_wrap::RwaTok, (comp.clone(), ver.clone()));
        call_mocked(&e, &comp, "bind_token", (tok.clone(),).into_val(&e)).expect("bind");
        for k in 0..2 {
            call_mocked(&e, &ver, "set_verified", (u[k].clone(), true).into_val(&e)).expect("verify");
            call_mocked(&e, &modules[k], "set_flags", (true, true).into_val(&e)).expect("flags");
        }
        call_mocked(&e, &tok, "mint", (u[0].clone(), 4i128).into_val(&e)).expect("mint");
        for k in 0..2 {
            call_mocked(&e, &tok, "approve", (u[k].clone(), spender.clone(), 3i128, 5000u32).into_val(&e)).expect("approve");
        }
        let mut reg = [[false; 2]; 5];
        if seed == 1 {
            for h in 0..5 {
                for k in 0..2 {
                    call_mocked(&e, &comp, "add_module_to", (hook(h), modules[k].clone()).into_val(&e)).expect("register");
                    reg[h][k] = true;
                }
            }
            for k in 0..2 {
                call_mocked(&e, &modules[k], "reset_log", SVec::new(&e)).expect("reset");
            }
        }
        let i = CInst { e, tok, comp, modules, u, spender };
        let m = CState { bal: [0; 2], allow: [0; 2], reg, flags: [(true, true); 2] };
        let m = self.observe(&i, &m).expect("observe");
        (i, m)
    }

    fn ops(&self, _i: &CInst, m: &CState, _d: usize) -> Vec<COp> {
        let mut v = vec![];
        let hooks: Vec<usize> = if self.thorough { (0..5).collect() } else { vec![0, 1, 2] };
        for h in hooks {
            for k in 0..2 {
                v.push(COp::Register { hook: h, m: k });
                v.push(COp::Unregister { hook: h, m: k });
            }
        }
        for k in 0..2 {
            let (t, c) = m.flags[k];
            v.push(COp::ModuleFlags { m: k, transfer: !t, create: c });
            v.push(COp::ModuleFlags { m: k, transfer: t, create: !c });
        }
        v.push(COp::Mint { to: 1 });
        v.push(COp::Transfer { from: 0, to: 1 });
        v.push(COp::TransferFrom { from: 0, to: 1 });
        v.push(COp::Forced { from: 0, to: 1 });
        v.push(COp::Burn { x: 0 });
        v
    }

    fn kind(&self, op: &COp) -> String {
        match op {
            COp::Register { .. } => "compliance.add_module",
            COp::Unregister { .. } => "compliance.remove_module",
            COp::ModuleFlags { .. } => "env",
            COp::Mint { .. } => "mint",
            COp::Transfer { .. } => "transfer",
            COp::TransferFrom { .. } => "transfer_from",
            COp::Forced { .. } => "forced_transfer",
            COp::Burn { .. } => "burn",
        }
        .into()
    }
    fn apply(&self, i: &mut CInst, op: &COp) {
        self.exec(i, op);
    }

    fn step(&self, i: &mut CInst, m: &mut CState, op: &COp, cx: &mut StepCtx<Self>) -> Result<bool, Violation> {
        let pre = m.clone();
        let (ok, logs) = self.exec(i, op);
        if !ok {
            let single = |h: usize, pick: fn(&(bool, bool)) -> bool| pre.reg[h][0] && pre.reg[h][1] && (pick(&pre.flags[0]) != pick(&pre.flags[1]));
            match op {
                COp::Transfer { .. } | COp::TransferFrom { .. } if single(0, |f| f.0) => cx.stats.count("#movement refused with exactly one of two registered modules denying", 1),
                COp::Mint { .. } if single(1, |f| f.1) => cx.stats.count("#movement refused with exactly one of two registered modules denying", 1),
                _ => {}
            }
            return Ok(false);
        }
        let mut x = pre.clone();
        // which notification every registered module of hook `h` must receive
        let mut notify: Option<(usize, LogRec)> = None;
        let approves = |h: usize, pick: fn(&(bool, bool)) -> bool| (0..2).all(|k| !pre.reg[h][k] || pick(&pre.flags[k]));
        match op {
            COp::Register { hook: h, m: k } => {
                x.reg[*h][*k] = true;
            }
            COp::Unregister { hook: h, m: k } => {
                x.reg[*h][*k] = false;
            }
            COp::ModuleFlags { m: k, transfer, create } => x.flags[*k] = (*transfer, *create),
            COp::Mint { to } => {
                ensure!(approves(1, |f| f.1), "gate-compliance", "mint succeeded although a module registered for CanCreate denies it ({:?}, {:?})", pre.reg[1], pre.flags);
                x.bal[*to] += 2;
                notify = Some((3, LogRec { what: "created".into(), from: None, to: Some(*to), amount: 2 }));
            }
            COp::Transfer { from, to } | COp::TransferFrom { from, to } => {
                ensure!(
                    approves(0, |f| f.0),
                    "gate-compliance",
                    "{:?} succeeded although a module registered for CanTransfer denies it (registered {:?}, (transfer, create) verdicts {:?})",
                    op,
                    pre.reg[0],
                    pre.flags
                );
                x.bal[*from] -= 1;
                x.bal[*to] += 1;
                if matches!(op, COp::TransferFrom { .. }) {
                    x.allow[*from] -= 1;
                }
                notify = Some((2, LogRec { what: "transfer".into(), from: Some(*from), to: Some(*to), amount: 1 }));
            }
            COp::Forced { from, to } => {
                x.bal[*from] -= 1;
                x.bal[*to] += 1;
                notify = Some((2, LogRec { what: "transfer".into(), from: Some(*from), to: Some(*to), amount: 1 }));
            }
            COp::Burn { x: who } => {
                x.bal[*who] -= 1;
                notify = Some((4, LogRec { what: "destroyed".into(), from: Some(*who), to: None, amount: 1 }));
            }
        }
        let post = self.observe(i, &x)?;
        ensure!(post == x, "lockstep", "after {:?}\n     expected {:?}\n     observed {:?}", op, x, post);
        for k in 0..2 {
            let want: Vec<LogRec> = match &notify {
                Some((h, rec)) if pre.reg[*h][k] => vec![rec.clone()],
                _ => vec![],
            };
            ensure!(
                logs[k] == want,
                "compliance-notification",
                "{:?}: module M{} (registered for {:?}) was notified {:?}, expected {:?}",
                op,
                k + 1,
                HOOKS.iter().filter(|(_, h)| pre.reg[*h][k]).map(|(n, _)| *n).collect::<Vec<_>>(),
                logs[k],
                want
            );
        }
        *m = post;
        Ok(true)
    }

    fn key(&self, i: &CInst) -> [u8; 32] {
        envx::storage_digest(&i.e, false)
    }
    fn model_digest(&self, m: &CState) -> u64 {
        vh::engine::dig(m)
    }
}

// =============================================================================================
// World 3: the same token over the library's REAL identity verifier (verify_identity over the real
// claim-topics-and-issuers registry, identity registry storage and identity-claims contracts; one
// scripted issuer): "both parties pass identity verification" is then "for each of the two required
// topics the party's identity holds a claim the issuer confirms".

#[path = "../shared/c15_wrap.rs"]
mod idw;

#[derive(Clone, Debug, PartialEq, Eq)]
enum IOp {
    AddClaim { x: usize, t: u32 },
    RemoveClaim { x: usize, t: u32 },
    Answer { t: u32, confirm: bool },
    Mint { to: usize },
    Transfer { from: usize, to: usize },
    TransferFrom { from: usize, to: usize },
    Forced { from: usize, to: usize },
}

#[derive(Clone, Debug, PartialEq, Eq, Hash)]
struct IState {
    bal: [i128; 2],
    held: [[bool; 2]; 2], // [account][topic-1]
    confirm: [bool; 2],
}

struct RealId;

struct IInst {
    e: Env,
    tok: Address,
    issuer: Address,
    ids: [Address; 2],
    u: [Address; 2],
    spender: Address,
}

impl RealId {
    fn exec(&self, i: &IInst, op: &IOp) -> bool {
        let e = &i.e;
        let u = |k: usize| i.u[k].clone();
        let t = i.tok.clone();
        let (c, f, a): (Address, &str, SVec<Val>) = match op {
            IOp::AddClaim { x, t } => (
                i.ids[*x].clone(),
                "add_claim",
                (*t, 101u32, i.issuer.clone(), soroban_sdk::Bytes::from_array(e, &[1, *t as u8, 7]), soroban_sdk::Bytes::from_array(e, &[7]), soroban_sdk::String::from_str(e, "uri")).into_val(e),
            ),
            IOp::RemoveClaim { x, t } => {
                let id = view(e, &i.ids[*x], "claim_id", (i.issuer.clone(), *t).into_val(e)).expect("claim_id");
                (i.ids[*x].clone(), "remove_claim", (soroban_sdk::BytesN::<32>::try_from_val(e, &id).unwrap(),).into_val(e))
            }
            IOp::Answer { t, confirm } => (i.issuer.clone(), "set_answer", (*t, if *confirm { 0u32 } else { 1u32 }).into_val(e)),
            IOp::Mint { to } => (t, "mint", (u(*to), 2i128).into_val(e)),
            IOp::Transfer { from, to } => (t, "transfer", (u(*from), u(*to), 1i128).into_val(e)),
            IOp::TransferFrom { from, to } => (t, "transfer_from", (i.spender.clone(), u(*from), u(*to), 1i128).into_val(e)),
            IOp::Forced { from, to } => (t, "forced_transfer", (u(*from), u(*to), 1i128).into_val(e)),
        };
        call_mocked(e, &c, f, a).is_ok()
    }
    fn verified(m: &IState, x: usize) -> bool {
        (0..2).all(|t| m.held[x][t] && m.confirm[t])
    }
}

impl World for RealId {
    type Op = IOp;
    type Model = IState;
    type Inst = IInst;

    fn name(&self) -> String {
        "rwa-token-over-real-identity-verifier".into()
    }
    fn seeds(&self) -> usize {
        2
    }
    fn seed_name(&self, s: usize) -> String {
        ["both accounts hold both claims", "A holds both claims, B only the claim for topic 1"][s].into()
    }
    fn fresh(&self, seed: usize) -> (IInst, IState) {
        let e = envx::mk_env(100);
        let u = [Address::generate(&e), Address::generate(&e)];
        let spender = Address::generate(&e);
        let cti = e.register(idw::CtiWrap, ());
        let irs = e.register(idw::IrsWrap, ());
        let verifier = e.register(idw::VerifierWrap, (cti.clone(), irs.clone()));
        let issuer = e.register(idw::MockIssuer, ());
        let ids = [e.register(idw::IdentityWrap, ()), e.register(idw::IdentityWrap, ())];
        let comp = e.register(rwa_wrap::MockCompliance, ());
        let tok = e.register(rwa_wrap::RwaTok, (comp, verifier));
        let mut ts: SVec<u32> = SVec::new(&e);
        for t in [1u32, 2u32] {
            call_mocked(&e, &cti, "add_claim_topic", (t,).into_val(&e)).expect("topic");
            ts.push_back(t);
        }
        call_mocked(&e, &cti, "add_trusted_issuer", (issuer.clone(), ts).into_val(&e)).expect("issuer");
        for k in 0..2 {
            call_mocked(&e, &irs, "add_identity", (u[k].clone(), ids[k].clone()).into_val(&e)).expect("identity");
        }
        let i = IInst { e, tok, issuer, ids, u, spender };
        let mut m = IState { bal: [0; 2], held: [[false; 2]; 2], confirm: [true; 2] };
        for x in 0..2 {
            for t in [1u32, 2u32] {
                assert!(self.exec(&i, &IOp::AddClaim { x, t }));
                m.held[x][(t - 1) as usize] = true;
            }
        }
        assert!(self.exec(&i, &IOp::Mint { to: 0 }));
        assert!(self.exec(&i, &IOp::Mint { to: 1 }));
        m.bal = [2, 2];
        for k in 0..2 {
            call_mocked(&i.e, &i.tok, "approve", (i.u[k].clone(), i.spender.clone(), 3i128, 5000u32).into_val(&i.e)).expect("approve");
        }
        if seed == 1 {
            assert!(self.exec(&i, &IOp::RemoveClaim { x: 1, t: 2 }));
            m.held[1][1] = false;
        }
        (i, m)
    }
    fn ops(&self, _i: &IInst, m: &IState, _d: usize) -> Vec<IOp> {
        let mut v = vec![];
        for x in 0..2 {
            for t in [1u32, 2u32] {
                v.push(if m.held[x][(t - 1) as usize] { IOp::RemoveClaim { x, t } } else { IOp::AddClaim { x, t } });
            }
        }
        for t in [1u32, 2u32] {
            v.push(IOp::Answer { t, confirm: !m.confirm[(t - 1) as usize] });
        }
        for (from, to) in [(0, 1), (1, 0)] {
            v.push(IOp::Mint { to });
            v.push(IOp::Transfer { from, to });
            v.push(IOp::TransferFrom { from, to });
        }
        v.push(IOp::Forced { from: 0, to: 1 });
        v
    }
    fn kind(&self, op: &IOp) -> String {
        match op {
            IOp::AddClaim { .. } | IOp::RemoveClaim { .. } | IOp::Answer { .. } => "env",
            IOp::Mint { .. } => "mint",
            IOp::Transfer { .. } => "transfer",
            IOp::TransferFrom { .. } => "transfer_from",
            IOp::Forced { .. } => "forced_transfer",
        }
        .into()
    }
    fn apply(&self, i: &mut IInst, op: &IOp) {
        self.exec(i, op);
    }
    fn step(&self, i: &mut IInst, m: &mut IState, op: &IOp, cx: &mut StepCtx<Self>) -> Result<bool, Violation> {
        let pre = m.clone();
        let ok = self.exec(i, op);
        let v = |x: usize| Self::verified(&pre, x);
        if !ok {
            match op {
                IOp::Mint { to } if !v(*to) => cx.stats.count("#movement refused with an unverified party (real identity verifier)", 1),
                IOp::Transfer { from, to } | IOp::TransferFrom { from, to } if !(v(*from) && v(*to)) => cx.stats.count("#movement refused with an unverified party (real identity verifier)", 1),
                _ => {}
            }
            return Ok(false);
        }
        match op {
            IOp::AddClaim { x, t } => m.held[*x][(*t - 1) as usize] = true,
            IOp::RemoveClaim { x, t } => m.held[*x][(*t - 1) as usize] = false,
            IOp::Answer { t, confirm } => m.confirm[(*t - 1) as usize] = *confirm,
            IOp::Mint { to } => {
                ensure!(v(*to), "gate-identity", "mint to {} succeeded although its identity lacks a confirmed claim for a required topic (claims held [account][topic] {:?}, issuer confirms {:?})", ["A", "B"][*to], pre.held, pre.confirm);
                m.bal[*to] += 2;
            }
            IOp::Transfer { from, to } | IOp::TransferFrom { from, to } => {
                ensure!(
                    v(*from) && v(*to),
                    "gate-identity",
                    "{:?} succeeded although a party's identity lacks a confirmed claim for a required topic (claims held [account][topic] {:?}, issuer confirms {:?})",
                    op,
                    pre.held,
                    pre.confirm
                );
                m.bal[*from] -= 1;
                m.bal[*to] += 1;
            }
            IOp::Forced { from, to } => {
                m.bal[*from] -= 1;
                m.bal[*to] += 1;
            }
        }
        for k in 0..2 {
            let b = i128_of(&i.e, view(&i.e, &i.tok, "balance", (i.u[k].clone(),).into_val(&i.e)).map_err(|x| Violation::new("getter", format!("{x:?}")))?);
            ensure!(b == m.bal[k], "lockstep", "after {:?}: balance({}) = {}, expected {}", op, ["A", "B"][k], b, m.bal[k]);
        }
        Ok(true)
    }
    fn key(&self, i: &IInst) -> [u8; 32] {
        envx::storage_digest(&i.e, false)
    }
    fn model_digest(&self, m: &IState) -> u64 {
        vh::engine::dig(m)
    }
}

fn main() {
    main_with(
        "C04",
        "model_checking",
        "level-BFS over histories of mint/transfer/transfer_from/approve/forced_transfer/burn/recover_balance/set_address_frozen/(un)freeze_partial/pause/unpause plus environment flips (identity ok per account, compliance allow/deny, recovery target) on 3 accounts from 8 seeds (gates open + each single gate closed), amounts {-1,0,1,free,free+1,balance,balance+1,allowance,allowance+1}; wrapper token over the real RWA library, scripted compliance/identity contracts; the model predicts the complete post-state and the compliance notification log of every accepted call",
        |tier: Tier, r: &mut Runner| {
            let th = tier == Tier::Thorough;
            let all: Vec<usize> = (0..8).collect();
            r.world(&Rwa { thorough: th, seed_set: all }, &Bounds::new(tier.pick(2, 3), tier.pick(30, 400)));
            r.world(&Rwa { thorough: th, seed_set: vec![0] }, &Bounds::new(tier.pick(3, 4), tier.pick(30, 400)));
            r.world(&RealComp { thorough: th }, &Bounds::new(tier.pick(5, 6), tier.pick(30, 400)));
            r.world(&RealId, &Bounds::new(tier.pick(5, 7), tier.pick(30, 400)));
            if let Some(rep) = r.report() {
                rep.require(
                    &["mint", "transfer", "transfer_from", "forced_transfer", "burn", "recover_balance", "set_address_frozen", "freeze_partial", "unfreeze_partial", "pause", "unpause", "env", "compliance.add_module", "compliance.remove_module"],
                    &["mint", "transfer", "transfer_from", "forced_transfer", "burn", "recover_balance", "freeze_partial", "unfreeze_partial", "pause", "unpause"],
                );
                rep.require_counter(&["idle-probes", "transfers to a muxed destination accepted", "#movement refused with exactly one of two registered modules denying", "#movement refused with an unverified party (real identity verifier)"]);
            }
        },
    );
}
