//! C17 — Merkle proofs verify only true membership; the distributor claims each index once.
//!
//! Part 1 (stateless, function level): every tree with N = 1..=9 (quick) / 1..=33 (thorough)
//! distinct leaves is built HERE with the `sha2` / `sha3` crates in four shapes
//!   * sorted-carry : adjacent pairs hashed commutatively, an odd node is carried up unhashed
//!                    (proof lengths differ inside one tree),
//!   * sorted-oz    : the array layout of OpenZeppelin's merkle-tree library (node i is the
//!                    commutative hash of nodes 2i+1, 2i+2; leaves at different depths),
//!   * positional   : ordered pair hashing, odd levels padded with one fixed filler node, so that
//!                    index = position,
//!   * positional-dup: ordered pair hashing, odd levels padded with a copy of their last node (a
//!                    wrong index can then legitimately verify; the reference decides),
//! and for every leaf the honest proof plus every single-element corruption of
//! (leaf, proof, index, root) is handed to the library's `Verifier::<H>::verify` /
//! `verify_with_index` with the library's SHA-256 and Keccak-256 hashers (host functions: they are
//! cross-checked against sha2/sha3 by the honest proofs). Whether a corruption has to be rejected
//! is decided by an exact reference recomputation of the documented fold; a corruption that
//! reproduces the root is not a corruption (skipped, counted).
//!
//! Part 2 (BFS worlds): the `fungible-merkle-airdrop` example (sorted pairs, SHA-256, token
//! pay-out, root fixed by the constructor; seeds = three trees + an under-funded instance) and four
//! thin wrappers around `MerkleDistributor::<H>::verify_and_set_claimed` /
//! `verify_with_index_and_set_claimed` with `set_root`.

use sha2::Digest as _;
use soroban_sdk::testutils::Address as _;
use soroban_sdk::xdr::{Int128Parts, Limits, ScMap, ScMapEntry, ScSymbol, ScVal, WriteXdr};
use soroban_sdk::{Address, BytesN, Env, IntoVal, TryFromVal, Val, Vec as SVec};
use stellar_contract_utils::crypto::keccak::Keccak256 as LibKeccak;
use stellar_contract_utils::crypto::merkle::Verifier;
use stellar_contract_utils::crypto::sha256::Sha256 as LibSha;
use std::collections::BTreeMap;
use vh::auth::{self, call_mocked, view};
use vh::cli::{main_with, Runner};
use vh::engine::{Bounds, StepCtx, Violation, World};
use vh::ensure;
use vh::envx;
use vh::report::Tier;

#[path = "/repo/examples/fungible-merkle-airdrop/src/contract.rs"]
mod airdrop_example;
#[path = "../shared/merkle_dist.rs"]
mod merkle_dist;
#[path = "../shared/tokens.rs"]
mod tokens;

type H32 = [u8; 32];

// =============================================================================================
// Reference side: hashing, tree builders, the documented verification fold
// =============================================================================================

#[derive(Clone, Copy, Debug, PartialEq, Eq, PartialOrd, Ord, Hash)]
enum Hk {
    Sha256,
    Keccak256,
}

impl Hk {
    fn name(self) -> &'static str {
        match self {
            Hk::Sha256 => "sha256",
            Hk::Keccak256 => "keccak256",
        }
    }
}

#[derive(Clone, Copy, Debug, PartialEq, Eq, PartialOrd, Ord, Hash)]
enum Form {
    SortedCarry,
    SortedOz,
    Positional,
    /// positional, odd levels padded by duplicating their last node (the last leaf then also
    /// verifies under the index of its copy: the reference recognises such inputs as valid)
    PositionalDup,
}

impl Form {
    fn name(self) -> &'static str {
        match self {
            Form::SortedCarry => "sorted-carry",
            Form::SortedOz => "sorted-oz",
            Form::Positional => "positional",
            Form::PositionalDup => "positional-dup",
        }
    }
    fn positional(self) -> bool {
        matches!(self, Form::Positional | Form::PositionalDup)
    }
}

fn hx(hk: Hk, parts: &[&[u8]]) -> H32 {
    match hk {
        Hk::Sha256 => {
            let mut h = sha2::Sha256::new();
            for p in parts {
                h.update(p);
            }
            h.finalize().into()
        }
        Hk::Keccak256 => {
            let mut h = sha3::Keccak256::new();
            for p in parts {
                h.update(p);
            }
            h.finalize().into()
        }
    }
}

/// Commutative pair: the smaller (bytewise lexicographic) value first.
fn cpair(hk: Hk, a: &H32, b: &H32) -> H32 {
    if a <= b {
        hx(hk, &[a, b])
    } else {
        hx(hk, &[b, a])
    }
}

fn leaf_value(hk: Hk, k: usize) -> H32 {
    hx(hk, &[b"c17-leaf", &(k as u32).to_be_bytes()])
}
fn filler(hk: Hk) -> H32 {
    hx(hk, &[b"c17-filler"])
}
fn foreign(hk: Hk) -> H32 {
    hx(hk, &[b"c17-foreign"])
}

struct Built {
    root: H32,
    proofs: Vec<Vec<H32>>,
    /// every node value of the tree (leaves, inner nodes, filler if used, root), distinct, in a
    /// deterministic order
    nodes: Vec<H32>,
}

fn push_distinct(v: &mut Vec<H32>, x: H32) {
    if !v.contains(&x) {
        v.push(x);
    }
}

fn build(hk: Hk, form: Form, leaves: &[H32]) -> Built {
    let n = leaves.len();
    assert!(n >= 1);
    let mut nodes: Vec<H32> = vec![];
    match form {
        Form::SortedCarry | Form::Positional | Form::PositionalDup => {
            let mut levels: Vec<Vec<H32>> = vec![leaves.to_vec()];
            loop {
                let cur = levels.last_mut().unwrap();
                if cur.len() == 1 {
                    break;
                }
                if form.positional() && cur.len() % 2 == 1 {
                    let pad = if form == Form::Positional { filler(hk) } else { *cur.last().unwrap() };
                    cur.push(pad);
                }
                let cur = cur.clone();
                let mut next = vec![];
                let mut k = 0;
                while k < cur.len() {
                    if k + 1 < cur.len() {
                        next.push(if form.positional() { hx(hk, &[&cur[k], &cur[k + 1]]) } else { cpair(hk, &cur[k], &cur[k + 1]) });
                    } else {
                        next.push(cur[k]); // odd node carried up unhashed
                    }
                    k += 2;
                }
                levels.push(next);
            }
            for l in &levels {
                for x in l {
                    push_distinct(&mut nodes, *x);
                }
            }
            let mut proofs = vec![];
            for i in 0..n {
                let mut pos = i;
                let mut p = vec![];
                for l in &levels[..levels.len() - 1] {
                    let sib = pos ^ 1;
                    if sib < l.len() {
                        p.push(l[sib]);
                    }
                    pos /= 2;
                }
                proofs.push(p);
            }
            Built { root: levels.last().unwrap()[0], proofs, nodes }
        }
        Form::SortedOz => {
            let size = 2 * n - 1;
            let mut t = vec![[0u8; 32]; size];
            for (i, l) in leaves.iter().enumerate() {
                t[size - 1 - i] = *l;
            }
            for i in (0..size - n).rev() {
                t[i] = cpair(hk, &t[2 * i + 1], &t[2 * i + 2]);
            }
            for x in t.iter().rev() {
                push_distinct(&mut nodes, *x);
            }
            let mut proofs = vec![];
            for i in 0..n {
                let mut idx = size - 1 - i;
                let mut p = vec![];
                while idx > 0 {
                    let sib = if idx % 2 == 1 { idx + 1 } else { idx - 1 };
                    p.push(t[sib]);
                    idx = (idx - 1) / 2;
                }
                proofs.push(p);
            }
            Built { root: t[0], proofs, nodes }
        }
    }
}

#[derive(Clone, Debug, PartialEq, Eq, Hash)]
struct Input {
    leaf: H32,
    proof: Vec<H32>,
    root: H32,
    index: u32,
}

/// The documented algorithm: fold the proof over the leaf (sorted pairs, or ordered by the bits
/// of the index, least significant first; the positional form fails for proofs of 32 or more
/// elements and for an index >= 2^len) and compare with the root.
fn ref_verify(hk: Hk, positional: bool, inp: &Input) -> bool {
    let mut cur = inp.leaf;
    if positional {
        let len = inp.proof.len();
        if len >= 32 || (inp.index as u64) >= (1u64 << len) {
            return false;
        }
        let mut idx = inp.index;
        for s in &inp.proof {
            cur = if idx % 2 == 0 { hx(hk, &[&cur, s]) } else { hx(hk, &[s, &cur]) };
            idx /= 2;
        }
    } else {
        for s in &inp.proof {
            cur = cpair(hk, &cur, s);
        }
    }
    cur == inp.root
}

// =============================================================================================
// Implementation side of part 1
// =============================================================================================

#[derive(Clone, Copy, Debug, PartialEq, Eq)]
enum Got {
    True,
    False,
    Failed,
}

fn lib_verify(e: &Env, hk: Hk, positional: bool, inp: &Input) -> Got {
    let r = std::panic::catch_unwind(std::panic::AssertUnwindSafe(|| {
        let mut p: SVec<BytesN<32>> = SVec::new(e);
        for x in &inp.proof {
            p.push_back(BytesN::from_array(e, x));
        }
        let root = BytesN::from_array(e, &inp.root);
        let leaf = BytesN::from_array(e, &inp.leaf);
        match (hk, positional) {
            (Hk::Sha256, false) => Verifier::<LibSha>::verify(e, p, root, leaf),
            (Hk::Keccak256, false) => Verifier::<LibKeccak>::verify(e, p, root, leaf),
            (Hk::Sha256, true) => Verifier::<LibSha>::verify_with_index(e, p, root, leaf, inp.index),
            (Hk::Keccak256, true) => Verifier::<LibKeccak>::verify_with_index(e, p, root, leaf, inp.index),
        }
    }));
    match r {
        Ok(true) => Got::True,
        Ok(false) => Got::False,
        Err(_) => Got::Failed,
    }
}

// =============================================================================================
// Part 1: trees, corruptions, enumeration
// =============================================================================================

const WORLD1: &str = "merkle-verify";
const MAX_N_THOROUGH: usize = 33;

struct Tree {
    hk: Hk,
    form: Form,
    n: usize,
    leaves: Vec<H32>,
    b: Built,
}

fn tree(hk: Hk, form: Form, n: usize) -> Tree {
    let leaves: Vec<H32> = (0..n).map(|k| leaf_value(hk, k)).collect();
    let b = build(hk, form, &leaves);
    Tree { hk, form, n, leaves, b }
}

#[derive(Clone, Debug, PartialEq, Eq)]
enum Corr {
    Honest,
    /// leaf replaced by another leaf of the same tree
    LeafToLeaf(usize),
    /// leaf replaced by leaf number N (member of every larger tree, not of this one)
    LeafToNextLeaf,
    LeafToForeign,
    LeafBit(u16),
    /// leaf replaced by a non-leaf node of the tree (inner node, filler or root)
    LeafToNode(usize),
    ProofBit(usize, u16),
    /// proof element p replaced by node x of the tree
    ProofNode(usize, usize),
    ProofForeign(usize),
    /// elements p and p+1 exchanged
    Swap(usize),
    /// proof cut to its first k elements
    TruncTo(usize),
    /// element p removed
    Remove(usize),
    ExtBack(usize),
    ExtFront(usize),
    ExtBackForeign,
    ExtFrontForeign,
    /// positional: another index below 2^len
    Index(u32),
    /// positional: an index >= 2^len
    IndexOob(u32),
    /// root of the tree with this many leaves (same hasher, same shape)
    RootTree(usize),
    RootBit(u16),
    RootNode(usize),
    RootForeign,
    /// positional: proof padded with filler nodes to this length (>= 32)
    Overlong(usize),
}

fn corr_kind(c: &Corr) -> &'static str {
    match c {
        Corr::Honest => "honest",
        Corr::LeafToLeaf(_) => "leaf->other-leaf",
        Corr::LeafToNextLeaf | Corr::LeafToForeign => "leaf->non-member",
        Corr::LeafBit(_) => "leaf->bitflip",
        Corr::LeafToNode(_) => "leaf->inner-node",
        Corr::ProofBit(..) => "proof-elem->bitflip",
        Corr::ProofNode(..) | Corr::ProofForeign(_) => "proof-elem->other-node",
        Corr::Swap(_) => "proof-swap",
        Corr::TruncTo(_) | Corr::Remove(_) => "proof-truncate",
        Corr::ExtBack(_) | Corr::ExtFront(_) | Corr::ExtBackForeign | Corr::ExtFrontForeign => "proof-extend",
        Corr::Index(_) => "index->wrong-in-range",
        Corr::IndexOob(_) => "index->out-of-range",
        Corr::RootTree(_) => "root->other-tree",
        Corr::RootBit(_) => "root->bitflip",
        Corr::RootNode(_) | Corr::RootForeign => "root->other-node",
        Corr::Overlong(_) => "proof-overlong",
    }
}

fn flip(mut x: H32, b: u16) -> H32 {
    x[(b / 8) as usize] ^= 1 << (b % 8);
    x
}

fn corruptions(t: &Tree, i: usize, max_n: usize, bits: &[u16]) -> Vec<Corr> {
    let proof = &t.b.proofs[i];
    let len = proof.len();
    let nodes = &t.b.nodes;
    let mut v = vec![Corr::Honest];
    for k in 0..t.n {
        if k != i {
            v.push(Corr::LeafToLeaf(k));
        }
    }
    v.push(Corr::LeafToNextLeaf);
    v.push(Corr::LeafToForeign);
    for b in bits {
        v.push(Corr::LeafBit(*b));
    }
    for (x, nd) in nodes.iter().enumerate() {
        if !t.leaves.contains(nd) {
            v.push(Corr::LeafToNode(x));
        }
    }
    for p in 0..len {
        for b in bits {
            v.push(Corr::ProofBit(p, *b));
        }
        for (x, nd) in nodes.iter().enumerate() {
            if *nd != proof[p] {
                v.push(Corr::ProofNode(p, x));
            }
        }
        v.push(Corr::ProofForeign(p));
    }
    for p in 0..len.saturating_sub(1) {
        v.push(Corr::Swap(p));
    }
    for k in 0..len {
        v.push(Corr::TruncTo(k));
    }
    for p in 0..len.saturating_sub(1) {
        v.push(Corr::Remove(p));
    }
    for x in 0..nodes.len() {
        v.push(Corr::ExtBack(x));
        v.push(Corr::ExtFront(x));
    }
    v.push(Corr::ExtBackForeign);
    v.push(Corr::ExtFrontForeign);
    if t.form.positional() {
        let lim = 1u32 << len;
        for w in 0..lim {
            if w as usize != i {
                v.push(Corr::Index(w));
            }
        }
        let mut oob = vec![lim, lim + i as u32, lim.wrapping_mul(2) + i as u32, 1u32 << 31, (1u32 << 31) + i as u32, u32::MAX];
        oob.sort();
        oob.dedup();
        for w in oob {
            if w >= lim {
                v.push(Corr::IndexOob(w));
            }
        }
        v.push(Corr::Overlong(32));
        v.push(Corr::Overlong(33));
    }
    for n2 in 1..=max_n {
        if n2 != t.n {
            v.push(Corr::RootTree(n2));
        }
    }
    for b in 0..256u16 {
        v.push(Corr::RootBit(b));
    }
    for (x, nd) in nodes.iter().enumerate() {
        if *nd != t.b.root {
            v.push(Corr::RootNode(x));
        }
    }
    v.push(Corr::RootForeign);
    v
}

fn mutate(t: &Tree, i: usize, c: &Corr, roots: &BTreeMap<(Hk, Form, usize), H32>) -> Input {
    let mut inp = Input { leaf: t.leaves[i], proof: t.b.proofs[i].clone(), root: t.b.root, index: if t.form.positional() { i as u32 } else { 0 } };
    let nodes = &t.b.nodes;
    match c {
        Corr::Honest => {}
        Corr::LeafToLeaf(k) => inp.leaf = t.leaves[*k],
        Corr::LeafToNextLeaf => inp.leaf = leaf_value(t.hk, t.n),
        Corr::LeafToForeign => inp.leaf = foreign(t.hk),
        Corr::LeafBit(b) => inp.leaf = flip(inp.leaf, *b),
        Corr::LeafToNode(x) => inp.leaf = nodes[*x],
        Corr::ProofBit(p, b) => inp.proof[*p] = flip(inp.proof[*p], *b),
        Corr::ProofNode(p, x) => inp.proof[*p] = nodes[*x],
        Corr::ProofForeign(p) => inp.proof[*p] = foreign(t.hk),
        Corr::Swap(p) => inp.proof.swap(*p, *p + 1),
        Corr::TruncTo(k) => inp.proof.truncate(*k),
        Corr::Remove(p) => {
            inp.proof.remove(*p);
        }
        Corr::ExtBack(x) => inp.proof.push(nodes[*x]),
        Corr::ExtFront(x) => inp.proof.insert(0, nodes[*x]),
        Corr::ExtBackForeign => inp.proof.push(foreign(t.hk)),
        Corr::ExtFrontForeign => inp.proof.insert(0, foreign(t.hk)),
        Corr::Index(w) | Corr::IndexOob(w) => inp.index = *w,
        Corr::RootTree(n2) => inp.root = roots[&(t.hk, t.form, *n2)],
        Corr::RootBit(b) => inp.root = flip(inp.root, *b),
        Corr::RootNode(x) => inp.root = nodes[*x],
        Corr::RootForeign => inp.root = foreign(t.hk),
        Corr::Overlong(l) => {
            while inp.proof.len() < *l {
                inp.proof.push(filler(t.hk));
            }
        }
    }
    inp
}

#[derive(Clone, Debug, Default)]
struct KindStat {
    cases: u64,
    accepted: u64,
    rejected_false: u64,
    rejected_failed: u64,
    /// corruptions whose exact recomputation reproduces the root (no verdict demanded)
    legit_accepting: u64,
    /// corruptions that leave (leaf, proof, index, root) unchanged
    identical: u64,
}

#[derive(Default)]
struct TaskOut {
    kinds: BTreeMap<&'static str, KindStat>,
    evals: u64,
    digs: Vec<u64>,
    violations: Vec<(String, String, String, String)>,
    builder_errors: Vec<String>,
}

fn case_desc(t: &Tree, i: usize, c: &Corr) -> String {
    format!("{}/{}/N={}/leaf={}/{:?}", t.hk.name(), t.form.name(), t.n, i, c)
}

fn hexs(x: &H32) -> String {
    hex::encode(&x[..6])
}

fn describe(inp: &Input) -> String {
    format!(
        "leaf={}.. proof=[{}] index={} root={}..",
        hexs(&inp.leaf),
        inp.proof.iter().map(|p| format!("{}..", hexs(p))).collect::<Vec<_>>().join(","),
        inp.index,
        hexs(&inp.root)
    )
}

/// Verdict for one case; `Err((oracle, detail))` is a property violation.
fn judge(c: &Corr, expected_valid: bool, got: Got) -> Result<(), (&'static str, String)> {
    if *c == Corr::Honest {
        if got != Got::True {
            return Err(("honest-proof-accepted", format!("the honest proof of a member leaf was not accepted (library result {:?})", got)));
        }
        return Ok(());
    }
    if !expected_valid && got == Got::True {
        return Err((
            "corruption-rejected",
            "the library accepted an input whose exact recomputation (documented fold) does not reproduce the root".into(),
        ));
    }
    Ok(())
}

fn run_leaf(t: &Tree, i: usize, max_n: usize, bits: &[u16], roots: &BTreeMap<(Hk, Form, usize), H32>) -> TaskOut {
    let e = envx::mk_env(100);
    let mut out = TaskOut::default();
    let positional = t.form.positional();
    let honest = mutate(t, i, &Corr::Honest, roots);
    for c in corruptions(t, i, max_n, bits) {
        let inp = mutate(t, i, &c, roots);
        let st = out.kinds.entry(corr_kind(&c)).or_default();
        if c != Corr::Honest && inp == honest {
            st.identical += 1;
            continue;
        }
        let expected = ref_verify(t.hk, positional, &inp);
        if c == Corr::Honest && !expected {
            out.builder_errors.push(format!("harness tree builder: honest proof of {} does not reproduce the root", case_desc(t, i, &c)));
            continue;
        }
        let got = lib_verify(&e, t.hk, positional, &inp);
        out.evals += 1;
        out.digs.push(vh::engine::dig(&(t.hk, positional, &inp)));
        st.cases += 1;
        match got {
            Got::True => st.accepted += 1,
            Got::False => st.rejected_false += 1,
            Got::Failed => st.rejected_failed += 1,
        }
        if c != Corr::Honest && expected {
            st.legit_accepting += 1;
            continue;
        }
        if let Err((oracle, detail)) = judge(&c, expected, got) {
            out.violations.push((oracle.to_string(), corr_kind(&c).to_string(), case_desc(t, i, &c), format!("{detail}; {}", describe(&inp))));
        }
    }
    out
}

fn all_bits() -> Vec<u16> {
    (0..256u16).collect()
}

fn part1(tier: Tier, r: &mut Runner) {
    use rayon::prelude::*;
    let hks = [Hk::Sha256, Hk::Keccak256];
    let forms = [Form::SortedCarry, Form::SortedOz, Form::Positional, Form::PositionalDup];
    if !r.exploring() {
        if let Some(case) = r.replay_case(WORLD1) {
            replay_case1(&case);
        }
        return;
    }
    let max_n = tier.pick(9, MAX_N_THOROUGH);
    let bits = all_bits();
    let t0 = std::time::Instant::now();
    let mut trees: Vec<Tree> = vec![];
    for hk in hks {
        for form in forms {
            for n in 1..=max_n {
                trees.push(tree(hk, form, n));
            }
        }
    }
    let roots: BTreeMap<(Hk, Form, usize), H32> = trees.iter().map(|t| ((t.hk, t.form, t.n), t.b.root)).collect();
    let tasks: Vec<(usize, usize)> = trees.iter().enumerate().flat_map(|(ti, t)| (0..t.n).map(move |i| (ti, i))).collect();
    let outs: Vec<TaskOut> = tasks.par_iter().map(|(ti, i)| run_leaf(&trees[*ti], *i, max_n, &bits, &roots)).collect();

    let mut kinds: BTreeMap<&'static str, KindStat> = BTreeMap::new();
    let mut evals = 0u64;
    let mut digs: Vec<u64> = vec![];
    let rep = r.report().unwrap();
    for o in outs {
        evals += o.evals;
        digs.extend(o.digs);
        for (k, s) in o.kinds {
            let a = kinds.entry(k).or_default();
            a.cases += s.cases;
            a.accepted += s.accepted;
            a.rejected_false += s.rejected_false;
            a.rejected_failed += s.rejected_failed;
            a.legit_accepting += s.legit_accepting;
            a.identical += s.identical;
        }
        for m in o.builder_errors {
            rep.machinery_error(&m);
        }
        for (oracle, kind, case, detail) in o.violations {
            rep.case_violation(WORLD1, &oracle, &kind, case, detail);
        }
    }
    digs.sort_unstable();
    digs.dedup();
    let distinct = digs.len() as u64;
    rep.evaluations += evals;
    rep.distinct_nontrivial += distinct;
    println!(
        "enumeration {WORLD1}: trees={} (N=1..={max_n} x {{sha256,keccak256}} x {{sorted-carry,sorted-oz,positional,positional-dup}}) leaves={} library-calls={} distinct-inputs={} wall={:.1}s",
        trees.len(),
        tasks.len(),
        evals,
        distinct,
        t0.elapsed().as_secs_f64()
    );
    let mut table = serde_json::Map::new();
    for (k, s) in &kinds {
        println!(
            "    {k:<26} cases={:<9} accepted={:<7} false={:<9} failed={:<7} legit-accepting={:<5} identical={}",
            s.cases, s.accepted, s.rejected_false, s.rejected_failed, s.legit_accepting, s.identical
        );
        table.insert(
            k.to_string(),
            serde_json::json!({"cases": s.cases, "accepted": s.accepted, "rejected_false": s.rejected_false, "rejected_failed": s.rejected_failed,
                "legit_accepting_skipped": s.legit_accepting, "identical_skipped": s.identical}),
        );
    }
    rep.extra("function_level_outcomes", serde_json::Value::Object(table));
    rep.extra("function_level_trees", serde_json::json!({"count": trees.len(), "max_leaves": max_n, "leaf_positions": tasks.len()}));
    // vacuity of the enumeration: every corruption kind was exercised and rejected at least once,
    // honest proofs were accepted for every leaf position, out-of-range failures were seen
    let required = [
        "leaf->other-leaf",
        "leaf->non-member",
        "leaf->bitflip",
        "leaf->inner-node",
        "proof-elem->bitflip",
        "proof-elem->other-node",
        "proof-swap",
        "proof-truncate",
        "proof-extend",
        "index->wrong-in-range",
        "index->out-of-range",
        "root->other-tree",
        "root->bitflip",
        "root->other-node",
        "proof-overlong",
    ];
    for k in required {
        let s = kinds.get(k).cloned().unwrap_or_default();
        if s.rejected_false + s.rejected_failed == 0 {
            rep.machinery_error(&format!("vacuous enumeration: corruption kind '{k}' was never rejected"));
        }
    }
    let h = kinds.get("honest").cloned().unwrap_or_default();
    if h.cases != tasks.len() as u64 || (h.accepted != h.cases && !rep.has_violation(&format!("{WORLD1}|honest-proof-accepted|honest"))) {
        rep.machinery_error("vacuous enumeration: honest proofs were not evaluated for every leaf position");
    }
    if kinds.get("index->out-of-range").map(|s| s.rejected_failed).unwrap_or(0) == 0 {
        rep.note("no out-of-range index made the library fail (all returned false)");
    }
    // samples
    for (hk, form, n, i, c) in [
        (Hk::Sha256, Form::SortedCarry, 5usize, 4usize, Corr::Honest),
        (Hk::Keccak256, Form::SortedOz, 6, 0, Corr::Swap(0)),
        (Hk::Sha256, Form::Positional, 5, 4, Corr::Index(5)),
        (Hk::Keccak256, Form::Positional, 7, 3, Corr::IndexOob(8 + 3)),
        (Hk::Sha256, Form::PositionalDup, 5, 4, Corr::Index(5)),
    ] {
        let t = tree(hk, form, n);
        let inp = mutate(&t, i, &c, &roots);
        let exp = ref_verify(hk, form.positional(), &inp);
        let e = envx::mk_env(100);
        let got = lib_verify(&e, hk, form.positional(), &inp);
        rep.sample(serde_json::json!({"case": case_desc(&t, i, &c), "input": describe(&inp), "reference_reproduces_root": exp, "library": format!("{got:?}")}));
    }
}

fn replay_case1(case: &str) {
    let parts: Vec<&str> = case.splitn(5, '/').collect();
    if parts.len() != 5 {
        eprintln!("bad case descriptor {case}");
        std::process::exit(2);
    }
    let hk = match parts[0] {
        "sha256" => Hk::Sha256,
        "keccak256" => Hk::Keccak256,
        _ => {
            eprintln!("bad hasher in {case}");
            std::process::exit(2)
        }
    };
    let form = match parts[1] {
        "sorted-carry" => Form::SortedCarry,
        "sorted-oz" => Form::SortedOz,
        "positional" => Form::Positional,
        "positional-dup" => Form::PositionalDup,
        _ => {
            eprintln!("bad tree shape in {case}");
            std::process::exit(2)
        }
    };
    let n: usize = parts[2].trim_start_matches("N=").parse().unwrap_or(0);
    let i: usize = parts[3].trim_start_matches("leaf=").parse().unwrap_or(usize::MAX);
    if n == 0 || i >= n {
        eprintln!("bad tree size / leaf in {case}");
        std::process::exit(2);
    }
    let t = tree(hk, form, n);
    let max_n = MAX_N_THOROUGH.max(n);
    let roots: BTreeMap<(Hk, Form, usize), H32> = (1..=max_n).map(|k| ((hk, form, k), tree(hk, form, k).b.root)).collect();
    let Some(c) = corruptions(&t, i, max_n, &all_bits()).into_iter().find(|c| format!("{c:?}") == parts[4]) else {
        eprintln!("case {case}: corruption {} does not exist for this leaf", parts[4]);
        std::process::exit(2);
    };
    let inp = mutate(&t, i, &c, &roots);
    let honest = mutate(&t, i, &Corr::Honest, &roots);
    let expected = ref_verify(hk, form.positional(), &inp);
    let e = envx::mk_env(100);
    let got = lib_verify(&e, hk, form.positional(), &inp);
    println!("case {case}");
    println!("  tree: {} leaves, hasher {}, shape {}, root {}", n, hk.name(), form.name(), hex::encode(t.b.root));
    println!("  honest : {}", describe(&honest));
    println!("  input  : {}", describe(&inp));
    println!("  reference recomputation reproduces the root: {expected}");
    println!("  library result: {got:?}");
    match judge(&c, expected, got) {
        _ if c != Corr::Honest && expected => println!("  not a corruption (the input is itself a valid proof): no verdict demanded"),
        Ok(()) => println!("  no oracle violated on this case"),
        Err((oracle, detail)) => println!("  VIOLATED oracle={oracle} : {detail}"),
    }
}

// =============================================================================================
// Part 2: distributor worlds
// =============================================================================================

#[derive(Clone, Copy, Debug, PartialEq, Eq)]
enum Fl {
    Example,
    SortedSha,
    SortedKeccak,
    IndexedSha,
    IndexedKeccak,
}

impl Fl {
    fn hk(self) -> Hk {
        match self {
            Fl::Example | Fl::SortedSha | Fl::IndexedSha => Hk::Sha256,
            Fl::SortedKeccak | Fl::IndexedKeccak => Hk::Keccak256,
        }
    }
    fn positional(self) -> bool {
        matches!(self, Fl::IndexedSha | Fl::IndexedKeccak)
    }
}

const NR: usize = 4; // receivers
const NI: usize = 5; // observed indices 0..=4
/// indices that no tree contains: aliases of 0..=4 under any power-of-two folding, word boundaries, extremes
const FAR_INDICES: [u32; 50] = [
    5, 7, 8, 9, 15, 16, 17, 18, 19, 20, 31, 32, 33, 34, 35, 36, 63, 64, 65, 66, 67, 68, 127, 128, 129, 130, 131, 132, 255, 256, 257, 258, 259, 260, 511, 512, 513, 1024, 1027, 4096, 65536, 65539, 1 << 20, 1 << 24, (1 << 24) + 2, 1 << 31, (1 << 31) + 1, (1 << 31) + 4, u32::MAX - 1, u32::MAX,
];

/// (index field, receiver number, amount) of every leaf of the three distribution trees.
/// Sorted flavours: T0 balanced 4 leaves; T1 three leaves (odd node carried up) with index 0
/// occurring twice (two different receivers / amounts); T2 the single leaf (2, R2, 30), which is
/// also a leaf of T0 (its root equals that leaf hash, its proof is empty).
/// Positional flavours: the index field is the position; T1 has three leaves + filler.
fn leaf_specs(positional: bool) -> Vec<Vec<(u32, usize, i128)>> {
    if positional {
        vec![vec![(0, 0, 10), (1, 1, 20), (2, 2, 30), (3, 3, 40)], vec![(0, 0, 11), (1, 1, 12), (2, 2, 13)], vec![(0, 0, 10)]]
    } else {
        vec![vec![(0, 0, 10), (1, 1, 20), (2, 2, 30), (3, 3, 40)], vec![(0, 0, 11), (1, 1, 12), (0, 3, 13)], vec![(2, 2, 30)]]
    }
}

/// XDR of the leaf value as published by the example: a `#[contracttype]` struct
/// {index: u32, address: Address, amount: i128} = ScVal map with symbol keys in sorted order.
fn leaf_xdr(index: u32, addr: &Address, amount: i128) -> Vec<u8> {
    let sym = |s: &str| ScVal::Symbol(ScSymbol(s.try_into().expect("sym")));
    let entries = vec![
        ScMapEntry { key: sym("address"), val: ScVal::Address(auth::sc(addr)) },
        ScMapEntry { key: sym("amount"), val: ScVal::I128(Int128Parts { hi: (amount >> 64) as i64, lo: amount as u64 }) },
        ScMapEntry { key: sym("index"), val: ScVal::U32(index) },
    ];
    ScVal::Map(Some(ScMap(entries.try_into().expect("map")))).to_xdr(Limits::none()).expect("xdr")
}

struct DTree {
    spec: Vec<(u32, usize, i128)>,
    b: Built,
}

#[derive(Clone, Copy, Debug, PartialEq, Eq)]
enum Amt {
    Same,
    Plus1,
    Zero,
}

#[derive(Clone, Copy, Debug, PartialEq, Eq)]
enum Pf {
    /// the honest proof of leaf k of tree t
    Of(usize, usize),
    Empty,
    /// that proof without its last element
    Trunc(usize, usize),
    /// that proof extended by the root of the tree
    Ext(usize, usize),
}

#[derive(Clone, Debug, PartialEq, Eq)]
enum Op {
    /// claim(index, receiver and amount of leaf `of` = (tree, leaf) [amount varied], proof)
    Claim { index: u32, of: (usize, usize), amt: Amt, proof: Pf },
    SetRoot(usize),
    /// one jump of the ledger per history, longer than the library's TTL extension of a claimed
    /// flag (30 days of ledgers) and shorter than the environment's minimum persistent lifetime
    Advance(u32),
    /// no call at all and no transition: on a rebuilt copy of the state (also of the states after
    /// the jump) 600000 ledgers pass without any invocation; claimed flags, balances and the root
    /// must be what they were, and an honest claim for a still unclaimed index of the current
    /// root's tree must then behave as the model says
    IdleProbe,
}

const JUMP: u32 = 600_000;
/// ledgers that pass in an idle probe (largest TTL extension of the library: 518400; persistent
/// TTL of `envx::mk_env`: 3000000, so even jump + probe stays inside it)
const IDLE: u32 = 600_000;

/// A disagreement found after the idle period: nothing was called in between, so whatever differs
/// from the model was lost (or appeared) through the passage of time alone.
fn idle_viol(v: Violation) -> Violation {
    Violation::new("state-survives-idle", format!("after {IDLE} ledgers without any call [{}] {}", v.oracle, v.detail))
}

#[derive(Clone, Debug, PartialEq, Eq, Hash)]
struct Obs {
    claimed: [bool; NI],
    /// token balances of the receivers and of the distributor (example only)
    bal: [i128; NR + 1],
}

#[derive(Clone, Debug)]
struct Model {
    root: Option<usize>,
    obs: Obs,
    jumped: bool,
}

struct Dist {
    fl: Fl,
    thorough: bool,
}

struct Inst {
    e: Env,
    c: Address,
    token: Option<Address>,
    recv: [Address; NR],
    trees: Vec<DTree>,
}

impl Dist {
    fn resolve(&self, i: &Inst, op: &Op) -> (u32, usize, i128, Vec<H32>) {
        let Op::Claim { index, of, amt, proof } = op else { unreachable!("resolve is for claims") };
        let (_, r, a) = i.trees[of.0].spec[of.1];
        let amount = match amt {
            Amt::Same => a,
            Amt::Plus1 => a + 1,
            Amt::Zero => 0,
        };
        let p = match proof {
            Pf::Of(t, k) => i.trees[*t].b.proofs[*k].clone(),
            Pf::Empty => vec![],
            Pf::Trunc(t, k) => {
                let mut p = i.trees[*t].b.proofs[*k].clone();
                p.pop();
                p
            }
            Pf::Ext(t, k) => {
                let mut p = i.trees[*t].b.proofs[*k].clone();
                p.push(i.trees[*t].b.root);
                p
            }
        };
        (*index, r, amount, p)
    }

    fn exec(&self, i: &Inst, op: &Op) -> bool {
        let e = &i.e;
        match op {
            Op::IdleProbe => false,
            Op::Advance(k) => {
                envx::advance(e, *k);
                true
            }
            Op::SetRoot(t) => {
                let args: SVec<Val> = (BytesN::from_array(e, &i.trees[*t].b.root),).into_val(e);
                call_mocked(e, &i.c, "set_root", args).is_ok()
            }
            Op::Claim { .. } => {
                let (index, r, amount, p) = self.resolve(i, op);
                let mut proof: SVec<BytesN<32>> = SVec::new(e);
                for x in &p {
                    proof.push_back(BytesN::from_array(e, x));
                }
                let args: SVec<Val> = (index, i.recv[r].clone(), amount, proof).into_val(e);
                let res = call_mocked(e, &i.c, "claim", args);
                if std::env::var("VH_DEBUG").is_ok() {
                    eprintln!("{op:?} -> {res:?}");
                }
                res.is_ok()
            }
        }
    }

    fn observe(&self, i: &Inst) -> Result<Obs, Violation> {
        let e = &i.e;
        let mut o = Obs { claimed: [false; NI], bal: [0; NR + 1] };
        for k in 0..NI {
            let v = view(e, &i.c, "is_claimed", (k as u32,).into_val(e)).map_err(|x| Violation::new("getter", format!("is_claimed({k}): {x:?}")))?;
            o.claimed[k] = bool::try_from_val(e, &v).map_err(|_| Violation::new("getter", "is_claimed: not a bool".into()))?;
        }
        if let Some(t) = &i.token {
            for k in 0..=NR {
                let who = if k < NR { i.recv[k].clone() } else { i.c.clone() };
                let v = view(e, t, "balance", (who,).into_val(e)).map_err(|x| Violation::new("getter", format!("balance: {x:?}")))?;
                o.bal[k] = i128::try_from_val(e, &v).map_err(|_| Violation::new("getter", "balance: not an i128".into()))?;
            }
        }
        Ok(o)
    }

    /// The idle probe (see `Op::IdleProbe`) on a throw-away copy of the state.
    fn idle_probe(&self, copy: &mut Inst, m: &Model, cx: &mut StepCtx<Self>) -> Result<(), Violation> {
        envx::advance(&copy.e, IDLE);
        let post = self.observe(copy).map_err(idle_viol)?;
        ensure!(post == m.obs, "state-survives-idle", "after {IDLE} ledgers without any call the contract shows {:?}, before it was {:?}", post, m.obs);
        let mut n = NI as u64 + if copy.token.is_some() { NR as u64 + 1 } else { 0 };
        if self.fl != Fl::Example {
            // the wrappers expose the root (the getter fails while no root is set)
            let got = match view(&copy.e, &copy.c, "get_root", SVec::new(&copy.e)) {
                Ok(v) => Some(BytesN::<32>::try_from_val(&copy.e, &v).map_err(|_| Violation::new("getter", "get_root: not BytesN<32>".into()))?.to_array()),
                Err(_) => None,
            };
            let want = m.root.map(|t| copy.trees[t].b.root);
            ensure!(
                got == want,
                "state-survives-idle",
                "after {IDLE} ledgers without any call get_root {} although the model's root is {:?}",
                match got {
                    Some(_) => "returns another value",
                    None => "fails",
                },
                m.root.map(|t| format!("T{t}"))
            );
            n += 1;
        }
        cx.stats.count("getter-comparisons-after-long-idle", n);
        // the root is still in force (the example has no getter for it): one honest claim, judged
        // by the oracles of an ordinary step; its statistics are kept apart from the vacuity counters
        if let Some(t) = m.root {
            let unclaimed = (0..copy.trees[t].spec.len()).find(|k| !m.obs.claimed[copy.trees[t].spec[*k].0 as usize]);
            if let Some(k) = unclaimed {
                let op = Op::Claim { index: copy.trees[t].spec[k].0, of: (t, k), amt: Amt::Same, proof: Pf::Of(t, k) };
                let mut m2 = m.clone();
                let mut own = vh::engine::Stats::default();
                let ok = {
                    let mut cx2 = StepCtx { world: self, seed: cx.seed, hist: cx.hist, stats: &mut own };
                    self.step(copy, &mut m2, &op, &mut cx2).map_err(idle_viol)?
                };
                cx.stats.count(if ok { "honest claims after long idle -> ok" } else { "honest claims after long idle -> refused (cannot pay)" }, 1);
            }
        }
        cx.stats.count("idle-probes", 1);
        Ok(())
    }

    /// seeds of the example world: (tree fixed by the constructor, funding)
    fn example_seed(&self, seed: usize) -> (usize, i128) {
        [(0usize, 100i128), (1, 36), (2, 30), (0, 45)][seed]
    }
}

impl World for Dist {
    type Op = Op;
    type Model = Model;
    type Inst = Inst;

    fn name(&self) -> String {
        let n = match self.fl {
            Fl::Example => "distributor-airdrop-example",
            Fl::SortedSha => "distributor-sorted-sha256",
            Fl::SortedKeccak => "distributor-sorted-keccak256",
            Fl::IndexedSha => "distributor-indexed-sha256",
            Fl::IndexedKeccak => "distributor-indexed-keccak256",
        };
        format!("{n}{}", if self.thorough { "-t" } else { "" })
    }

    fn seeds(&self) -> usize {
        if self.fl == Fl::Example {
            4
        } else {
            1
        }
    }

    fn seed_name(&self, s: usize) -> String {
        if self.fl == Fl::Example {
            ["root=T0 funded 100", "root=T1 funded 36", "root=T2 funded 30", "root=T0 funded 45 (short)"][s].to_string()
        } else {
            "root unset".into()
        }
    }

    fn fresh(&self, seed: usize) -> (Inst, Model) {
        let e = envx::mk_env(100);
        let recv = [Address::generate(&e), Address::generate(&e), Address::generate(&e), Address::generate(&e)];
        let source = Address::generate(&e);
        let hk = self.fl.hk();
        let form = if self.fl.positional() { Form::Positional } else { Form::SortedCarry };
        let trees: Vec<DTree> = leaf_specs(self.fl.positional())
            .into_iter()
            .map(|spec| {
                let leaves: Vec<H32> = spec.iter().map(|(ix, r, a)| hx(hk, &[&leaf_xdr(*ix, &recv[*r], *a)])).collect();
                let b = build(hk, form, &leaves);
                DTree { spec, b }
            })
            .collect();
        let mut token = None;
        let mut root = None;
        let c = match self.fl {
            Fl::Example => {
                let (t, funding) = self.example_seed(seed);
                let tok = e.register(tokens::BaseTok, ());
                call_mocked(&e, &tok, "mint", (source.clone(), 1000i128).into_val(&e)).expect("mint");
                // the funding transfer is authorized by the source below the root invocation
                e.mock_all_auths_allowing_non_root_auth();
                let c = e.register(
                    airdrop_example::AirdropContract,
                    (BytesN::from_array(&e, &trees[t].b.root), tok.clone(), funding, source.clone()),
                );
                token = Some(tok);
                root = Some(t);
                c
            }
            Fl::SortedSha => e.register(merkle_dist::SortedSha, ()),
            Fl::SortedKeccak => e.register(merkle_dist::SortedKeccak, ()),
            Fl::IndexedSha => e.register(merkle_dist::IndexedSha, ()),
            Fl::IndexedKeccak => e.register(merkle_dist::IndexedKeccak, ()),
        };
        let inst = Inst { e, c, token, recv, trees };
        let obs = self.observe(&inst).expect("observe seed");
        (inst, Model { root, obs, jumped: false })
    }

    fn ops(&self, i: &Inst, m: &Model, _d: usize) -> Vec<Op> {
        let mut v = vec![];
        if self.fl != Fl::Example {
            for t in 0..i.trees.len() {
                v.push(Op::SetRoot(t));
            }
        }
        let leaves: Vec<(usize, usize)> = i.trees.iter().enumerate().flat_map(|(t, d)| (0..d.spec.len()).map(move |k| (t, k))).collect();
        let mut proofs: Vec<Pf> = leaves.iter().map(|(t, k)| Pf::Of(*t, *k)).collect();
        proofs.push(Pf::Empty);
        for (t, k) in &leaves {
            if !i.trees[*t].b.proofs[*k].is_empty() {
                // truncations: only where they differ from Empty unless thorough
                if self.thorough || i.trees[*t].b.proofs[*k].len() > 1 {
                    proofs.push(Pf::Trunc(*t, *k));
                }
            }
            if self.thorough || *k == 0 {
                proofs.push(Pf::Ext(*t, *k));
            }
        }
        let max_index = if self.thorough { NI as u32 } else { 4 };
        let amts: &[Amt] = if self.thorough { &[Amt::Same, Amt::Plus1, Amt::Zero] } else { &[Amt::Same, Amt::Plus1] };
        // honest shapes first (simplest counterexamples), then everything else
        for (t, k) in &leaves {
            v.push(Op::Claim { index: i.trees[*t].spec[*k].0, of: (*t, *k), amt: Amt::Same, proof: Pf::Of(*t, *k) });
        }
        for index in 0..max_index {
            for of in &leaves {
                for amt in amts {
                    for proof in &proofs {
                        let op = Op::Claim { index, of: *of, amt: *amt, proof: *proof };
                        if !v.contains(&op) {
                            v.push(op);
                        }
                    }
                }
            }
        }
        if !m.jumped {
            v.push(Op::Advance(JUMP));
        }
        v.push(Op::IdleProbe);
        v
    }

    fn atomic_on_refusal(&self, op: &Op) -> bool {
        !matches!(op, Op::Advance(_))
    }

    fn kind(&self, op: &Op) -> String {
        match op {
            Op::SetRoot(_) => "set_root".into(),
            Op::Advance(_) => "advance".into(),
            Op::IdleProbe => "idle-probe".into(),
            Op::Claim { index, of, amt, proof } => {
                // classification by shape only (the verdict is the reference recomputation's)
                let nat = leaf_specs(self.fl.positional())[of.0][of.1].0;
                if *amt != Amt::Same {
                    "claim.wrong-amount".into()
                } else if *index != nat {
                    "claim.wrong-index".into()
                } else if *proof != Pf::Of(of.0, of.1) {
                    "claim.other-proof".into()
                } else {
                    "claim.own-proof".into()
                }
            }
        }
    }

    fn apply(&self, i: &mut Inst, op: &Op) {
        self.exec(i, op);
    }

    fn step(&self, i: &mut Inst, m: &mut Model, op: &Op, cx: &mut StepCtx<Self>) -> Result<bool, Violation> {
        // (the pre-state needs no fresh observation: every state enters the frontier only after
        // its complete observation was compared with the model, and the engine's differential
        // check compares the model digests of merged histories)
        if matches!(op, Op::IdleProbe) {
            let mut copy = cx.rebuild();
            self.idle_probe(&mut copy, m, cx)?;
            return Ok(false);
        }
        let ok = self.exec(i, op);
        match op {
            Op::IdleProbe => unreachable!(),
            Op::Advance(_) => m.jumped = true,
            Op::SetRoot(t) => {
                if ok {
                    m.root = Some(*t);
                    let v = view(&i.e, &i.c, "get_root", SVec::new(&i.e)).map_err(|x| Violation::new("getter", format!("get_root: {x:?}")))?;
                    let got = BytesN::<32>::try_from_val(&i.e, &v).map_err(|_| Violation::new("getter", "get_root: not BytesN<32>".into()))?;
                    ensure!(got.to_array() == i.trees[*t].b.root, "root", "get_root after set_root(T{}) returns another value", t);
                }
            }
            Op::Claim { .. } => {
                let (index, r, amount, proof) = self.resolve(i, op);
                let hk = self.fl.hk();
                let leaf = hx(hk, &[&leaf_xdr(index, &i.recv[r], amount)]);
                let valid = match m.root {
                    None => false,
                    Some(t) => ref_verify(hk, self.fl.positional(), &Input { leaf, proof: proof.clone(), root: i.trees[t].b.root, index }),
                };
                let ix = index as usize;
                let already = m.obs.claimed[ix];
                let funded = i.token.is_none() || (amount >= 0 && m.obs.bal[NR] >= amount);
                if ok {
                    ensure!(m.root.is_some(), "claim-needs-root", "claim succeeded although no root was ever set");
                    ensure!(
                        valid,
                        "claim-only-with-valid-proof",
                        "claim(index {}, receiver R{}, amount {}, proof of {} elements) succeeded, but folding this proof over the leaf hash does not give the current root T{}",
                        index,
                        r,
                        amount,
                        proof.len(),
                        m.root.unwrap()
                    );
                    ensure!(!already, "second-claim-refused", "claim for index {} succeeded although the index had been claimed before", index);
                    m.obs.claimed[ix] = true;
                    if i.token.is_some() {
                        m.obs.bal[r] += amount;
                        m.obs.bal[NR] -= amount;
                    }
                    cx.stats.count("claims accepted", 1);
                } else {
                    let reason = if m.root.is_none() {
                        "refused: root not set"
                    } else if already && valid {
                        "refused: valid proof, index already claimed"
                    } else if already {
                        "refused: invalid proof, index already claimed"
                    } else if !valid {
                        "refused: invalid proof"
                    } else if !funded {
                        "refused: valid proof, distributor cannot pay"
                    } else {
                        ""
                    };
                    ensure!(
                        !reason.is_empty(),
                        "honest-claim-accepted",
                        "claim(index {}, receiver R{}, amount {}) with a valid proof against the current root T{} for an unclaimed index was refused",
                        index,
                        r,
                        amount,
                        m.root.unwrap_or(9)
                    );
                    cx.stats.count(reason, 1);
                }
            }
        }
        let post = self.observe(i)?;
        cx.stats.count("getter-comparisons", NI as u64 + if i.token.is_some() { NR as u64 + 1 } else { 0 });
        if matches!(op, Op::Advance(_)) {
            ensure!(post == m.obs, "claimed-never-reverts", "after {:?}: contract shows {:?}, before it was {:?}", op, post, m.obs);
        } else if ok {
            // no index outside the trees can ever have been claimed: whatever encoding the flags
            // use, an accepted claim must not make any OTHER index read as claimed
            for j in FAR_INDICES {
                let v = view(&i.e, &i.c, "is_claimed", (j,).into_val(&i.e)).map_err(|x| Violation::new("getter", format!("is_claimed({j}): {x:?}")))?;
                let c = bool::try_from_val(&i.e, &v).map_err(|_| Violation::new("getter", "is_claimed: not a bool".into()))?;
                ensure!(!c, "claimed-exactly-this-index-paid-exactly-once", "after accepted {:?}: is_claimed({}) = true although no claim for index {} was ever made", op, j, j);
            }
            cx.stats.count("far-index-probes", FAR_INDICES.len() as u64);
            ensure!(
                post == m.obs,
                "claimed-exactly-this-index-paid-exactly-once",
                "after accepted {:?}: contract shows {:?}, expected {:?}",
                op,
                post,
                m.obs
            );
        } else {
            ensure!(post == m.obs, "failed-claim-marks-nothing", "after refused {:?}: contract shows {:?}, before it was {:?}", op, post, m.obs);
        }
        Ok(ok)
    }

    fn key(&self, i: &Inst) -> [u8; 32] {
        // with the ledger: the jump must lead to states of its own
        envx::storage_digest(&i.e, true)
    }

    fn model_digest(&self, m: &Model) -> u64 {
        vh::engine::dig(&(m.root, &m.obs, m.jumped))
    }
}

fn main() {
    main_with(
        "C17",
        "model_checking",
        "(1) stateless exhaustive enumeration: all trees of N=1..=9 (quick) / 1..=33 (thorough) distinct leaves built in the harness with sha2/sha3 in four shapes (sorted pairs with odd node carried up; sorted pairs in the OpenZeppelin merkle-tree array layout; positional with filler padding; positional with duplicate-last padding), x {SHA-256, Keccak-256} library hashers; for every leaf: honest proof -> Verifier::verify / verify_with_index must return true; every single-element corruption (leaf -> every other leaf / next leaf / foreign value / every inner node / each of 256 bit flips; every proof element -> each of 256 bit flips / every other node of the tree / foreign; every adjacent swap; every prefix truncation and single removal; extension at front/back by every node; every other index < 2^len, indices >= 2^len; proofs of 32/33 elements; root -> root of every other tree / each of 256 bit flips / every other node) must return false or fail unless the exact reference fold reproduces the root (then skipped and counted). (2) level-BFS over histories of claim(index 0..=3[4], receiver+amount of any leaf of three trees, amount same/+1[/0], proof of any leaf of any tree / empty / truncated / extended) and set_root(T0|T1|T2) and one ledger jump of 600000 per history on the real fungible-merkle-airdrop example (4 seeds: 3 roots, 1 under-funded) and 4 wrapper contracts over MerkleDistributor {sorted,indexed} x {sha256,keccak256}; after every step is_claimed(0..=4) and all token balances are compared with the model; idle probe in every expanded state: on a rebuilt copy 600000 further ledgers pass without any call, is_claimed / balances / get_root (wrappers) are compared again and one honest claim of a still unclaimed leaf of the current root is judged by the same oracles; non-trivial = distinct storage state reached through >=1 accepted call, plus distinct verifier inputs of (1)",
        |tier: Tier, r: &mut Runner| {
            let th = tier == Tier::Thorough;
            part1(tier, r);
            let b = Bounds::new(tier.pick(6, 8), tier.pick(30, 400));
            for fl in [Fl::Example, Fl::SortedSha, Fl::SortedKeccak, Fl::IndexedSha, Fl::IndexedKeccak] {
                r.world(&Dist { fl, thorough: th }, &b);
            }
            if let Some(rep) = r.report() {
                rep.require(
                    &["claim.own-proof", "set_root", "advance"],
                    &["claim.own-proof", "claim.other-proof", "claim.wrong-index", "claim.wrong-amount"],
                );
                rep.require_counter(&[
                    "claims accepted",
                    "refused: root not set",
                    "refused: valid proof, index already claimed",
                    "refused: invalid proof, index already claimed",
                    "refused: invalid proof",
                    "refused: valid proof, distributor cannot pay",
                ]);
                rep.require_counter(&["idle-probes", "getter-comparisons-after-long-idle", "honest claims after long idle -> ok"]);
            }
        },
    );
}
