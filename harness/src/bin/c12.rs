//! C12 — fixed-point mul-div is exact for every input and fails only when it must.
//!
//! Stateless, exhaustive *input* enumeration (evidence level "exploration"): every enumerated
//! input is handed to the real library functions of `/repo/packages/contract-utils/src/math`
//! (`mul_div_i128`, `checked_mul_div_i128`, `mul_div_i256`, `checked_mul_div_i256`, `Wad::{checked_mul,
//! checked_div, from_ratio, pow, checked_pow}`) inside a native soroban `Env`, and the outcome is
//! compared with exact big-integer arithmetic (`num_bigint::BigInt`). The reference is written
//! from the mathematical definition of floor / ceiling / truncation (and re-validated against that
//! definition by multiplication on every use), never from the library's code.
//!
//! Oracles (all follow the "exactly when" direction of the property):
//!   exact-quotient            a returned value differs from the exactly rounded quotient
//!   fails-only-when-it-must   an error although d != 0 and the rounded quotient fits
//!   must-fail                 a value although d == 0 or the rounded quotient does not fit
//!   checked-reports-none      an i128 checked variant panicked instead of returning None
//!   pow-fails-iff-checked-none  `Wad::pow` panics  <=/=>  `Wad::checked_pow` is None
//! The I256 clause of the property only speaks about products that fit in 256 bits, so triples
//! whose product does not fit are not evaluated; for I256 any error form (None or panic) is
//! accepted where no exact result exists (d == 0, MIN/-1).

use num_bigint::{BigInt, Sign};
use rayon::prelude::*;
use serde_json::json;
use soroban_sdk::{Bytes, Env, I256};
use std::collections::BTreeMap;
use std::panic::{catch_unwind, AssertUnwindSafe};
use std::time::Instant;
use stellar_contract_utils::math::wad::Wad;
use stellar_contract_utils::math::{checked_mul_div_i128, checked_mul_div_i256, mul_div_i128, mul_div_i256, Rounding};
use vh::cli::main_with;
use vh::envx::mk_env;
use vh::report::Tier;

const WORLD: &str = "c12";
const WAD: i128 = 1_000_000_000_000_000_000;

// ------------------------------------------------------------------------------------------
// roundings, operation kinds, counters
// ------------------------------------------------------------------------------------------

#[derive(Clone, Copy, PartialEq, Eq, Debug)]
enum Rd {
    Floor,
    Ceil,
    Trunc,
}
const RDS: [Rd; 3] = [Rd::Floor, Rd::Ceil, Rd::Trunc];
impl Rd {
    fn lib(self) -> Rounding {
        match self {
            Rd::Floor => Rounding::Floor,
            Rd::Ceil => Rounding::Ceil,
            Rd::Trunc => Rounding::Truncate,
        }
    }
    fn idx(self) -> usize {
        self as usize
    }
}

/// operation kinds of the outcome histogram: (ok = a value was returned, refused = error)
const KINDS: [&str; 17] = [
    "i128.floor.checked",
    "i128.ceil.checked",
    "i128.trunc.checked",
    "i128.floor.panicking",
    "i128.ceil.panicking",
    "i128.trunc.panicking",
    "i256.floor.checked",
    "i256.ceil.checked",
    "i256.trunc.checked",
    "i256.floor.panicking",
    "i256.ceil.panicking",
    "i256.trunc.panicking",
    "wad.checked_mul",
    "wad.checked_div",
    "wad.from_ratio",
    "wad.checked_pow",
    "wad.pow",
];
const K_I128_CHECKED: usize = 0;
const K_I128_PANICKING: usize = 3;
const K_I256_CHECKED: usize = 6;
const K_I256_PANICKING: usize = 9;
const K_WAD_MUL: usize = 12;
const K_WAD_DIV: usize = 13;
const K_WAD_RATIO: usize = 14;
const K_WAD_CPOW: usize = 15;
const K_WAD_POW: usize = 16;

/// classification counters (what kind of inputs were really exercised)
const COUNTERS: [&str; 16] = [
    "i128: product overflows i128, quotient fits (phantom overflow), inputs",
    "i128: product overflows i128, quotient does not fit, inputs",
    "i128: d == 0, inputs",
    "i128: exact quotient == 2^127 (MIN/-1 corner and relatives), inputs",
    "i128: inexact negative quotient, inputs",
    "i128: inexact positive quotient, inputs",
    "i128: rounding direction decides whether the result fits, inputs",
    "i128: a rounded result equals i128::MIN or i128::MAX, inputs",
    "i128: panicking and checked variant compared on the same input, calls",
    "i256: inexact negative quotient, inputs",
    "i256: inexact positive quotient, inputs",
    "i256: d == 0, inputs",
    "i256: quotient does not fit (MIN/-1), inputs",
    "i256: lattice triples skipped because the product does not fit in 256 bits",
    "i256: checked variant panicked where no exact result exists (accepted), calls",
    "wad: product / scaled numerator overflows i128 but the result fits, calls",
];
const C_PHANTOM_OK: usize = 0;
const C_PHANTOM_ERR: usize = 1;
const C_DIV0: usize = 2;
const C_2P127: usize = 3;
const C_INEXACT_NEG: usize = 4;
const C_INEXACT_POS: usize = 5;
const C_ROUND_DECIDES: usize = 6;
const C_AT_BOUND: usize = 7;
const C_AGREE: usize = 8;
const C256_INEXACT_NEG: usize = 9;
const C256_INEXACT_POS: usize = 10;
const C256_DIV0: usize = 11;
const C256_NOFIT: usize = 12;
const C256_SKIPPED: usize = 13;
const C256_CHECKED_PANIC: usize = 14;
const CWAD_PHANTOM: usize = 15;

#[derive(Clone, Debug)]
struct Finding {
    oracle: &'static str,
    kind: &'static str,
    case: String,
    detail: String,
}

#[derive(Clone, Default)]
struct Tally {
    ops: [[u64; 2]; 17],
    counters: [u64; 16],
    evals: u64,
    inputs: u64,
    nontrivial: u64,
    /// first finding per signature, in enumeration order
    findings: BTreeMap<String, Finding>,
}

impl Tally {
    fn op(&mut self, kind: usize, ok: bool) {
        self.evals += 1;
        self.ops[kind][if ok { 0 } else { 1 }] += 1;
    }
    fn find(&mut self, oracle: &'static str, kind: usize, case: String, detail: String) {
        let sig = format!("{WORLD}|{oracle}|{}", KINDS[kind]);
        self.findings.entry(sig).or_insert(Finding { oracle, kind: KINDS[kind], case, detail });
    }
    /// `self` precedes `o` in enumeration order
    fn merge(mut self, o: Tally) -> Tally {
        for k in 0..self.ops.len() {
            self.ops[k][0] += o.ops[k][0];
            self.ops[k][1] += o.ops[k][1];
        }
        for k in 0..self.counters.len() {
            self.counters[k] += o.counters[k];
        }
        self.evals += o.evals;
        self.inputs += o.inputs;
        self.nontrivial += o.nontrivial;
        for (k, v) in o.findings {
            self.findings.entry(k).or_insert(v);
        }
        self
    }
}

// ------------------------------------------------------------------------------------------
// one Env per worker, recycled (host objects are never freed) and replaced after a caught panic
// ------------------------------------------------------------------------------------------

struct Slot {
    e: Env,
    uses: u32,
}
impl Slot {
    fn new() -> Self {
        Slot { e: mk_env(100), uses: 0 }
    }
    fn env(&mut self) -> &Env {
        self.uses += 1;
        if self.uses > 3000 {
            self.renew();
        }
        &self.e
    }
    fn renew(&mut self) {
        self.e = mk_env(100);
        self.uses = 0;
    }
}

/// outcome of one library call
#[derive(Clone, Debug, PartialEq, Eq)]
enum Out<T> {
    Val(T),
    None,
    Panic,
}
impl<T: std::fmt::Display> Out<T> {
    fn show(&self) -> String {
        match self {
            Out::Val(v) => format!("{v}"),
            Out::None => "None".into(),
            Out::Panic => "panic".into(),
        }
    }
}

fn guarded<T>(slot: &mut Slot, f: impl FnOnce(&Env) -> Option<T>) -> Out<T> {
    let r = {
        let e = slot.env();
        catch_unwind(AssertUnwindSafe(|| f(e)))
    };
    match r {
        Ok(Some(v)) => Out::Val(v),
        Ok(None) => Out::None,
        Err(_) => {
            slot.renew();
            Out::Panic
        }
    }
}

// ------------------------------------------------------------------------------------------
// reference: exact rounded quotients in big integers
// ------------------------------------------------------------------------------------------

struct Quot {
    r: [BigInt; 3], // floor, ceil, trunc
    exact: bool,
    negative: bool,
}

fn is_zero(b: &BigInt) -> bool {
    b.sign() == Sign::NoSign
}

/// floor, ceiling and truncation of the rational n/d (None iff d == 0).
fn quot(n: &BigInt, d: &BigInt) -> Option<Quot> {
    if is_zero(d) {
        return None;
    }
    let one = BigInt::from(1);
    let t = n / d;
    let rem = n - &t * d;
    let exact = is_zero(&rem);
    // n/d is negative iff the signs differ (n != 0 here whenever it matters)
    let negative = !is_zero(n) && (n.sign() != d.sign());
    let (floor, ceil) = if exact {
        (t.clone(), t.clone())
    } else if negative {
        (&t - &one, t.clone())
    } else {
        (t.clone(), &t + &one)
    };
    let trunc = if negative { ceil.clone() } else { floor.clone() };
    // Validate against the definitions (independent of how the values were obtained):
    //   floor = the integer f with f <= n/d < f+1 ; ceil = the integer c with c-1 < n/d <= c ;
    //   trunc = the one of the two that is not farther from zero. For d < 0 the inequalities flip.
    let (fd, f1d, cd, c1d) = (&floor * d, (&floor + &one) * d, &ceil * d, (&ceil - &one) * d);
    let ok = if d.sign() == Sign::Plus {
        fd <= *n && *n < f1d && c1d < *n && *n <= cd
    } else {
        fd >= *n && *n > f1d && c1d > *n && *n >= cd
    };
    assert!(ok, "reference self-check failed for {n}/{d}");
    assert!(exact == (floor == ceil) && (exact || &floor + &one == ceil));
    assert!(trunc == if negative { ceil.clone() } else { floor.clone() });
    Some(Quot { r: [floor, ceil, trunc], exact, negative })
}

fn fit128(b: &BigInt) -> Option<i128> {
    i128::try_from(b).ok()
}
fn pow2(k: u32) -> BigInt {
    BigInt::from(1) << k
}
fn fit256(b: &BigInt) -> bool {
    *b >= -pow2(255) && *b < pow2(255)
}

// ------------------------------------------------------------------------------------------
// i128
// ------------------------------------------------------------------------------------------

fn case_i128(x: i128, y: i128, d: i128) -> String {
    format!("i128 x={x} y={y} d={d}")
}

/// Evaluate one (x, y, d) for all roundings; `n` = x*y exactly.
fn eval_i128(slot: &mut Slot, x: i128, y: i128, d: i128, n: &BigInt, panicking: bool, t: &mut Tally, verbose: bool) {
    let q = quot(n, &BigInt::from(d));
    let wants: [Option<i128>; 3] = match &q {
        None => [None, None, None],
        Some(q) => [fit128(&q.r[0]), fit128(&q.r[1]), fit128(&q.r[2])],
    };
    // classification (from the reference only)
    t.inputs += 1;
    let mul_overflows = fit128(n).is_none();
    let any_fit = wants.iter().any(|w| w.is_some());
    let all_fit = wants.iter().all(|w| w.is_some());
    let mut nontrivial = mul_overflows || !all_fit;
    match &q {
        None => t.counters[C_DIV0] += 1,
        Some(q) => {
            if mul_overflows {
                t.counters[if any_fit { C_PHANTOM_OK } else { C_PHANTOM_ERR }] += 1;
            }
            if q.exact && q.r[0] == pow2(127) {
                t.counters[C_2P127] += 1;
            }
            if !q.exact {
                nontrivial = true;
                t.counters[if q.negative { C_INEXACT_NEG } else { C_INEXACT_POS }] += 1;
            }
            if any_fit && !all_fit {
                t.counters[C_ROUND_DECIDES] += 1;
            }
            if wants.iter().any(|w| *w == Some(i128::MIN) || *w == Some(i128::MAX)) {
                t.counters[C_AT_BOUND] += 1;
            }
        }
    }
    if nontrivial {
        t.nontrivial += 1;
    }

    for rd in RDS {
        let want = wants[rd.idx()];
        let want_s = || match (&q, want) {
            (None, _) => "error (d == 0)".to_string(),
            (Some(q), None) => format!("error (exact {:?} quotient {} does not fit in i128)", rd, q.r[rd.idx()]),
            (Some(_), Some(w)) => format!("{w}"),
        };
        // checked variant
        let kind = K_I128_CHECKED + rd.idx();
        let got = guarded(slot, |e| checked_mul_div_i128(e, x, y, d, rd.lib()));
        t.op(kind, matches!(got, Out::Val(_)));
        let verdict = judge_i128(want, &got, true);
        if verbose {
            println!("  {:<22} expected {}  got {}{}", KINDS[kind], want_s(), got.show(), verdict.map(|o| format!("   VIOLATED oracle={o}")).unwrap_or_default());
        }
        if let Some(o) = verdict {
            t.find(o, kind, case_i128(x, y, d), format!("checked_mul_div_i128(x, y, d, {rd:?}): expected {}, got {}", want_s(), got.show()));
        }
        // panicking variant
        if panicking {
            let kind = K_I128_PANICKING + rd.idx();
            let gotp = guarded(slot, |e| Some(mul_div_i128(e, x, y, d, rd.lib())));
            t.op(kind, matches!(gotp, Out::Val(_)));
            t.counters[C_AGREE] += 1;
            let verdict = judge_i128(want, &gotp, false);
            if verbose {
                println!("  {:<22} expected {}  got {}{}", KINDS[kind], want_s(), gotp.show(), verdict.map(|o| format!("   VIOLATED oracle={o}")).unwrap_or_default());
            }
            if let Some(o) = verdict {
                t.find(o, kind, case_i128(x, y, d), format!("mul_div_i128(x, y, d, {rd:?}): expected {}, got {}", want_s(), gotp.show()));
            }
            // agreement of the two variants (follows from the two comparisons above; reported
            // separately so that a disagreement is named as such)
            let agree = match (&got, &gotp) {
                (Out::Val(a), Out::Val(b)) => a == b,
                (Out::None, Out::Panic) => true,
                _ => false,
            };
            if !agree {
                t.find("variants-agree", kind, case_i128(x, y, d), format!("{rd:?}: checked variant gave {}, panicking variant gave {}", got.show(), gotp.show()));
            }
        }
    }
}

fn judge_i128(want: Option<i128>, got: &Out<i128>, checked: bool) -> Option<&'static str> {
    match (want, got) {
        (Some(w), Out::Val(g)) => (w != *g).then_some("exact-quotient"),
        (Some(_), _) => Some("fails-only-when-it-must"),
        (None, Out::Val(_)) => Some("must-fail"),
        (None, Out::Panic) if checked => Some("checked-reports-none"),
        (None, _) => None,
    }
}

// ------------------------------------------------------------------------------------------
// I256
// ------------------------------------------------------------------------------------------

fn to_i256(e: &Env, b: &BigInt) -> I256 {
    let sb = b.to_signed_bytes_be();
    assert!(sb.len() <= 32, "value does not fit in 256 bits");
    let mut bytes = [if b.sign() == Sign::Minus { 0xffu8 } else { 0u8 }; 32];
    bytes[32 - sb.len()..].copy_from_slice(&sb);
    I256::from_be_bytes(e, &Bytes::from_array(e, &bytes))
}
fn from_i256(v: &I256) -> BigInt {
    let b = v.to_be_bytes();
    let mut a = [0u8; 32];
    b.copy_into_slice(&mut a);
    BigInt::from_signed_bytes_be(&a)
}

fn case_i256(x: &BigInt, y: &BigInt, d: &BigInt) -> String {
    format!("i256 x={x} y={y} d={d}")
}

/// Evaluate one (x, y, d) whose product fits in 256 bits.
fn eval_i256(slot: &mut Slot, x: &BigInt, y: &BigInt, d: &BigInt, n: &BigInt, t: &mut Tally, verbose: bool) {
    debug_assert!(fit256(n));
    let q = quot(n, d);
    t.inputs += 1;
    let mut nontrivial = false;
    match &q {
        None => {
            t.counters[C256_DIV0] += 1;
            nontrivial = true;
        }
        Some(q) => {
            if !q.exact {
                nontrivial = true;
                t.counters[if q.negative { C256_INEXACT_NEG } else { C256_INEXACT_POS }] += 1;
            }
            if !fit256(&q.r[0]) {
                nontrivial = true;
                t.counters[C256_NOFIT] += 1;
            }
        }
    }
    if nontrivial {
        t.nontrivial += 1;
    }
    for rd in RDS {
        let want: Option<&BigInt> = q.as_ref().map(|q| &q.r[rd.idx()]).filter(|v| fit256(v));
        let want_s = || match (&q, want) {
            (None, _) => "error (d == 0)".to_string(),
            (Some(q), None) => format!("error (exact quotient {} does not fit in 256 bits)", q.r[rd.idx()]),
            (Some(_), Some(w)) => format!("{w}"),
        };
        for checked in [true, false] {
            let kind = if checked { K_I256_CHECKED } else { K_I256_PANICKING } + rd.idx();
            let got: Out<BigInt> = guarded(slot, |e| {
                let (xi, yi, di) = (to_i256(e, x), to_i256(e, y), to_i256(e, d));
                if checked {
                    checked_mul_div_i256(e, xi, yi, di, rd.lib()).map(|v| from_i256(&v))
                } else {
                    Some(from_i256(&mul_div_i256(e, xi, yi, di, rd.lib())))
                }
            });
            t.op(kind, matches!(got, Out::Val(_)));
            // exact whenever the product fits; where no exact result exists a value is wrong,
            // any error form is accepted
            let verdict = match (want, &got) {
                (Some(w), Out::Val(g)) => (w != g).then_some("exact-quotient"),
                (Some(_), _) => Some("fails-only-when-it-must"),
                (None, Out::Val(_)) => Some("must-fail"),
                (None, Out::Panic) if checked => {
                    t.counters[C256_CHECKED_PANIC] += 1;
                    None
                }
                (None, _) => None,
            };
            if verbose {
                println!("  {:<22} expected {}  got {}{}", KINDS[kind], want_s(), got.show(), verdict.map(|o| format!("   VIOLATED oracle={o}")).unwrap_or_default());
            }
            if let Some(o) = verdict {
                let f = if checked { "checked_mul_div_i256" } else { "mul_div_i256" };
                t.find(o, kind, case_i256(x, y, d), format!("{f}(x, y, d, {rd:?}): expected {}, got {}", want_s(), got.show()));
            }
        }
    }
}

// ------------------------------------------------------------------------------------------
// Wad
// ------------------------------------------------------------------------------------------

#[derive(Clone, Copy, Debug, PartialEq, Eq)]
enum WadOp {
    Mul,
    Div,
    Ratio,
}

fn case_wad(op: WadOp, a: i128, b: i128) -> String {
    match op {
        WadOp::Mul => format!("wad.mul a={a} b={b}"),
        WadOp::Div => format!("wad.div a={a} b={b}"),
        WadOp::Ratio => format!("wad.ratio a={a} b={b}"),
    }
}

/// checked_mul(a, b) = trunc(a*b / 10^18); checked_div(a, b) = trunc(a*10^18 / b);
/// from_ratio(a, b) = trunc(a*10^18 / b); "no value" (None / panic for from_ratio) exactly when
/// the divisor is zero or the truncated result does not fit.
fn eval_wad(slot: &mut Slot, op: WadOp, a: i128, b: i128, t: &mut Tally, verbose: bool) {
    let (n, d) = match op {
        WadOp::Mul => (BigInt::from(a) * BigInt::from(b), BigInt::from(WAD)),
        WadOp::Div | WadOp::Ratio => (BigInt::from(a) * BigInt::from(WAD), BigInt::from(b)),
    };
    let q = quot(&n, &d);
    let want: Option<i128> = q.as_ref().and_then(|q| fit128(&q.r[Rd::Trunc.idx()]));
    t.inputs += 1;
    if fit128(&n).is_none() || want.is_none() || q.as_ref().map(|q| !q.exact).unwrap_or(true) {
        t.nontrivial += 1;
    }
    if fit128(&n).is_none() && want.is_some() {
        t.counters[CWAD_PHANTOM] += 1;
    }
    let (kind, got, name) = match op {
        WadOp::Mul => (K_WAD_MUL, guarded(slot, |e| Wad::from_raw(a).checked_mul(e, Wad::from_raw(b)).map(|w| w.raw())), "Wad(a).checked_mul(Wad(b))"),
        WadOp::Div => (K_WAD_DIV, guarded(slot, |e| Wad::from_raw(a).checked_div(e, Wad::from_raw(b)).map(|w| w.raw())), "Wad(a).checked_div(Wad(b))"),
        WadOp::Ratio => (K_WAD_RATIO, guarded(slot, |e| Some(Wad::from_ratio(e, a, b).raw())), "Wad::from_ratio(a, b)"),
    };
    t.op(kind, matches!(got, Out::Val(_)));
    let verdict = judge_i128(want, &got, op != WadOp::Ratio);
    let want_s = match (&q, want) {
        (None, _) => "no value (divisor == 0)".to_string(),
        (Some(q), None) => format!("no value (exact truncated result {} does not fit in i128)", q.r[2]),
        (Some(_), Some(w)) => format!("{w}"),
    };
    if verbose {
        println!("  {:<22} expected {}  got {}{}", KINDS[kind], want_s, got.show(), verdict.map(|o| format!("   VIOLATED oracle={o}")).unwrap_or_default());
    }
    if let Some(o) = verdict {
        t.find(o, kind, case_wad(op, a, b), format!("{name}: expected raw {want_s}, got {}", got.show()));
    }
}

/// `pow` fails exactly when `checked_pow` returns no value (nothing else is asserted).
fn eval_wad_pow(slot: &mut Slot, base: i128, exp: u32, t: &mut Tally, verbose: bool) {
    t.inputs += 1;
    let c = guarded(slot, |e| Wad::from_raw(base).checked_pow(e, exp).map(|w| w.raw()));
    let p = guarded(slot, |e| Some(Wad::from_raw(base).pow(e, exp).raw()));
    t.op(K_WAD_CPOW, matches!(c, Out::Val(_)));
    t.op(K_WAD_POW, matches!(p, Out::Val(_)));
    let c_none = !matches!(c, Out::Val(_));
    let p_fails = !matches!(p, Out::Val(_));
    if c_none {
        t.nontrivial += 1;
    }
    let bad = c_none != p_fails;
    if verbose {
        println!("  wad.checked_pow -> {}   wad.pow -> {}{}", c.show(), p.show(), if bad { "   VIOLATED oracle=pow-fails-iff-checked-none" } else { "" });
    }
    if bad {
        t.find(
            "pow-fails-iff-checked-none",
            K_WAD_POW,
            format!("wad.pow b={base} e={exp}"),
            format!("Wad({base}).checked_pow({exp}) gave {}, Wad({base}).pow({exp}) gave {}", c.show(), p.show()),
        );
    }
}

// ------------------------------------------------------------------------------------------
// lattices
// ------------------------------------------------------------------------------------------

const PATTERN: u128 = 0x9E37_79B9_7F4A_7C15_F39C_C060_5CED_C834;
const PATTERN_HI: u128 = 0x6A09_E667_F3BC_C908_B2FB_1366_EA95_7D3E;

/// one fixed bit pattern of exactly `n` bits (1 <= n <= 255)
fn pattern(n: u32) -> BigInt {
    let full = (BigInt::from(PATTERN_HI) << 128) + BigInt::from(PATTERN);
    let top = pow2(n - 1);
    let low = &full % &top; // full >= 0
    top + low
}

/// The i128 boundary lattice: (value, level). level 0 = core, 1 = most structured values + every
/// 16th bit length, 2 = every even bit length, 3 = every bit length. Sorted simplest first.
fn lattice128() -> Vec<(i128, u8)> {
    let m: std::cell::RefCell<BTreeMap<i128, u8>> = Default::default();
    let put = |v: i128, l: u8| {
        let mut m = m.borrow_mut();
        let e = m.entry(v).or_insert(l);
        *e = (*e).min(l);
    };
    let pm = |v: i128, l: u8| {
        put(v, l);
        put(-v, l);
    };
    pm(0, 0);
    for (v, l) in [(1, 0), (2, 0), (3, 0), (7, 0), (5, 2), (10, 2)] {
        pm(v, l);
    }
    for (k, l) in [(1u32, 2u8), (9, 0), (17, 2), (18, 0), (19, 1), (36, 2), (37, 1), (38, 0)] {
        pm(10i128.pow(k), l);
    }
    // Wad-specific neighbours: 1.0 +- 1 ulp, 0.5, 1.5, MAX/10^18 (from_integer boundary)
    for v in [WAD - 1, WAD + 1, WAD / 2, WAD / 2 * 3, 2 * WAD, i128::MAX / WAD, i128::MAX / WAD + 1] {
        pm(v, 1);
    }
    let sq_wad = (BigInt::from(i128::MAX) * BigInt::from(WAD)).sqrt(); // a*a/10^18 <= MAX boundary
    let sq_wad = fit128(&sq_wad).unwrap();
    pm(sq_wad, 1);
    pm(sq_wad + 1, 1);
    for k in [31u32, 32, 62, 63, 64, 65, 95, 96, 126] {
        let core = matches!(k, 63 | 64 | 126);
        let rest = if matches!(k, 31 | 95) { 2 } else { 1 };
        let p = 1i128 << k;
        pm(p - 1, if core && k == 64 { 0 } else { rest });
        pm(p, if core { 0 } else { rest });
        pm(p + 1, if core && k == 64 { 0 } else { rest });
    }
    put(i128::MIN, 0);
    put(i128::MIN + 1, 0);
    put(i128::MIN + 2, 1);
    put(i128::MAX, 0);
    put(i128::MAX - 1, 0);
    put(i128::MAX - 2, 1);
    let sq = fit128(&BigInt::from(i128::MAX).sqrt()).unwrap();
    pm(sq, 0);
    pm(sq + 1, 0);
    for n in 1u32..=127 {
        let v = fit128(&pattern(n)).unwrap();
        let l = if matches!(n, 20 | 50 | 80 | 100 | 120) {
            0
        } else if n % 16 == 0 {
            1
        } else if n % 2 == 0 {
            2
        } else {
            3
        };
        pm(v, l);
    }
    let mut v: Vec<(i128, u8)> = m.into_inner().into_iter().collect();
    v.sort_by_key(|(x, _)| (x.unsigned_abs(), *x < 0));
    v
}

/// The lattice lifted to 256 bits: (value, level).
fn lattice256() -> Vec<(BigInt, u8)> {
    let m: std::cell::RefCell<BTreeMap<BigInt, u8>> = Default::default();
    let put = |v: BigInt, l: u8| {
        let mut m = m.borrow_mut();
        let e = m.entry(v).or_insert(l);
        *e = (*e).min(l);
    };
    let pm = |v: BigInt, l: u8| {
        put(-&v, l);
        put(v, l);
    };
    pm(BigInt::from(0), 0);
    for v in [1, 2, 3, 7] {
        pm(BigInt::from(v), 0);
    }
    for (k, l) in [(18u32, 0u8), (38, 1), (39, 1), (76, 0)] {
        pm(BigInt::from(10).pow(k), l);
    }
    for k in [63u32, 64, 126, 127, 128, 129, 190, 191, 192, 253, 254] {
        let core = matches!(k, 127 | 128 | 254);
        pm(pow2(k) - 1, if core { 0 } else { 1 });
        pm(pow2(k), if core { 0 } else { 1 });
        pm(pow2(k) + 1, if k == 128 { 0 } else { 1 });
    }
    let (min, max): (BigInt, BigInt) = (-pow2(255), pow2(255) - BigInt::from(1));
    put(min.clone(), 0);
    put(&min + 1, 0);
    put(&min + 2, 1);
    put(max.clone(), 0);
    put(&max - 1, 0);
    put(&max - 2, 1);
    let sq = max.sqrt();
    pm(sq.clone(), 0);
    pm(sq + 1, 0);
    for n in 1u32..=255 {
        let l = if matches!(n, 40 | 100 | 150 | 200 | 240) {
            0
        } else if n % 16 == 0 {
            1
        } else if n % 4 == 0 {
            2
        } else {
            3
        };
        pm(pattern(n), l);
    }
    let mut v: Vec<(BigInt, u8)> = m.into_inner().into_iter().collect();
    v.sort_by_key(|(x, _)| (x.magnitude().clone(), x.sign() == Sign::Minus));
    v
}

// ------------------------------------------------------------------------------------------
// enumeration families
// ------------------------------------------------------------------------------------------

/// All (x, y) in `pairs` x all d produced by `ds(x, y, n)`; (d, panicking-too).
fn run_i128<F>(pairs: &[(i128, i128)], ds: F) -> Tally
where
    F: Fn(i128, i128, &BigInt, &mut Vec<(i128, bool)>) + Sync,
{
    pairs
        .par_iter()
        .map_init(
            || (Slot::new(), Vec::<(i128, bool)>::new()),
            |(slot, buf), &(x, y)| {
                let mut t = Tally::default();
                let n = BigInt::from(x) * BigInt::from(y);
                buf.clear();
                ds(x, y, &n, buf);
                for &(d, panicking) in buf.iter() {
                    eval_i128(slot, x, y, d, &n, panicking, &mut t, false);
                }
                t
            },
        )
        .reduce(Tally::default, Tally::merge)
}

fn cross(a: &[i128], b: &[i128]) -> Vec<(i128, i128)> {
    let mut v = Vec::with_capacity(a.len() * b.len());
    for &x in a {
        for &y in b {
            v.push((x, y));
        }
    }
    v
}

fn range(b: i128) -> Vec<i128> {
    // simplest first: 0, 1, -1, 2, -2, ...
    let mut v = vec![0];
    for k in 1..=b {
        v.push(k);
        v.push(-k);
    }
    v
}

struct Sizes {
    /// lattice level for the checked variants / for the panicking variants (i128 lattice^3)
    lvl_checked: u8,
    lvl_panicking: u8,
    /// lattice values above `lvl_checked` up to this level are placed in ONE operand position at a
    /// time, the other two operands ranging over the level <= 1 lattice
    lvl_single: u8,
    /// |x|,|y|,|d| <= small: all triples, both variants
    small: i128,
    /// lifted small triples (a*2^63, b*2^65, c*2^120): |a|,|b|,|c| <= lifted
    lifted: i128,
    /// (r, z) pairs: |r|,|z| <= rz
    rz: i128,
    rz_wide: i128,
    lvl256: u8,
    lvl_wad: u8,
    wad_small: i128,
}

fn sizes(tier: Tier) -> Sizes {
    tier.pick(
        Sizes { lvl_checked: 2, lvl_panicking: 0, lvl_single: 2, small: 12, lifted: 8, rz: 300, rz_wide: 100, lvl256: 0, lvl_wad: 1, wad_small: 10 },
        Sizes { lvl_checked: 3, lvl_panicking: 1, lvl_single: 3, small: 40, lifted: 24, rz: 300, rz_wide: 300, lvl256: 2, lvl_wad: 3, wad_small: 30 },
    )
}

const POW_EXPONENTS_EXTRA: [u32; 9] = [63, 64, 127, 128, 255, 256, 65_535, u32::MAX - 1, u32::MAX];

fn timed(name: &str, f: impl FnOnce() -> Tally) -> Tally {
    let t0 = Instant::now();
    let r = f();
    let t = &r;
    println!("family {name:<46} inputs={:<10} calls={:<11} wall={:.1}s", t.inputs, t.evals, t0.elapsed().as_secs_f64());
    r
}

fn enumerate(tier: Tier) -> Tally {
    let sz = sizes(tier);
    let l128 = lattice128();
    let lat = |lvl: u8| -> Vec<i128> { l128.iter().filter(|(_, l)| *l <= lvl).map(|(v, _)| *v).collect() };
    let lc = lat(sz.lvl_checked);
    let lp: std::collections::BTreeSet<i128> = lat(sz.lvl_panicking).into_iter().collect();
    // values used in one operand position at a time against the level <= 1 lattice
    let l1 = lat(1);
    let single: Vec<i128> = l128.iter().filter(|(_, l)| *l > sz.lvl_checked && *l <= sz.lvl_single).map(|(v, _)| *v).collect();
    // later families skip inputs that an earlier family already evaluated (counts are of distinct inputs)
    let lcs: std::collections::BTreeSet<i128> = lc.iter().copied().collect();
    let l1s: std::collections::BTreeSet<i128> = l1.iter().copied().collect();
    let sgs: std::collections::BTreeSet<i128> = single.iter().copied().collect();
    let lall: std::collections::BTreeSet<i128> = l128.iter().map(|(v, _)| *v).collect();
    // (x, y, d) already evaluated by the lattice families F1 / F1b
    let covered = |x: i128, y: i128, d: i128| -> bool {
        if lcs.contains(&x) && lcs.contains(&y) && lcs.contains(&d) {
            return true;
        }
        let s = [x, y, d].iter().filter(|v| sgs.contains(v)).count();
        let o = [x, y, d].iter().filter(|v| l1s.contains(v)).count();
        s == 1 && o == 2
    };
    println!(
        "i128 lattice: {} values in the cube (checked variants), {} values in the cube of the panicking variants, {} values used in one position at a time, {} in total",
        lc.len(),
        lp.len(),
        single.len(),
        l128.len()
    );
    let mut total = Tally::default();

    // F1: lattice^3, all roundings; checked on lc^3, panicking on lp^3
    let pairs = cross(&lc, &lc);
    total = total.merge(timed("i128 lattice^3", || {
        run_i128(&pairs, |x, y, _n, out| {
            let pxy = lp.contains(&x) && lp.contains(&y);
            for &d in &lc {
                out.push((d, pxy && lp.contains(&d)));
            }
        })
    }));

    // F1b: every remaining bit length in one operand position at a time
    if !single.is_empty() {
        let (sx, sy, sd) = (cross(&single, &l1), cross(&l1, &single), cross(&l1, &l1));
        total = total.merge(timed("i128 one operand of every other bit length, x", || run_i128(&sx, |_, _, _, out| out.extend(l1.iter().map(|&d| (d, false))))));
        total = total.merge(timed("i128 one operand of every other bit length, y", || run_i128(&sy, |_, _, _, out| out.extend(l1.iter().map(|&d| (d, false))))));
        total = total.merge(timed("i128 one operand of every other bit length, d", || run_i128(&sd, |_, _, _, out| out.extend(single.iter().map(|&d| (d, false))))));
    }

    // F2: derived divisors: d = trunc(x*y / T) + delta for T = +-2^127 (quotients next to the
    // i128 boundaries), for all lattice pairs
    total = total.merge(timed("i128 lattice^2 x derived d (quotient ~ +-2^127)", || {
        run_i128(&pairs, |x, y, n, out| {
            let pxy = lp.contains(&x) && lp.contains(&y);
            for t in [pow2(127), -pow2(127), pow2(127) - 1] {
                let base = n / &t;
                for delta in [-1i32, 0, 1] {
                    if let Some(d) = fit128(&(&base + delta)) {
                        if d != 0 && !lall.contains(&d) && !out.iter().any(|(o, _)| *o == d) {
                            out.push((d, pxy));
                        }
                    }
                }
            }
        })
    }));

    // F3: all small triples, both variants
    let r = range(sz.small);
    let small_pairs = cross(&r, &r);
    total = total.merge(timed(&format!("i128 all |x|,|y|,|d| <= {}", sz.small), || {
        run_i128(&small_pairs, |x, y, _, out| {
            out.extend(r.iter().filter(|&&d| !covered(x, y, d)).map(|&d| (d, true)))
        })
    }));

    // F4: small triples lifted into the I256 fallback path: x = a*2^63, y = b*2^65, d = c*2^120
    // (product overflows i128 whenever a*b != 0; quotient = a*b*2^8 / c with every sign
    // combination and remainder class)
    let rl = range(sz.lifted);
    let lifted_pairs: Vec<(i128, i128)> = cross(&rl, &rl).into_iter().map(|(a, b)| (a << 63, b << 65)).collect();
    total = total.merge(timed(&format!("i128 lifted (a*2^63, b*2^65, c*2^120), |a|,|b|,|c| <= {}", sz.lifted), || {
        run_i128(&lifted_pairs, |x, y, _, out| {
            out.extend(rl.iter().map(|&c| c << 120).filter(|&d| !covered(x, y, d)).map(|d| (d, true)))
        })
    }));

    // F5: all (r, z) with |r|,|z| <= rz: (r, 1, z) natively, and all |r|,|z| <= rz_wide as
    // (r*2^62, +-(2^66+1), z*2^118) through the widened path (quotient ~ +-r*2^10 / z)
    let rr = range(sz.rz);
    let rz_pairs: Vec<(i128, i128)> = rr.iter().map(|&r| (r, 1i128)).collect();
    total = total.merge(timed(&format!("i128 all (r, 1, z) with |r|,|z| <= {}", sz.rz), || {
        run_i128(&rz_pairs, |r, _, _, out| {
            let rs = r.abs() <= sz.small;
            out.extend(rr.iter().filter(|&&z| !covered(r, 1, z) && !(rs && z.abs() <= sz.small)).map(|&z| (z, true)))
        })
    }));
    let rw = range(sz.rz_wide);
    let rzw_pairs: Vec<(i128, i128)> = rw.iter().flat_map(|&r| [(r << 62, (1i128 << 66) + 1), (r << 62, -(1i128 << 66) - 1)]).collect();
    total = total.merge(timed(&format!("i128 widened (r*2^62, +-(2^66+1), z*2^118), |r|,|z| <= {}", sz.rz_wide), || {
        run_i128(&rzw_pairs, |x, y, _, out| out.extend(rw.iter().map(|&z| z << 118).filter(|&d| !covered(x, y, d)).map(|d| (d, true))))
    }));

    // I256: lattice lifted to 256 bits, products that fit
    let l256: Vec<BigInt> = lattice256().into_iter().filter(|(_, l)| *l <= sz.lvl256).map(|(v, _)| v).collect();
    println!("I256 lattice: {} values", l256.len());
    let idx: Vec<(usize, usize)> = (0..l256.len()).flat_map(|i| (0..l256.len()).map(move |j| (i, j))).collect();
    total = total.merge(timed("I256 lattice^3 restricted to products that fit", || {
        idx.par_iter()
            .map_init(Slot::new, |slot, &(i, j)| {
                let mut t = Tally::default();
                let (x, y) = (&l256[i], &l256[j]);
                let n = x * y;
                if !fit256(&n) {
                    t.counters[C256_SKIPPED] += l256.len() as u64;
                    return t;
                }
                for d in &l256 {
                    eval_i256(slot, x, y, d, &n, &mut t, false);
                }
                t
            })
            .reduce(Tally::default, Tally::merge)
    }));
    // I256 small (r, z) family: sign / remainder classes of the I256 helpers on their own
    let r256 = range(tier.pick(20, 60));
    let p256 = cross(&r256, &[1, -3, 1i128 << 100]);
    total = total.merge(timed("I256 small (r, y, z) family", || {
        p256.par_iter()
            .map_init(Slot::new, |slot, &(r, y)| {
                let mut t = Tally::default();
                let (x, y) = (BigInt::from(r) << 100u32, BigInt::from(y));
                let n = &x * &y;
                let xy = l256.contains(&x) && l256.contains(&y);
                for &z in &r256 {
                    let d = BigInt::from(z) << 90u32;
                    if xy && l256.contains(&d) {
                        continue;
                    }
                    eval_i256(slot, &x, &y, &d, &n, &mut t, false);
                }
                t
            })
            .reduce(Tally::default, Tally::merge)
    }));

    // Wad: all lattice pairs for checked_mul / checked_div / from_ratio
    let lw = lat(sz.lvl_wad);
    let wad_pairs = cross(&lw, &lw);
    total = total.merge(timed("Wad lattice^2 x {checked_mul, checked_div, from_ratio}", || {
        wad_pairs
            .par_iter()
            .map_init(Slot::new, |slot, &(a, b)| {
                let mut t = Tally::default();
                for op in [WadOp::Mul, WadOp::Div, WadOp::Ratio] {
                    eval_wad(slot, op, a, b, &mut t, false);
                }
                t
            })
            .reduce(Tally::default, Tally::merge)
    }));
    // Wad: decimal neighbourhoods: (r*10^17 + s) for |r| <= wad_small, s in {-1, 0, 1}, and raw |v| <= wad_small
    let mut ws: Vec<i128> = vec![];
    for r in range(sz.wad_small) {
        ws.push(r);
        for s in [-1, 0, 1] {
            ws.push(r * (WAD / 10) + s);
        }
    }
    ws.sort_by_key(|x| (x.unsigned_abs(), *x < 0));
    ws.dedup();
    let lws: std::collections::BTreeSet<i128> = lw.iter().copied().collect();
    let ws_pairs: Vec<(i128, i128)> = cross(&ws, &ws).into_iter().filter(|(a, b)| !(lws.contains(a) && lws.contains(b))).collect();
    total = total.merge(timed("Wad decimal neighbourhood^2 x {mul, div, ratio}", || {
        ws_pairs
            .par_iter()
            .map_init(Slot::new, |slot, &(a, b)| {
                let mut t = Tally::default();
                for op in [WadOp::Mul, WadOp::Div, WadOp::Ratio] {
                    eval_wad(slot, op, a, b, &mut t, false);
                }
                t
            })
            .reduce(Tally::default, Tally::merge)
    }));

    // Wad pow: bases in the lattice x exponents
    let mut exps: Vec<u32> = (0..=40).collect();
    exps.extend(POW_EXPONENTS_EXTRA);
    total = total.merge(timed("Wad pow / checked_pow lattice x exponents", || {
        lw.par_iter()
            .map_init(Slot::new, |slot, &b| {
                let mut t = Tally::default();
                for &e in &exps {
                    eval_wad_pow(slot, b, e, &mut t, false);
                }
                t
            })
            .reduce(Tally::default, Tally::merge)
    }));
    total
}

// ------------------------------------------------------------------------------------------
// replay of one case
// ------------------------------------------------------------------------------------------

fn field<'a>(case: &'a str, key: &str) -> &'a str {
    let pat = format!("{key}=");
    case.split_whitespace().find_map(|tok| tok.strip_prefix(pat.as_str())).unwrap_or_else(|| panic!("case descriptor lacks {key}: {case}"))
}
fn big(s: &str) -> BigInt {
    s.parse::<BigInt>().unwrap_or_else(|_| panic!("bad integer {s}"))
}
fn small(s: &str) -> i128 {
    s.parse::<i128>().unwrap_or_else(|_| panic!("bad i128 {s}"))
}

/// Re-evaluate exactly one case (all roundings, both variants), print the diagnosis.
fn eval_case(case: &str, verbose: bool) -> Tally {
    let mut t = Tally::default();
    let mut slot = Slot::new();
    let family = case.split_whitespace().next().unwrap_or("");
    if verbose {
        println!("case: {case}");
    }
    match family {
        "i128" => {
            let (x, y, d) = (small(field(case, "x")), small(field(case, "y")), small(field(case, "d")));
            let n = BigInt::from(x) * BigInt::from(y);
            if verbose {
                println!("  exact product x*y = {n}");
            }
            eval_i128(&mut slot, x, y, d, &n, true, &mut t, verbose);
        }
        "i256" => {
            let (x, y, d) = (big(field(case, "x")), big(field(case, "y")), big(field(case, "d")));
            let n = &x * &y;
            if verbose {
                println!("  exact product x*y = {n}");
            }
            if !fit256(&n) {
                println!("  product does not fit in 256 bits: outside the property");
            } else {
                eval_i256(&mut slot, &x, &y, &d, &n, &mut t, verbose);
            }
        }
        "wad.mul" | "wad.div" | "wad.ratio" => {
            let op = match family {
                "wad.mul" => WadOp::Mul,
                "wad.div" => WadOp::Div,
                _ => WadOp::Ratio,
            };
            eval_wad(&mut slot, op, small(field(case, "a")), small(field(case, "b")), &mut t, verbose);
        }
        "wad.pow" => {
            let e: u32 = field(case, "e").parse().expect("exponent");
            eval_wad_pow(&mut slot, small(field(case, "b")), e, &mut t, verbose);
        }
        other => panic!("unknown case family {other}"),
    }
    t
}

const RULE: &str = "stateless exhaustive enumeration of inputs of the real contract-utils math functions inside a native soroban Env, compared with exact big-integer (num-bigint) floor/ceil/trunc quotients that are re-validated against their defining inequalities on every use. i128: every triple (x,y,d) of a boundary lattice L (0, +-1,2,3,5,7,10, +-10^k, +-(2^k-1), +-2^k, +-(2^k+1) for k in {31,32,62,63,64,65,95,96,126}, MIN..MIN+2, MAX-2..MAX, +-isqrt(MAX)(+1), Wad neighbours, one fixed bit pattern per bit length 1..127 with both signs) x {floor,ceil,trunc}: checked variants on the cube of L restricted to the structured values and (quick) every 16th / (thorough) every even bit length, the remaining bit lengths in one operand position at a time against the structured sub-lattice (thorough), panicking variants (each call under catch_unwind) on a sub-lattice^3; plus L^2 x divisors derived to put the quotient next to +-2^127; plus ALL small triples |x|,|y|,|d|<=B natively and lifted into the widened path (a*2^63, b*2^65, c*2^120); plus ALL (r,z) with |r|,|z|<=300 natively and widened. I256: the lattice lifted to 256 bits, all triples whose product fits, both variants, plus a small (r,y,z) family. Wad: all lattice pairs and a decimal neighbourhood for checked_mul/checked_div/from_ratio (exact truncation, no value iff divisor zero or result does not fit), pow vs checked_pow for lattice bases x exponents {0..=40,63,64,127,128,255,256,65535,2^32-2,2^32-1} (only: pow fails iff checked_pow is None). evaluations = library calls compared with the reference; non-trivial = distinct inputs whose product leaves i128, whose quotient is inexact, or for which an error is demanded. Exhaustive over the enumerated lattices, not over the 384-bit input space.";

fn main() {
    main_with("C12", "exploration", RULE, |tier, runner| {
        if let Some(case) = runner.replay_case(WORLD) {
            let t = eval_case(&case, true);
            if t.findings.is_empty() {
                println!("replay finished: no oracle violated on this case");
            } else {
                println!("replay finished: {} oracle violation(s) reproduced on this case (marked VIOLATED above)", t.findings.len());
            }
            return;
        }
        if !runner.exploring() {
            return;
        }
        let total = enumerate(tier);

        // fixed, well-known cases as samples (evaluated on the real code like every other case)
        let sample_cases = [
            format!("i128 x={} y=3 d=3", i128::MAX),
            format!("i128 x={} y=1 d=-1", i128::MIN),
            format!("i128 x={} y={} d=2", (1i128 << 64) - 1, (1i128 << 64) + 1),
            format!("wad.mul a={} b={}", i128::MAX, WAD),
        ];
        let mut samples = vec![];
        for c in &sample_cases {
            let t = eval_case(c, false);
            let outcome: BTreeMap<&str, String> = KINDS
                .iter()
                .enumerate()
                .filter(|(k, _)| t.ops[*k][0] + t.ops[*k][1] > 0)
                .map(|(k, name)| (*name, if t.ops[k][0] > 0 { "value".to_string() } else { "error".to_string() }))
                .collect();
            samples.push(json!({"case": c, "outcome": outcome, "violations": t.findings.len()}));
        }

        println!("outcome histogram (ok = value returned, refused = error reported):");
        let mut outcomes = BTreeMap::new();
        for (k, name) in KINDS.iter().enumerate() {
            println!("    {name:<28} ok={:<10} refused={}", total.ops[k][0], total.ops[k][1]);
            outcomes.insert(name.to_string(), json!({"ok": total.ops[k][0], "refused": total.ops[k][1]}));
        }
        let mut counters = BTreeMap::new();
        for (k, name) in COUNTERS.iter().enumerate() {
            println!("    #{name:<80} {}", total.counters[k]);
            counters.insert(name.to_string(), json!(total.counters[k]));
        }

        let rep = runner.report().expect("exploring");
        rep.evaluations += total.evals;
        rep.distinct_nontrivial += total.nontrivial;
        rep.extra("outcomes", json!(outcomes));
        rep.extra("counters", json!(counters));
        rep.extra("distinct_inputs", json!(total.inputs));
        rep.extra(
            "explanation",
            json!("every evaluation is one call of a real library function inside a native soroban Env whose outcome (value / None / caught panic) was compared with the exact big-integer reference; distinct_inputs = distinct (function family, operands) tuples, each evaluated for every rounding and variant; later families skip inputs that an earlier family already covered"),
        );
        for s in samples {
            rep.sample(s);
        }
        for f in total.findings.values() {
            rep.case_violation(WORLD, f.oracle, f.kind, f.case.clone(), f.detail.clone());
        }
        // Vacuity (the library's `require` only sees BFS worlds; same rule applied here):
        // every operation kind must have returned a value and must have reported an error.
        rep.require(&[], &[]);
        for (k, name) in KINDS.iter().enumerate() {
            if total.ops[k][0] == 0 {
                rep.machinery_error(&format!("vacuous exploration: operation kind '{name}' never succeeded"));
            }
            if total.ops[k][1] == 0 {
                rep.machinery_error(&format!("vacuous exploration: operation kind '{name}' was never refused"));
            }
        }
        for (k, name) in COUNTERS.iter().enumerate() {
            // the two "accepted / skipped" counters are informational
            if total.counters[k] == 0 && k != C256_CHECKED_PANIC && k != C256_SKIPPED {
                rep.machinery_error(&format!("vacuous exploration: counter '{name}' is zero"));
            }
        }
    })
}
