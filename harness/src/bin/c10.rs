//! C10 — every NFT has exactly one owner and enumerations mirror ownership.
//!
//! Flavours (all compiled from /repo's working tree):
//!   * Base, sequential mint      — `nft-sequential-minting` example
//!   * Base, explicit fresh ids   — wrapper `nft_wrap::BaseNft` (`Base::mint`)
//!   * Enumerable, sequential     — `nft-enumerable` example
//!   * Enumerable, explicit ids   — wrapper `nft_wrap::EnumNft` (`Enumerable::non_sequential_mint`)
//!   * Consecutive, batch mint    — `nft-consecutive` example (its `batch_mint(to, amount)` is
//!     `Consecutive::batch_mint` behind the minter's authorization, so no wrapper is needed);
//!     seeds with one initial batch whose size straddles the item (32) / bucket (3200) edges of
//!     the ownership bitmaps and the maximal batch (32000).
//!
//! Reference model: the plain map `id -> owner` (stored as "batches + deviations" so that a
//! 32000-token state stays small; `Model::owner` is the map). All calls run under recording
//! authorization: who may move a token is C11's subject, this check is about *which* token
//! moves. Account C is approved-for-all by A and B in every seed, so `transfer_from` /
//! `burn_from` by C are available "after approve" without multiplying the state space; the
//! thorough tier adds token-level `approve` + `transfer_from` / `burn_from` by the approved one.
//!
//! Direction of the oracles: an operation the implementation ACCEPTS must have been legitimate in
//! the model (token exists and `from` is its owner; minted ids are new) and must change exactly
//! the named token; a refusal is always acceptable (the engine verifies that it leaves storage
//! untouched), the vacuity rule demands that every kind was accepted / refused somewhere.
//! After every accepted step every getter of the property is compared with the model.

use soroban_sdk::testutils::Address as _;
use soroban_sdk::{Address, Env, IntoVal, String as SString, TryFromVal, Val, Vec as SVec};
use std::collections::{BTreeMap, BTreeSet};
use vh::auth::{call_mocked, view, CallRes};
use vh::cli::{main_with, Runner};
use vh::engine::{Bounds, Stats, StepCtx, Violation, World};
use vh::ensure;
use vh::envx;
use vh::report::Tier;

#[path = "/repo/examples/nft-sequential-minting/src/contract.rs"]
mod base_example;
#[path = "/repo/examples/nft-consecutive/src/contract.rs"]
mod consecutive_example;
#[path = "/repo/examples/nft-enumerable/src/contract.rs"]
mod enumerable_example;
#[path = "../shared/nft_wrap.rs"]
mod nft_wrap;

const N: usize = 3;
const NAMES: [&str; N] = ["A", "B", "C"];
/// approved-for-all by the two other accounts in every seed
const OPERATOR: usize = 2;
/// ids offered to the explicit-id mints (first ids, a gap, the largest u32)
const UNIVERSE: [u32; 4] = [0, 1, 7, u32::MAX];
/// below this many issued ids every id is queried after every step
const FULL_SCAN_LIMIT: u32 = 400;
const ITEM: u32 = 32;
const BUCKET: u32 = 3200;

#[derive(Clone, Copy, Debug, PartialEq, Eq)]
enum Flavour {
    BaseSeq,
    BaseExplicit,
    EnumSeq,
    EnumExplicit,
    Consecutive,
}

/// What the model thinks of the `from` of a proposed operation (only used to name the
/// operation kind in the outcome histogram — never for a verdict).
#[derive(Clone, Copy, Debug, PartialEq, Eq)]
enum By {
    Owner,
    NonOwner,
    NoToken,
}

#[derive(Clone, Debug, PartialEq, Eq)]
enum Op {
    /// sequential mint of the examples
    Mint { to: usize },
    /// explicit id (wrappers); only proposed for ids that do not exist at the moment
    MintId { to: usize, id: u32 },
    BatchMint { to: usize, n: u32 },
    Transfer { from: usize, to: usize, id: u32, by: By },
    Approve { owner: usize, spender: usize, id: u32 },
    TransferFrom { sp: usize, from: usize, to: usize, id: u32 },
    Burn { from: usize, id: u32, by: By },
    BurnFrom { sp: usize, from: usize, id: u32 },
    /// no call at all: on a rebuilt copy of the state 600000 ledgers pass without any invocation
    /// (beyond the lifetime of every temporary entry and of every TTL extension the library
    /// performs); owners, balances and enumerations must be what they were, and the next
    /// sequential / batch mint must still issue an id that was never issued before
    IdleProbe,
}

/// ledgers that pass in an idle probe (largest TTL extension of the library: 518400; persistent
/// TTL of `envx::mk_env`: 3000000)
const IDLE: u32 = 600_000;

/// A disagreement found after the idle period: nothing was called in between, so whatever differs
/// from the model was lost (or appeared) through the passage of time alone.
fn idle_viol(v: Violation) -> Violation {
    Violation::new("state-survives-idle", format!("[{}] {}", v.oracle, v.detail))
}

#[derive(Clone, Debug, PartialEq, Eq, Hash)]
struct Batch {
    first: u32,
    last: u32,
    to: usize,
}

/// The ownership map `id -> owner`: `owner(id)` = deviation if any, else the owner the id was
/// minted to. Kept canonical (`set` removes a deviation that equals the minted owner).
#[derive(Clone, Debug)]
struct Model {
    /// ids issued by sequential / batch minting, in order, with the account they were minted to
    batches: Vec<Batch>,
    /// Some(o): now owned by o; None: burned. For explicit ids (no batch) the base is "no owner".
    changed: BTreeMap<u32, Option<usize>>,
    /// next id a sequential / batch mint has to issue (ids below were issued and are never reused)
    next_id: u32,
    /// ids named by an accepted transfer / burn / approve (query set of the large seeds)
    touched: BTreeSet<u32>,
    /// token-level approvals the harness granted; only used to propose operations
    approved: BTreeMap<u32, usize>,
    seed_refused: bool,
    /// the id u32::MAX has been issued: no further sequential id exists
    depleted: bool,
}

impl Model {
    fn minted_to(&self, id: u32) -> Option<usize> {
        self.batches.iter().find(|b| b.first <= id && id <= b.last).map(|b| b.to)
    }
    fn owner(&self, id: u32) -> Option<usize> {
        match self.changed.get(&id) {
            Some(c) => *c,
            None => self.minted_to(id),
        }
    }
    fn set(&mut self, id: u32, o: Option<usize>) {
        if self.minted_to(id) == o {
            self.changed.remove(&id);
        } else {
            self.changed.insert(id, o);
        }
    }
    /// number of ids owned by `a`
    fn count(&self, a: usize) -> u64 {
        let mut n: i64 = self.batches.iter().filter(|b| b.to == a).map(|b| (b.last - b.first + 1) as i64).sum();
        for (id, c) in &self.changed {
            if self.minted_to(*id) == Some(a) {
                n -= 1;
            }
            if *c == Some(a) {
                n += 1;
            }
        }
        n as u64
    }
    /// the whole map, explicitly (small worlds only)
    fn existing(&self) -> BTreeMap<u32, usize> {
        let mut m = BTreeMap::new();
        for b in &self.batches {
            for id in b.first..=b.last {
                m.insert(id, b.to);
            }
        }
        for (id, c) in &self.changed {
            match c {
                Some(o) => m.insert(*id, *o),
                None => m.remove(id),
            };
        }
        m
    }
    /// maximal runs of equal ownership — a representation-independent digest input
    fn runs(&self) -> Vec<(u32, u32, usize)> {
        let mut out: Vec<(u32, u32, usize)> = vec![];
        let mut push = |f: u32, l: u32, o: usize| {
            if let Some(last) = out.last_mut() {
                if last.2 == o && last.1.checked_add(1) == Some(f) {
                    last.1 = l;
                    return;
                }
            }
            out.push((f, l, o));
        };
        let mut explicit: Vec<(u32, usize)> = vec![];
        for (id, c) in &self.changed {
            if self.minted_to(*id).is_none() {
                if let Some(o) = c {
                    explicit.push((*id, *o));
                }
            }
        }
        for b in &self.batches {
            let mut start = b.first;
            for (id, c) in self.changed.range(b.first..=b.last) {
                if *id > start {
                    push(start, *id - 1, b.to);
                }
                if let Some(o) = c {
                    push(*id, *id, *o);
                }
                start = id.saturating_add(1);
            }
            if start <= b.last {
                push(start, b.last, b.to);
            }
        }
        for (id, o) in explicit {
            push(id, id, o);
        }
        out
    }
}

#[derive(Clone, Copy, Debug, PartialEq, Eq)]
enum Seed {
    Empty,
    /// consecutive: one initial batch of this size minted to A
    Batch(u32),
    /// sequential flavours: the id counter was advanced to this value through the library's public
    /// `sequential::increment_token_id` (ids reserved and never minted = all earlier tokens gone)
    CounterAt(u32),
}

struct Nft {
    flavour: Flavour,
    thorough: bool,
    /// world name
    name: &'static str,
    seeds: Vec<Seed>,
    /// accounts that receive mints
    mint_to: Vec<usize>,
    batch_sizes: Vec<u32>,
    /// also transfer to the third account / token-level approvals
    rich: bool,
    /// deep worlds: per id only transfer (self / other), transfer_from (other), burn + refusal probes
    lean: bool,
}

struct Inst {
    e: Env,
    c: Address,
    u: [Address; N],
}

impl Inst {
    fn who(&self, a: &Address) -> String {
        match self.u.iter().position(|x| x == a) {
            Some(k) => NAMES[k].to_string(),
            None => format!("{a:?}"),
        }
    }
}

fn u32_of(e: &Env, v: Val, what: &str) -> Result<u32, Violation> {
    u32::try_from_val(e, &v).map_err(|_| Violation::new("getter", format!("{what}: result is not a u32")))
}

fn dedup(xs: Vec<u32>) -> Vec<u32> {
    let mut out: Vec<u32> = vec![];
    for x in xs {
        if !out.contains(&x) {
            out.push(x);
        }
    }
    out
}

/// first, second, middle, last-1, last of a batch, plus the ids on both sides of the first item
/// edge (multiple of 32) and of the first and last bucket edge (multiple of 3200) inside it.
fn batch_ids(b: &Batch) -> Vec<u32> {
    let (f, l) = (b.first, b.last);
    let mut v = vec![f];
    if f < l {
        v.push(f + 1);
    }
    v.push(f + (l - f) / 2);
    if l > f {
        v.push(l - 1);
    }
    v.push(l);
    let (f64, l64) = (f as u64, l as u64);
    let m = (f64 / ITEM as u64 + 1) * ITEM as u64;
    if m <= l64 {
        v.push(m as u32 - 1);
        v.push(m as u32);
    }
    let m1 = (f64 / BUCKET as u64 + 1) * BUCKET as u64;
    if m1 <= l64 {
        v.push(m1 as u32 - 1);
        v.push(m1 as u32);
        let m2 = (l / BUCKET) * BUCKET;
        if m2 as u64 > m1 {
            v.push(m2 - 1);
            v.push(m2);
        }
    }
    dedup(v)
}

impl Nft {
    fn explicit(&self) -> bool {
        matches!(self.flavour, Flavour::BaseExplicit | Flavour::EnumExplicit)
    }
    fn enumerable(&self) -> bool {
        matches!(self.flavour, Flavour::EnumSeq | Flavour::EnumExplicit)
    }
    fn full_scan(&self, m: &Model) -> bool {
        m.next_id <= FULL_SCAN_LIMIT
    }

    /// ids operations are proposed on
    fn op_ids(&self, m: &Model) -> Vec<u32> {
        if self.explicit() {
            return UNIVERSE.to_vec();
        }
        let mut v = vec![];
        for b in &m.batches {
            v.extend(batch_ids(b));
        }
        if !m.depleted {
            v.push(m.next_id); // an id that was never issued
        }
        v.push(0);
        dedup(v)
    }

    /// ids queried after every accepted step
    fn scan_ids(&self, m: &Model) -> Vec<u32> {
        let mut s: BTreeSet<u32> = BTreeSet::new();
        let around = |s: &mut BTreeSet<u32>, x: u32| {
            for d in 0..=2u32 {
                s.insert(x.saturating_sub(d));
                s.insert(x.saturating_add(d));
            }
        };
        if self.explicit() {
            for x in UNIVERSE {
                around(&mut s, x);
            }
            return s.into_iter().collect();
        }
        if self.full_scan(m) {
            return (0..m.next_id + 2).collect();
        }
        // large id spaces: every id whose answer can differ from its neighbours'
        let top: u64 = if m.depleted { u32::MAX as u64 } else { (m.next_id as u64 + 1).min(u32::MAX as u64) };
        let mut base: BTreeSet<u32> = m.touched.clone();
        for b in &m.batches {
            base.insert(b.first);
            base.insert(b.last);
        }
        base.insert(m.next_id);
        base.insert(0);
        let mut w: BTreeSet<u64> = BTreeSet::new();
        let around64 = |w: &mut BTreeSet<u64>, x: u64| {
            for d in 0..=2u64 {
                w.insert(x.saturating_sub(d));
                w.insert(x + d);
            }
        };
        for x in base {
            let x = x as u64;
            around64(&mut w, x);
            if self.flavour == Flavour::Consecutive {
                let m32 = x / ITEM as u64 * ITEM as u64;
                around64(&mut w, m32);
                around64(&mut w, m32 + ITEM as u64);
            }
        }
        if self.flavour == Flavour::Consecutive {
            let mut k = 0u64;
            while k * BUCKET as u64 <= top + BUCKET as u64 {
                around64(&mut w, k * BUCKET as u64);
                k += 1;
            }
        }
        w.into_iter().filter(|x| *x <= top).map(|x| x as u32).collect()
    }

    fn call(&self, i: &Inst, op: &Op) -> (&'static str, SVec<Val>) {
        let e = &i.e;
        let u = |k: usize| i.u[k].clone();
        match op {
            Op::Mint { to } => ("mint", (u(*to),).into_val(e)),
            Op::MintId { to, id } => ("mint", (u(*to), *id).into_val(e)),
            Op::BatchMint { to, n } => ("batch_mint", (u(*to), *n).into_val(e)),
            Op::Transfer { from, to, id, .. } => ("transfer", (u(*from), u(*to), *id).into_val(e)),
            Op::Approve { owner, spender, id } => ("approve", (u(*owner), u(*spender), *id, envx::now(e) + 1000).into_val(e)),
            Op::TransferFrom { sp, from, to, id } => ("transfer_from", (u(*sp), u(*from), u(*to), *id).into_val(e)),
            Op::Burn { from, id, .. } => ("burn", (u(*from), *id).into_val(e)),
            Op::BurnFrom { sp, from, id } => ("burn_from", (u(*sp), u(*from), *id).into_val(e)),
            Op::IdleProbe => unreachable!("the idle probe is not a contract call"),
        }
    }

    /// The idle probe (see `Op::IdleProbe`), on a throw-away copy of the state.
    fn idle_probe(&self, copy: &Inst, m: &Model, st: &mut Stats) -> Result<(), Violation> {
        envx::advance(&copy.e, IDLE);
        // the probe's getter calls are counted apart from the ones the vacuity rule relies on
        let mut own = Stats::default();
        let after = format!("{IDLE} ledgers without any call");
        self.compare(copy, m, &after, &mut own).map_err(idle_viol)?;
        // the id counter: approvals have expired meanwhile, minting does not depend on them
        let mint = match self.flavour {
            Flavour::BaseSeq | Flavour::EnumSeq => Some(Op::Mint { to: 0 }),
            Flavour::Consecutive => Some(Op::BatchMint { to: 0, n: 1 }),
            Flavour::BaseExplicit | Flavour::EnumExplicit => None,
        };
        if let Some(op) = mint {
            if self.exec(copy, &op).is_ok() {
                let mut m2 = m.clone();
                self.accept(&mut m2, &op).map_err(idle_viol)?;
                self.compare(copy, &m2, &format!("{after} and then {op:?}"), &mut own).map_err(idle_viol)?;
                st.count("mints-after-long-idle", 1);
            }
        }
        for (k, n) in &own.counters {
            st.count(&format!("{k}-after-long-idle"), *n);
        }
        st.count("idle-probes", 1);
        Ok(())
    }

    fn exec(&self, i: &Inst, op: &Op) -> CallRes {
        if matches!(op, Op::IdleProbe) {
            return Err(vh::auth::CallErr::Other("idle probe: no call".into()));
        }
        let (f, args) = self.call(i, op);
        let r = call_mocked(&i.e, &i.c, f, args);
        if std::env::var("VH_DEBUG").is_ok() {
            eprintln!("{op:?} -> {:?}", r.as_ref().map(|_| ()));
        }
        r
    }

    /// Step the model for an operation the implementation accepted.
    fn accept(&self, m: &mut Model, op: &Op) -> Result<(), Violation> {
        let holder = |m: &Model, id: u32| match m.owner(id) {
            Some(o) => format!("owned by {}", NAMES[o]),
            None => "not an existing token".to_string(),
        };
        match op {
            Op::Mint { to } => {
                let id = m.next_id;
                ensure!(!m.depleted, "ids-never-reused", "sequential mint accepted after every u32 id had been issued");
                m.batches.push(Batch { first: id, last: id, to: *to });
                match id.checked_add(1) {
                    Some(n) => m.next_id = n,
                    None => m.depleted = true,
                }
            }
            Op::MintId { to, id } => {
                // proposed only for ids without an owner (fresh, or burned before)
                m.set(*id, Some(*to));
            }
            Op::BatchMint { to, n } => {
                let first = m.next_id;
                ensure!(*n >= 1, "empty-batch", "{:?} accepted", op);
                let Some(last) = first.checked_add(*n - 1).filter(|_| !m.depleted) else {
                    return Err(Violation::new("ids-never-reused", format!("{op:?} accepted although fewer than {n} unissued ids are left")));
                };
                m.batches.push(Batch { first, last, to: *to });
                match last.checked_add(1) {
                    Some(x) => m.next_id = x,
                    None => m.depleted = true,
                }
            }
            Op::Transfer { from, to, id, .. } | Op::TransferFrom { from, to, id, .. } => {
                ensure!(
                    m.owner(*id) == Some(*from),
                    "moves-only-the-owners-token",
                    "{:?} was accepted although token {} is {}",
                    op,
                    id,
                    holder(m, *id)
                );
                m.set(*id, Some(*to));
                m.touched.insert(*id);
                m.approved.remove(id);
            }
            Op::Burn { from, id, .. } | Op::BurnFrom { from, id, .. } => {
                ensure!(
                    m.owner(*id) == Some(*from),
                    "burns-only-the-owners-token",
                    "{:?} was accepted although token {} is {}",
                    op,
                    id,
                    holder(m, *id)
                );
                m.set(*id, None);
                m.touched.insert(*id);
                m.approved.remove(id);
            }
            Op::Approve { spender, id, .. } => {
                m.approved.insert(*id, *spender);
                m.touched.insert(*id);
            }
            Op::IdleProbe => {}
        }
        Ok(())
    }

    /// Compare every getter named by the property with the model.
    fn compare(&self, i: &Inst, m: &Model, after: &str, st: &mut Stats) -> Result<(), Violation> {
        let e = &i.e;
        let ids = self.scan_ids(m);
        st.count("owner_of-queries", ids.len() as u64);
        for &id in &ids {
            let want = m.owner(id);
            let got = view(e, &i.c, "owner_of", (id,).into_val(e));
            match (got, want) {
                (Ok(v), Some(o)) => {
                    let a = Address::try_from_val(e, &v).map_err(|_| Violation::new("getter", "owner_of: not an address".into()))?;
                    ensure!(
                        a == i.u[o],
                        "owner_of",
                        "after {}: owner_of({}) = {} but the token belongs to {}",
                        after,
                        id,
                        i.who(&a),
                        NAMES[o]
                    );
                }
                (Ok(v), None) => {
                    let a = Address::try_from_val(e, &v).map(|a| i.who(&a)).unwrap_or("?".into());
                    return Err(Violation::new(
                        "owner-of-nonexistent",
                        format!("after {after}: owner_of({id}) = {a} although the id {}", self.absent(m, id)),
                    ));
                }
                (Err(x), Some(o)) => {
                    return Err(Violation::new(
                        "owner_of",
                        format!("after {after}: owner_of({id}) fails with {x:?} although the token exists and belongs to {}", NAMES[o]),
                    ));
                }
                (Err(_), None) => {}
            }
            let uri = view(e, &i.c, "token_uri", (id,).into_val(e));
            ensure!(
                uri.is_ok() == want.is_some(),
                "token_uri-iff-exists",
                "after {}: token_uri({}) {} although the id {}",
                after,
                id,
                if uri.is_ok() { "succeeds" } else { "fails" },
                if want.is_some() { "is an existing token".to_string() } else { self.absent(m, id) }
            );
        }
        for a in 0..N {
            let b = u32_of(e, view(e, &i.c, "balance", (i.u[a].clone(),).into_val(e)).map_err(|x| Violation::new("getter", format!("balance: {x:?}")))?, "balance")?;
            ensure!(
                b as u64 == m.count(a),
                "balance=owned-ids",
                "after {}: balance({}) = {} but {} owns {} tokens",
                after,
                NAMES[a],
                b,
                NAMES[a],
                m.count(a)
            );
        }
        st.count("balance-comparisons", N as u64);
        if self.enumerable() {
            let exist = m.existing();
            let ts = u32_of(e, view(e, &i.c, "total_supply", SVec::new(e)).map_err(|x| Violation::new("getter", format!("total_supply: {x:?}")))?, "total_supply")?;
            ensure!(ts as usize == exist.len(), "total_supply", "after {}: total_supply = {} but {} tokens exist", after, ts, exist.len());
            let mut seen: BTreeSet<u32> = BTreeSet::new();
            for idx in 0..ts {
                let r = view(e, &i.c, "get_token_id", (idx,).into_val(e));
                let id = match r {
                    Ok(v) => u32_of(e, v, "get_token_id")?,
                    Err(x) => return Err(Violation::new("global-enumeration", format!("after {after}: get_token_id({idx}) fails with {x:?}, total_supply = {ts}"))),
                };
                ensure!(seen.insert(id), "global-enumeration", "after {}: token {} is listed twice in the global enumeration", after, id);
            }
            let want: BTreeSet<u32> = exist.keys().copied().collect();
            ensure!(seen == want, "global-enumeration", "after {}: global enumeration lists {:?}, existing tokens are {:?}", after, seen, want);
            ensure!(
                view(e, &i.c, "get_token_id", (ts,).into_val(e)).is_err(),
                "enumeration-index-out-of-range",
                "after {}: get_token_id({}) answers although total_supply = {}",
                after,
                ts,
                ts
            );
            st.count("enumeration-entries-compared", ts as u64 + 1);
            for a in 0..N {
                let want: BTreeSet<u32> = exist.iter().filter(|(_, o)| **o == a).map(|(id, _)| *id).collect();
                let mut seen: BTreeSet<u32> = BTreeSet::new();
                for idx in 0..want.len() as u32 {
                    let r = view(e, &i.c, "get_owner_token_id", (i.u[a].clone(), idx).into_val(e));
                    let id = match r {
                        Ok(v) => u32_of(e, v, "get_owner_token_id")?,
                        Err(x) => {
                            return Err(Violation::new(
                                "owner-enumeration",
                                format!("after {after}: get_owner_token_id({}, {idx}) fails with {x:?} although {} owns {:?}", NAMES[a], NAMES[a], want),
                            ))
                        }
                    };
                    ensure!(seen.insert(id), "owner-enumeration", "after {}: token {} is listed twice for {}", after, id, NAMES[a]);
                }
                ensure!(seen == want, "owner-enumeration", "after {}: the list of {} is {:?}, it owns {:?}", after, NAMES[a], seen, want);
                ensure!(
                    view(e, &i.c, "get_owner_token_id", (i.u[a].clone(), want.len() as u32).into_val(e)).is_err(),
                    "enumeration-index-out-of-range",
                    "after {}: get_owner_token_id({}, {}) answers although {} owns {} tokens",
                    after,
                    NAMES[a],
                    want.len(),
                    NAMES[a],
                    want.len()
                );
                st.count("enumeration-entries-compared", want.len() as u64 + 1);
            }
        }
        Ok(())
    }

    fn absent(&self, m: &Model, id: u32) -> String {
        if m.changed.get(&id) == Some(&None) {
            "was burned".to_string()
        } else if self.explicit() {
            "has no owner (never minted, or burned)".to_string()
        } else {
            "was never minted".to_string()
        }
    }
}

impl World for Nft {
    type Op = Op;
    type Model = Model;
    type Inst = Inst;

    fn name(&self) -> String {
        format!("{}{}", self.name, if self.thorough { "-t" } else { "" })
    }
    fn seeds(&self) -> usize {
        self.seeds.len()
    }
    fn seed_name(&self, s: usize) -> String {
        match self.seeds[s] {
            Seed::Empty => "empty".to_string(),
            Seed::Batch(n) => format!("batch of {n} minted to A"),
            Seed::CounterAt(n) => format!("id counter at {n}, no token left"),
        }
    }

    fn fresh(&self, seed: usize) -> (Inst, Model) {
        let e = envx::mk_env(100);
        let u = [Address::generate(&e), Address::generate(&e), Address::generate(&e)];
        let minter = Address::generate(&e);
        let uri = SString::from_str(&e, "https://nft.example/");
        let name = SString::from_str(&e, "n");
        let sym = SString::from_str(&e, "s");
        let c = match self.flavour {
            Flavour::BaseSeq => e.register(base_example::ExampleContract, (uri, name, sym, minter)),
            Flavour::EnumSeq => e.register(enumerable_example::ExampleContract, (uri, name, sym, minter)),
            Flavour::Consecutive => e.register(consecutive_example::ExampleContract, (uri, name, sym, minter)),
            Flavour::BaseExplicit => e.register(nft_wrap::BaseNft, (uri, name, sym)),
            Flavour::EnumExplicit => e.register(nft_wrap::EnumNft, (uri, name, sym)),
        };
        let inst = Inst { e, c, u };
        let e = &inst.e;
        for a in 0..N {
            if a != OPERATOR {
                let args: SVec<Val> = (inst.u[a].clone(), inst.u[OPERATOR].clone(), envx::now(e) + 1000).into_val(e);
                call_mocked(e, &inst.c, "approve_for_all", args).expect("seed approve_for_all");
            }
        }
        let mut m = Model {
            batches: vec![],
            changed: BTreeMap::new(),
            next_id: 0,
            touched: BTreeSet::new(),
            approved: BTreeMap::new(),
            seed_refused: false,
            depleted: false,
        };
        match self.seeds[seed] {
            Seed::Empty => {}
            Seed::Batch(n) => {
                let op = Op::BatchMint { to: 0, n };
                if self.exec(&inst, &op).is_ok() {
                    self.accept(&mut m, &op).expect("seed batch");
                } else {
                    m.seed_refused = true;
                }
            }
            Seed::CounterAt(n) => {
                e.as_contract(&inst.c, || {
                    stellar_tokens::non_fungible::sequential::increment_token_id(e, n);
                });
                m.next_id = n;
            }
        }
        (inst, m)
    }

    fn ops(&self, _i: &Inst, m: &Model, _d: usize) -> Vec<Op> {
        let mut v = vec![];
        match self.flavour {
            Flavour::BaseSeq | Flavour::EnumSeq => {
                for &to in &self.mint_to {
                    v.push(Op::Mint { to });
                }
            }
            Flavour::Consecutive => {
                for &n in &self.batch_sizes {
                    for &to in &self.mint_to {
                        v.push(Op::BatchMint { to, n });
                    }
                }
            }
            Flavour::BaseExplicit | Flavour::EnumExplicit => {
                for id in UNIVERSE {
                    if m.owner(id).is_none() {
                        for &to in &self.mint_to {
                            v.push(Op::MintId { to, id });
                        }
                    }
                }
            }
        }
        let ids = self.op_ids(m);
        let approve_ids: Vec<u32> = if self.rich {
            let ex: Vec<u32> = ids.iter().copied().filter(|id| m.owner(*id).is_some()).collect();
            dedup(ex.first().into_iter().chain(ex.last()).copied().collect())
        } else {
            vec![]
        };
        for id in ids {
            match m.owner(id) {
                Some(o) => {
                    let (n, p) = ((o + 1) % N, (o + 2) % N);
                    v.push(Op::Transfer { from: o, to: o, id, by: By::Owner });
                    v.push(Op::Transfer { from: o, to: n, id, by: By::Owner });
                    if self.rich {
                        v.push(Op::Transfer { from: o, to: p, id, by: By::Owner });
                    }
                    v.push(Op::Transfer { from: n, to: o, id, by: By::NonOwner });
                    v.push(Op::TransferFrom { sp: OPERATOR, from: o, to: n, id });
                    if !self.lean {
                        v.push(Op::TransferFrom { sp: OPERATOR, from: o, to: o, id });
                    }
                    v.push(Op::Burn { from: o, id, by: By::Owner });
                    v.push(Op::Burn { from: n, id, by: By::NonOwner });
                    if !self.lean {
                        v.push(Op::BurnFrom { sp: OPERATOR, from: o, id });
                    }
                    // token-level approval: to the account that is neither owner nor operator
                    let x = (0..N).find(|a| *a != o && *a != OPERATOR).unwrap_or(0);
                    if approve_ids.contains(&id) && m.approved.get(&id) != Some(&x) {
                        v.push(Op::Approve { owner: o, spender: x, id });
                    }
                    if let Some(&s) = m.approved.get(&id) {
                        let to = (0..N).find(|a| *a != o && *a != s).unwrap_or(0);
                        v.push(Op::TransferFrom { sp: s, from: o, to, id });
                        v.push(Op::BurnFrom { sp: s, from: o, id });
                    }
                }
                None => {
                    v.push(Op::Transfer { from: 0, to: 1, id, by: By::NoToken });
                    v.push(Op::Burn { from: 0, id, by: By::NoToken });
                }
            }
        }
        v.push(Op::IdleProbe);
        v
    }

    fn kind(&self, op: &Op) -> String {
        let by = |b: &By| match b {
            By::Owner => "",
            By::NonOwner => ".by-non-owner",
            By::NoToken => ".nonexistent-token",
        };
        match op {
            Op::Mint { .. } => "mint.sequential".to_string(),
            Op::MintId { .. } => "mint.explicit-id".to_string(),
            Op::BatchMint { .. } => "batch_mint".to_string(),
            Op::Transfer { from, to, by: b, .. } => {
                if *b == By::Owner {
                    format!("transfer.{}", if from == to { "self" } else { "other" })
                } else {
                    format!("transfer{}", by(b))
                }
            }
            Op::Approve { .. } => "approve".to_string(),
            Op::TransferFrom { sp, from, to, .. } => {
                format!("transfer_from.{}{}", if from == to { "self" } else { "other" }, if *sp == OPERATOR { "" } else { ".token-approval" })
            }
            Op::Burn { by: b, .. } => format!("burn{}", by(b)),
            Op::BurnFrom { sp, .. } => format!("burn_from{}", if *sp == OPERATOR { "" } else { ".token-approval" }),
            Op::IdleProbe => "idle-probe".to_string(),
        }
    }

    fn apply(&self, i: &mut Inst, op: &Op) {
        let _ = self.exec(i, op);
    }

    fn step(&self, i: &mut Inst, m: &mut Model, op: &Op, cx: &mut StepCtx<Self>) -> Result<bool, Violation> {
        ensure!(
            !m.seed_refused,
            "batch-within-1..=32000-refused",
            "the seed batch ({}) was refused; batches of 1..=32000 tokens are part of the property",
            self.seed_name(cx.seed)
        );
        if matches!(op, Op::IdleProbe) {
            let copy = cx.rebuild();
            self.idle_probe(&copy, m, cx.stats)?;
            return Ok(false);
        }
        if self.exec(i, op).is_err() {
            // informational: operations the model would have allowed
            let legit = match op {
                Op::Transfer { from, id, .. } | Op::TransferFrom { from, id, .. } | Op::Burn { from, id, .. } | Op::BurnFrom { from, id, .. } => m.owner(*id) == Some(*from),
                Op::Mint { .. } | Op::BatchMint { .. } => m.next_id < u32::MAX - 32_000,
                _ => true,
            };
            if legit {
                cx.stats.count("refusals-the-model-would-have-allowed", 1);
            }
            return Ok(false);
        }
        self.accept(m, op)?;
        self.compare(i, m, &format!("{op:?}"), cx.stats)?;
        Ok(true)
    }

    fn key(&self, i: &Inst) -> [u8; 32] {
        envx::storage_digest(&i.e, false)
    }

    fn model_digest(&self, m: &Model) -> u64 {
        vh::engine::dig(&(m.runs(), m.next_id))
    }

    /// Batch structure decides the proposed ids, the touched set decides the queried ids of the
    /// large seeds; storage does not always determine them (a burned marker is gone).
    fn model_key(&self, m: &Model) -> u64 {
        let edges: Vec<(u32, u32)> = m.batches.iter().map(|b| (b.first, b.last)).collect();
        if self.full_scan(m) || self.explicit() {
            vh::engine::dig(&edges)
        } else {
            vh::engine::dig(&(&edges, &m.touched))
        }
    }
}

fn main() {
    main_with(
        "C10",
        "model_checking",
        "level-BFS over histories of mint (sequential / explicit ids {0,1,7,u32::MAX} incl. re-mint of a burned explicit id / batch_mint n in {1,2,3,5}) / transfer (to self, to another account, by a non-owner, of a non-existent id) / transfer_from and burn_from (by the approved-for-all operator; thorough: also after a token-level approve) / burn, on the first, second, middle, last-1, last id and the item(32)- and bucket(3200)-edge ids of every batch, 3 accounts, on the real nft-sequential-minting / nft-enumerable / nft-consecutive examples and Base::mint / Enumerable::non_sequential_mint wrappers; depth 6 (base, enumerable sequential), 5 (enumerable explicit ids), 4 (consecutive; thorough: + depth 5 with a lean alphabet); seeds: sequential id counter at u32::MAX-2, consecutive initial batch of 31/32/33 (depth 3) and, thorough, 3199/3200/3201 (depth 3) and 32000 (depth 2); after every accepted step: owner_of and token_uri for every id in 0..next_id+2 (more than 400 ids issued: every id within 2 of a touched id, a batch edge, the adjacent multiples of 32 and every multiple of 3200), balance of every account = ids owned, enumerable: total_supply + global and per-owner lists as exact sets with every index once and the index past the end refused; idle probe in every expanded state: on a rebuilt copy 600000 ledgers pass without any call, all getters are compared again, then one sequential / batch mint must issue a never issued id (all getters compared once more); non-trivial = distinct storage state reached through >=1 accepted call",
        |tier: Tier, r: &mut Runner| {
            let th = tier == Tier::Thorough;
            let world = |flavour: Flavour, name: &'static str, seeds: Vec<Seed>| Nft {
                flavour,
                thorough: th,
                name,
                seeds,
                mint_to: if th { vec![0, 1, 2] } else { vec![0, 1] },
                batch_sizes: vec![1, 2, 3, 5],
                rich: th,
                lean: false,
            };
            let counter_seeds = || vec![Seed::Empty, Seed::CounterAt(u32::MAX - 2)];
            // small id spaces: every id queried after every step
            r.world(&world(Flavour::BaseSeq, "nft-base-sequential", counter_seeds()), &Bounds::new(6, tier.pick(2, 25)));
            r.world(&world(Flavour::BaseExplicit, "nft-base-explicit-ids", vec![Seed::Empty]), &Bounds::new(6, tier.pick(2, 15)));
            r.world(&world(Flavour::EnumSeq, "nft-enumerable-sequential", counter_seeds()), &Bounds::new(6, tier.pick(4, 50)));
            r.world(&world(Flavour::EnumExplicit, "nft-enumerable-explicit-ids", vec![Seed::Empty]), &Bounds::new(5, tier.pick(6, 55)));
            r.world(&world(Flavour::Consecutive, "nft-consecutive", vec![Seed::Empty]), &Bounds::new(4, tier.pick(14, 75)));
            // seeds whose initial batch straddles an item (32) / bucket (3200) edge or is maximal
            let seeded = |name: &'static str, sizes: Vec<u32>, mint_to: Vec<usize>| {
                let mut w = world(Flavour::Consecutive, name, sizes.into_iter().map(Seed::Batch).collect());
                w.mint_to = mint_to;
                w.rich = false;
                w
            };
            r.world(&seeded("nft-consecutive-item-edge", vec![31, 32, 33], tier.pick(vec![1], vec![0, 1])), &Bounds::new(3, tier.pick(10, 30)));
            {
                // a maximal batch that does NOT start on a bucket boundary (spans 11 buckets): a
                // small or bucket-edge first batch, then batch_mint(32000)
                let mut w = seeded("nft-consecutive-unaligned-max-batch", vec![100, 3199, 1], vec![1]);
                w.batch_sizes = vec![32000];
                r.world(&w, &Bounds::new(tier.pick(1, 2), tier.pick(6, 40)));
            }
            if !th {
                // quick: one batch that just crosses the first bucket edge (ids 0..=3200), two steps
                r.world(&seeded("nft-consecutive-bucket-edge", vec![3201], vec![1]), &Bounds::new(2, 8));
            }
            if th {
                r.world(&seeded("nft-consecutive-bucket-edge", vec![3199, 3200, 3201], vec![0, 1]), &Bounds::new(3, 40));
                r.world(&seeded("nft-consecutive-max-batch", vec![32000], vec![0, 1]), &Bounds::new(2, 10));
            }
            if th {
                // the most expensive world last
                let mut deep = world(Flavour::Consecutive, "nft-consecutive-deep", vec![Seed::Empty]);
                deep.mint_to = vec![0, 1];
                deep.rich = false;
                deep.lean = true;
                r.world(&deep, &Bounds::new(5, 220));
            }
            if let Some(rep) = r.report() {
                let mut ok = vec![
                    "mint.sequential",
                    "mint.explicit-id",
                    "batch_mint",
                    "transfer.self",
                    "transfer.other",
                    "transfer_from.self",
                    "transfer_from.other",
                    "burn",
                    "burn_from",
                ];
                if th {
                    ok.extend(["approve", "transfer_from.other.token-approval", "burn_from.token-approval"]);
                }
                rep.require(&ok, &["transfer.by-non-owner", "transfer.nonexistent-token", "burn.by-non-owner", "burn.nonexistent-token"]);
                rep.require_counter(&["owner_of-queries", "balance-comparisons", "enumeration-entries-compared"]);
                rep.require_counter(&[
                    "idle-probes",
                    "mints-after-long-idle",
                    "owner_of-queries-after-long-idle",
                    "balance-comparisons-after-long-idle",
                    "enumeration-entries-compared-after-long-idle",
                ]);
            }
        },
    );
}
