//! C06 — privileged functions obey the role, admin and owner hierarchy; the queryable
//! membership is exact.
//!
//! Worlds (all on the real code of /repo's working tree, every call under ENFORCING
//! authorization signed by exactly one chosen account or by nobody):
//!  * `ac-wrapper*`: the default `AccessControl` trait bodies behind a thin wrapper
//!    (`shared/ac_wrap.rs`), roles {r1,r2,r3}, accounts {adm,a,b,c}; grant / revoke /
//!    renounce_role / set_role_admin (chains, cycles, self-admin) / one admin hand-over /
//!    renounce_admin, with callers of every privilege class and signer in {caller, other, nobody}.
//!    Seeds: empty; admin chain; cycle with the admin renounced; crowded roles; MAX_ROLES-1 roles.
//!  * `nft-access-control-macros`: the example's macro-guarded entry points (#[only_admin],
//!    #[only_role], #[has_role], #[has_any_role], #[only_any_role]) as a truth table
//!    function x caller's role set x signer.
//!  * `ownable-macros`: `#[only_owner] increment` before / after transfer and renounce.
//!
//! Reference model (written from the property statement): set of (account, role) pairs, role ->
//! admin-role map, admin option. Direction of the oracles: "only if" (a refusal is always
//! acceptable); the vacuity counters make sure every gate was seen open and closed.

use soroban_sdk::testutils::Address as _;
use soroban_sdk::xdr::ScVal;
use soroban_sdk::{Address, Env, IntoVal, String as SString, Symbol, TryFromVal, Val, Vec as SVec};
use std::collections::BTreeSet;
use stellar_access::access_control::MAX_ROLES;
use vh::auth::{self, call_mocked, call_signed, view};
use vh::cli::{main_with, Runner};
use vh::engine::{dig, Bounds, StepCtx, Violation, World};
use vh::ensure;
use vh::envx;
use vh::report::Tier;

#[path = "../shared/ac_wrap.rs"]
mod ac_wrap;
#[path = "/repo/examples/nft-access-control/src/contract.rs"]
mod nft_ac_example;
#[path = "/repo/examples/ownable/src/contract.rs"]
mod ownable_example;

// ------------------------------------------------------------------------------------------
// universe

#[derive(Clone, Copy, Debug, PartialEq, Eq, PartialOrd, Ord, Hash)]
enum Who {
    Adm,
    A,
    B,
    C,
    Nobody,
}
const ACCTS: [Who; 4] = [Who::Adm, Who::A, Who::B, Who::C];
const ACC_NAMES: [&str; 4] = ["adm", "a", "b", "c"];

#[derive(Clone, Copy, Debug, PartialEq, Eq, PartialOrd, Ord, Hash)]
enum Role {
    R1,
    R2,
    R3,
}
const ROLES: [Role; 3] = [Role::R1, Role::R2, Role::R3];
const ROLE_NAMES: [&str; 3] = ["r1", "r2", "r3"];
const UNKNOWN_ROLE: &str = "never_granted";
/// live_until of the single admin hand-over offer (no ledger advance in these worlds)
const OFFER_TTL: u32 = 1000;

fn viol(oracle: &str, detail: String) -> Violation {
    Violation::new(oracle, detail)
}

fn signer_class(caller: Who, signer: Who) -> &'static str {
    if signer == Who::Nobody {
        "nobody"
    } else if signer == caller {
        "self"
    } else {
        "other"
    }
}

/// ledgers that pass in an idle probe: beyond every temporary-entry lifetime and every TTL
/// extension the access library performs (the largest is ROLE_EXTEND_AMOUNT = 90 days = 1555200
/// ledgers, applied on every role read; owner / everything else: 30 days = 518400), below the
/// persistent TTL of `envx::mk_env` (3000000). With 600000 an entry that was read once through a
/// role getter would outlive the probe even if it were kept in temporary storage.
const IDLE: u32 = 2_000_000;

/// A disagreement found after the idle period: nothing was called in between, so whatever differs
/// from the model was lost (or appeared) through the passage of time alone.
fn idle_viol(v: Violation) -> Violation {
    Violation::new("state-survives-idle", format!("after {IDLE} ledgers without any call [{}] {}", v.oracle, v.detail))
}

fn okstr(ok: bool) -> &'static str {
    if ok {
        "ok"
    } else {
        "refused"
    }
}

// ------------------------------------------------------------------------------------------
// membership observation shared by the AccessControl worlds

struct Expect {
    acc_names: Vec<&'static str>,
    role_names: Vec<&'static str>,
    /// [account][role]
    holds: Vec<Vec<bool>>,
    role_admin: Vec<Option<usize>>,
    admin: Option<usize>,
    /// roles held by an account outside the universe (MAX_ROLES seed)
    fillers: Vec<String>,
}

fn getter(e: &Env, c: &Address, f: &str, args: SVec<Val>) -> Result<Val, Violation> {
    view(e, c, f, args).map_err(|x| viol("getter", format!("{f} failed: {x:?}")))
}

/// Every query of the AccessControl trait over the whole universe against the expectation.
/// Returns the number of getter calls made.
fn observe_ac(e: &Env, c: &Address, accts: &[Address], x: &Expect) -> Result<u64, Violation> {
    let na = accts.len();
    let nr = x.role_names.len();
    let mut n = 0u64;
    let sym = |r: usize| Symbol::new(e, x.role_names[r]);
    let dec = |what: &str| viol("getter", format!("{what}: cannot decode the returned value"));

    // has_role for every pair
    let mut idx: Vec<Vec<Option<u32>>> = vec![vec![None; nr]; na];
    for a in 0..na {
        for r in 0..nr {
            let v = getter(e, c, "has_role", (accts[a].clone(), sym(r)).into_val(e))?;
            n += 1;
            let o = Option::<u32>::try_from_val(e, &v).map_err(|_| dec("has_role"))?;
            ensure!(
                o.is_some() == x.holds[a][r],
                "membership",
                "has_role({}, {}) = {:?} but the pair is {} the set of pairs granted and not since revoked",
                x.acc_names[a],
                x.role_names[r],
                o,
                if x.holds[a][r] { "in" } else { "not in" }
            );
            idx[a][r] = o;
        }
    }
    for r in 0..nr {
        let v = getter(e, c, "get_role_member_count", (sym(r),).into_val(e))?;
        n += 1;
        let count = u32::try_from_val(e, &v).map_err(|_| dec("get_role_member_count"))?;
        let want = (0..na).filter(|a| x.holds[*a][r]).count() as u32;
        ensure!(count == want, "member-count", "get_role_member_count({}) = {} but {} accounts hold the role", x.role_names[r], count, want);
        let mut seen: BTreeSet<usize> = BTreeSet::new();
        for k in 0..count {
            let got = view(e, c, "get_role_member", (sym(r), k).into_val(e));
            n += 1;
            let v = match got {
                Ok(v) => v,
                Err(err) => {
                    return Err(viol(
                        "enumeration-gap",
                        format!("get_role_member({}, {}) refused ({:?}) although the member count is {}", x.role_names[r], k, err, count),
                    ))
                }
            };
            let ad = Address::try_from_val(e, &v).map_err(|_| dec("get_role_member"))?;
            let Some(a) = accts.iter().position(|y| *y == ad) else {
                return Err(viol("enumeration", format!("get_role_member({}, {}) is an address outside the universe", x.role_names[r], k)));
            };
            ensure!(x.holds[a][r], "enumeration", "get_role_member({}, {}) = {} who does not hold the role", x.role_names[r], k, x.acc_names[a]);
            ensure!(
                idx[a][r] == Some(k),
                "index-consistency",
                "get_role_member({}, {}) = {} but has_role({}, {}) = {:?}",
                x.role_names[r],
                k,
                x.acc_names[a],
                x.acc_names[a],
                x.role_names[r],
                idx[a][r]
            );
            ensure!(seen.insert(a), "enumeration", "{} is listed twice among the members of {}", x.acc_names[a], x.role_names[r]);
        }
        ensure!(seen.len() as u32 == want, "enumeration", "indices 0..{} of {} list {} of {} members", count, x.role_names[r], seen.len(), want);
        for k in [count, count.saturating_add(1), u32::MAX] {
            n += 1;
            ensure!(
                view(e, c, "get_role_member", (sym(r), k).into_val(e)).is_err(),
                "out-of-range-index",
                "get_role_member({}, {}) answered although the role has {} members",
                x.role_names[r],
                k,
                count
            );
        }
        let v = getter(e, c, "get_role_admin", (sym(r),).into_val(e))?;
        n += 1;
        let o = Option::<Symbol>::try_from_val(e, &v).map_err(|_| dec("get_role_admin"))?;
        let want_admin = x.role_admin[r].map(&sym);
        ensure!(o == want_admin, "role-admin", "get_role_admin({}) = {:?}, model {:?}", x.role_names[r], o, x.role_admin[r].map(|k| x.role_names[k]));
    }
    // a role nobody was ever granted
    {
        let u = Symbol::new(e, UNKNOWN_ROLE);
        let v = getter(e, c, "get_role_member_count", (u.clone(),).into_val(e))?;
        let count = u32::try_from_val(e, &v).map_err(|_| dec("get_role_member_count"))?;
        ensure!(count == 0, "member-count", "a role that was never granted reports {} members", count);
        ensure!(view(e, c, "get_role_member", (u.clone(), 0u32).into_val(e)).is_err(), "out-of-range-index", "get_role_member of a never granted role answered");
        let v = getter(e, c, "has_role", (accts[0].clone(), u).into_val(e))?;
        let o = Option::<u32>::try_from_val(e, &v).map_err(|_| dec("has_role"))?;
        ensure!(o.is_none(), "membership", "has_role({}, never granted role) = {:?}", x.acc_names[0], o);
        n += 3;
    }
    // existing roles: exactly the roles with at least one member, as a set, no duplicates
    {
        let v = getter(e, c, "get_existing_roles", SVec::new(e))?;
        n += 1;
        let sv = ScVal::try_from_val(e, &v).map_err(|_| dec("get_existing_roles"))?;
        let ScVal::Vec(Some(items)) = sv else { return Err(dec("get_existing_roles")) };
        let mut got: Vec<String> = vec![];
        for it in items.iter() {
            let ScVal::Symbol(s) = it else { return Err(dec("get_existing_roles")) };
            got.push(s.0.to_utf8_string_lossy());
        }
        let got_set: BTreeSet<String> = got.iter().cloned().collect();
        ensure!(got_set.len() == got.len(), "existing-roles", "get_existing_roles lists a role twice: {:?}", short(&got));
        let mut want: BTreeSet<String> = x.fillers.iter().cloned().collect();
        for r in 0..nr {
            if (0..na).any(|a| x.holds[a][r]) {
                want.insert(x.role_names[r].to_string());
            }
        }
        ensure!(
            got_set == want,
            "existing-roles",
            "get_existing_roles = {:?} but the roles with at least one member are {:?}",
            short(&got),
            short(&want.iter().cloned().collect::<Vec<_>>())
        );
        ensure!(got.len() as u32 <= MAX_ROLES, "max-roles", "{} roles exist simultaneously, documented maximum is {}", got.len(), MAX_ROLES);
    }
    let v = getter(e, c, "get_admin", SVec::new(e))?;
    n += 1;
    let o = Option::<Address>::try_from_val(e, &v).map_err(|_| dec("get_admin"))?;
    let got_admin = match &o {
        None => None,
        Some(ad) => match accts.iter().position(|y| y == ad) {
            Some(k) => Some(k),
            None => return Err(viol("admin", "get_admin is an address outside the universe".into())),
        },
    };
    ensure!(got_admin == x.admin, "admin", "get_admin = {:?}, model {:?}", got_admin.map(|k| x.acc_names[k]), x.admin.map(|k| x.acc_names[k]));
    Ok(n)
}

/// Universe roles only (filler roles of the MAX_ROLES seed are elided from messages).
fn short(v: &[String]) -> Vec<String> {
    let fill = v.iter().filter(|s| s.starts_with("fill")).count();
    let mut out: Vec<String> = v.iter().filter(|s| !s.starts_with("fill")).cloned().collect();
    if fill > 0 {
        out.push(format!("+{fill} filler roles"));
    }
    out
}

// ------------------------------------------------------------------------------------------
// world 1: AccessControl behind the wrapper

#[derive(Clone, Debug, PartialEq, Eq)]
enum Op {
    Grant { account: Who, role: Role, caller: Who, signer: Who },
    Revoke { account: Who, role: Role, caller: Who, signer: Who },
    Renounce { role: Role, caller: Who, signer: Who },
    SetRoleAdmin { role: Role, admin_role: Role, signer: Who },
    TransferAdmin { new: Who, signer: Who },
    AcceptAdmin { signer: Who },
    RenounceAdmin { signer: Who },
    /// wrapper: `#[only_admin]` + `remove_role_admin_no_auth`
    RemoveRoleAdmin { role: Role, signer: Who },
    /// wrapper: `#[only_admin]` + `remove_role_accounts_count_no_auth` (leaf probe)
    RemoveCount { role: Role, signer: Who },
    /// no call at all: on a rebuilt copy of the state `IDLE` ledgers pass without any invocation
    /// (beyond the lifetime of every temporary entry and of every TTL extension the library
    /// performs) and the whole membership observation is repeated against the unchanged model
    IdleProbe,
}

#[derive(Clone, Debug, PartialEq, Eq, Hash)]
struct Model {
    members: BTreeSet<(Who, Role)>,
    role_admin: [Option<Role>; 3],
    admin: Option<Who>,
    /// renounce_admin succeeded at some point: nobody may pass an admin check ever again
    renounced: bool,
    pending: Option<Who>,
    /// accounts that appeared in an accepted call (symmetry reduction: untouched accounts are
    /// interchangeable, only the first one is used)
    touched: [bool; 4],
    /// the same for roles (a role is touched once it was named in an accepted call)
    rtouched: [bool; 3],
    fillers: u32,
}

impl Model {
    fn holds(&self, w: Who, r: Role) -> bool {
        self.members.contains(&(w, r))
    }
    fn holds_any(&self, w: Who) -> bool {
        ROLES.iter().any(|r| self.holds(w, *r))
    }
    fn is_admin(&self, w: Who) -> bool {
        !self.renounced && w != Who::Nobody && self.admin == Some(w)
    }
    fn holds_admin_role_of(&self, w: Who, r: Role) -> bool {
        self.role_admin[r as usize].is_some_and(|ar| self.holds(w, ar))
    }
    /// the statement's authority rule for grant / revoke of `r`
    fn privileged(&self, w: Who, r: Role) -> bool {
        self.is_admin(w) || self.holds_admin_role_of(w, r)
    }
    fn touch(&mut self, w: Who) {
        if (w as usize) < 4 {
            self.touched[w as usize] = true;
        }
    }
    /// effect of an ACCEPTED operation, as the statement prescribes it
    fn apply(&mut self, op: &Op) {
        match op {
            Op::Grant { account, role, caller, .. } => {
                self.members.insert((*account, *role));
                self.touch(*account);
                self.touch(*caller);
                self.rtouched[*role as usize] = true;
            }
            Op::Revoke { account, role, caller, .. } => {
                self.members.remove(&(*account, *role));
                self.touch(*account);
                self.touch(*caller);
            }
            Op::Renounce { role, caller, .. } => {
                self.members.remove(&(*caller, *role));
                self.touch(*caller);
            }
            Op::SetRoleAdmin { role, admin_role, .. } => {
                self.role_admin[*role as usize] = Some(*admin_role);
                self.rtouched[*role as usize] = true;
                self.rtouched[*admin_role as usize] = true;
            }
            Op::TransferAdmin { new, .. } => {
                self.pending = Some(*new);
                self.touch(*new);
            }
            Op::AcceptAdmin { signer } => {
                self.admin = Some(*signer);
                self.pending = None;
                self.touch(*signer);
            }
            Op::RenounceAdmin { .. } => {
                self.admin = None;
                self.renounced = true;
            }
            Op::RemoveRoleAdmin { role, .. } => self.role_admin[*role as usize] = None,
            // removes a bookkeeping entry only: the queryable membership stays what it was
            Op::RemoveCount { .. } => {}
            Op::IdleProbe => {}
        }
    }
}

#[derive(Clone, Copy, Debug, PartialEq, Eq)]
enum Variant {
    Empty,
    Seeded,
    MaxRoles,
}

struct Ac {
    variant: Variant,
}

struct Inst {
    e: Env,
    c: Address,
    u: [Address; 4],
}

impl Inst {
    fn a(&self, w: Who) -> Address {
        self.u[w as usize].clone()
    }
    fn signers(&self, w: Who) -> Vec<Address> {
        if w == Who::Nobody {
            vec![]
        } else {
            vec![self.a(w)]
        }
    }
}

fn filler_names(n: u32) -> Vec<String> {
    (0..n).map(|k| format!("fill{k:04}")).collect()
}

impl Ac {
    fn seed_ops(&self, seed: usize) -> (&'static str, Vec<Op>) {
        use Role::*;
        use Who::*;
        let g = |account, role, caller| Op::Grant { account, role, caller, signer: caller };
        let sra = |role, admin_role| Op::SetRoleAdmin { role, admin_role, signer: Adm };
        match (self.variant, seed) {
            (Variant::Seeded, 0) => (
                "admin chain r1<-r2<-r3: a holds r3, b holds r2 (granted by a)",
                vec![sra(R1, R2), sra(R2, R3), g(A, R3, Adm), g(B, R2, A)],
            ),
            (Variant::Seeded, 1) => (
                "cycle r1<->r2, r3 self-administered, a in r1, b in r2, c in r3, admin renounced",
                vec![sra(R1, R2), sra(R2, R1), sra(R3, R3), g(A, R1, Adm), g(B, R2, Adm), g(C, R3, Adm), Op::RenounceAdmin { signer: Adm }],
            ),
            (Variant::Seeded, 2) => (
                "crowded: r1 = [a,b,c,adm], r2 = [c,b], r1 administered by r2",
                vec![g(A, R1, Adm), g(B, R1, Adm), g(C, R1, Adm), g(Adm, R1, Adm), g(C, R2, Adm), g(B, R2, Adm), sra(R1, R2)],
            ),
            (Variant::MaxRoles, _) => ("MAX_ROLES-1 roles already exist", vec![]),
            _ => ("empty", vec![]),
        }
    }

    fn call(&self, i: &Inst, op: &Op) -> (&'static str, SVec<Val>, Who) {
        let e = &i.e;
        let sym = |r: Role| Symbol::new(e, ROLE_NAMES[r as usize]);
        match op {
            Op::Grant { account, role, caller, signer } => ("grant_role", (i.a(*account), sym(*role), i.a(*caller)).into_val(e), *signer),
            Op::Revoke { account, role, caller, signer } => ("revoke_role", (i.a(*account), sym(*role), i.a(*caller)).into_val(e), *signer),
            Op::Renounce { role, caller, signer } => ("renounce_role", (sym(*role), i.a(*caller)).into_val(e), *signer),
            Op::SetRoleAdmin { role, admin_role, signer } => ("set_role_admin", (sym(*role), sym(*admin_role)).into_val(e), *signer),
            Op::TransferAdmin { new, signer } => ("transfer_admin_role", (i.a(*new), envx::now(e) + OFFER_TTL).into_val(e), *signer),
            Op::AcceptAdmin { signer } => ("accept_admin_transfer", SVec::new(e), *signer),
            Op::RenounceAdmin { signer } => ("renounce_admin", SVec::new(e), *signer),
            Op::RemoveRoleAdmin { role, signer } => ("remove_role_admin", (sym(*role),).into_val(e), *signer),
            Op::RemoveCount { role, signer } => ("remove_role_count", (sym(*role),).into_val(e), *signer),
            Op::IdleProbe => unreachable!("the idle probe is not a contract call"),
        }
    }

    fn exec(&self, i: &Inst, op: &Op) -> bool {
        if matches!(op, Op::IdleProbe) {
            return false;
        }
        let (f, args, signer) = self.call(i, op);
        call_signed(&i.e, &i.c, f, args, &i.signers(signer)).is_ok()
    }

    fn observe(&self, i: &Inst, m: &Model) -> Result<u64, Violation> {
        let x = Expect {
            acc_names: ACC_NAMES.to_vec(),
            role_names: ROLE_NAMES.to_vec(),
            holds: ACCTS.iter().map(|w| ROLES.iter().map(|r| m.holds(*w, *r)).collect()).collect(),
            role_admin: m.role_admin.iter().map(|o| o.map(|r| r as usize)).collect(),
            admin: m.admin.map(|w| w as usize),
            fillers: filler_names(m.fillers),
        };
        observe_ac(&i.e, &i.c, &i.u, &x)
    }
}

impl World for Ac {
    type Op = Op;
    type Model = Model;
    type Inst = Inst;

    fn name(&self) -> String {
        match self.variant {
            Variant::Empty => "ac-wrapper".into(),
            Variant::Seeded => "ac-wrapper-seeded".into(),
            Variant::MaxRoles => "ac-wrapper-maxroles".into(),
        }
    }

    fn seeds(&self) -> usize {
        match self.variant {
            Variant::Seeded => 3,
            _ => 1,
        }
    }

    fn seed_name(&self, seed: usize) -> String {
        self.seed_ops(seed).0.to_string()
    }

    fn fresh(&self, seed: usize) -> (Inst, Model) {
        let e = envx::mk_env(100);
        let u = [Address::generate(&e), Address::generate(&e), Address::generate(&e), Address::generate(&e)];
        let z = Address::generate(&e);
        for x in u.iter().chain([&z]) {
            auth::back(&e, x);
        }
        let nfill = if self.variant == Variant::MaxRoles { MAX_ROLES - 1 } else { 0 };
        let mut fillers: SVec<Symbol> = SVec::new(&e);
        for s in filler_names(nfill) {
            fillers.push_back(Symbol::new(&e, &s));
        }
        let c = e.register(ac_wrap::AcWrap, (u[0].clone(), z, fillers));
        let i = Inst { e, c, u };
        let mut m = Model {
            members: BTreeSet::new(),
            role_admin: [None; 3],
            admin: Some(Who::Adm),
            renounced: false,
            pending: None,
            touched: [true, false, false, false],
            rtouched: [false; 3],
            fillers: nfill,
        };
        for op in self.seed_ops(seed).1 {
            // a refused seed operation is not a verdict of this (safety) property: the seed is then
            // simply the state reached without it, and the model follows the implementation
            if self.exec(&i, &op) {
                m.apply(&op);
            }
        }
        (i, m)
    }

    fn ops(&self, _i: &Inst, m: &Model, _d: usize) -> Vec<Op> {
        let lean = self.variant == Variant::MaxRoles;
        let first_untouched = [Who::A, Who::B, Who::C].into_iter().find(|w| !m.touched[*w as usize]);
        // eligible accounts, plain accounts first
        let order: Vec<Who> = [Who::A, Who::B, Who::C, Who::Adm]
            .into_iter()
            .filter(|w| m.touched[*w as usize] || Some(*w) == first_untouched)
            .filter(|w| !lean || matches!(w, Who::A | Who::B))
            .collect();
        // the same reduction for roles: touched roles plus the first untouched one
        let untouched_roles: Vec<Role> = ROLES.into_iter().filter(|r| !m.rtouched[*r as usize]).collect();
        let roles_e: Vec<Role> = ROLES.into_iter().filter(|r| m.rtouched[*r as usize] || Some(r) == untouched_roles.first()).collect();
        let cur_admin: Option<Who> = if m.renounced { None } else { m.admin };
        // the "wrong" account that signs in place of `w`: the admin if there is one, otherwise
        // (or for the admin itself) a role holder, otherwise the first other account
        let other = |w: Who| -> Who {
            match cur_admin {
                Some(ad) if ad != w => ad,
                _ => order
                    .iter()
                    .copied()
                    .find(|x| *x != w && m.holds_any(*x))
                    .or(order.iter().copied().find(|x| *x != w))
                    .unwrap_or(Who::Nobody),
            }
        };
        let mut v: Vec<Op> = vec![];
        for r in roles_e.iter().copied() {
            let mut privs: Vec<Who> = vec![];
            if let Some(ad) = cur_admin {
                privs.push(ad);
            }
            if let Some(h) = order.iter().copied().find(|w| Some(*w) != cur_admin && m.holds_admin_role_of(*w, r)) {
                privs.push(h);
            }
            // unprivileged representatives: member of r itself, member of another role, stranger
            let mut unprivs: Vec<Who> = vec![];
            let preds: [&dyn Fn(Who) -> bool; 3] = [&|w| m.holds(w, r), &|w| !m.holds(w, r) && m.holds_any(w), &|w| !m.holds_any(w)];
            for p in preds {
                if let Some(w) = order.iter().copied().find(|w| !m.privileged(*w, r) && p(*w)) {
                    if !unprivs.contains(&w) {
                        unprivs.push(w);
                    }
                }
            }
            let targets: Vec<Who> = order.iter().copied().filter(|w| !m.holds(*w, r)).collect();
            let members: Vec<Who> = ACCTS.iter().copied().filter(|w| m.holds(*w, r)).collect();
            let mk = |grant: bool, account: Who, caller: Who, signer: Who| {
                if grant {
                    Op::Grant { account, role: r, caller, signer }
                } else {
                    Op::Revoke { account, role: r, caller, signer }
                }
            };
            for (grant, list) in [(true, &targets), (false, &members)] {
                for (k, t) in list.iter().enumerate() {
                    for p in &privs {
                        v.push(mk(grant, *t, *p, *p));
                        if k == 0 && !lean {
                            v.push(mk(grant, *t, *p, Who::Nobody));
                            v.push(mk(grant, *t, *p, other(*p)));
                        }
                    }
                    if lean {
                        continue;
                    }
                    if k == 0 {
                        for u in &unprivs {
                            v.push(mk(grant, *t, *u, *u));
                            if let Some(ad) = cur_admin {
                                v.push(mk(grant, *t, *u, ad));
                            }
                        }
                    } else if m.privileged(*t, r) {
                        // account/caller confusion: the TARGET is privileged, the caller is not
                        if let Some(u) = unprivs.last() {
                            v.push(mk(grant, *t, *u, *u));
                        }
                    }
                }
            }
            if let Some(p) = privs.first() {
                // idempotent grant to a member, revoke of a pair that is not held
                if let Some(mm) = members.first() {
                    v.push(mk(true, *mm, *p, *p));
                }
                if let Some(t) = targets.first() {
                    v.push(mk(false, *t, *p, *p));
                }
            }
            for (k, w) in members.iter().enumerate() {
                v.push(Op::Renounce { role: r, caller: *w, signer: *w });
                if k == 0 && !lean {
                    v.push(Op::Renounce { role: r, caller: *w, signer: Who::Nobody });
                    v.push(Op::Renounce { role: r, caller: *w, signer: other(*w) });
                }
            }
            if let Some(t) = targets.first() {
                v.push(Op::Renounce { role: r, caller: *t, signer: *t });
            }
        }
        if !lean {
            // admin-only entry points; when there is no admin the former admin and a plain account try
            let as_admin = cur_admin.unwrap_or(Who::Adm);
            let not_admin = other(as_admin);
            let mut first = true;
            for r in roles_e.iter().copied() {
                for ar in ROLES {
                    // admin role: a touched role, `r` itself, or the first untouched role other than `r`
                    let fresh_ar = untouched_roles.iter().copied().find(|x| *x != r);
                    if !(m.rtouched[ar as usize] || ar == r || Some(ar) == fresh_ar) {
                        continue;
                    }
                    if m.role_admin[r as usize] == Some(ar) {
                        continue;
                    }
                    v.push(Op::SetRoleAdmin { role: r, admin_role: ar, signer: as_admin });
                    if first {
                        v.push(Op::SetRoleAdmin { role: r, admin_role: ar, signer: Who::Nobody });
                        v.push(Op::SetRoleAdmin { role: r, admin_role: ar, signer: not_admin });
                        first = false;
                    }
                }
            }
            // one hand-over: to a role holder and to a stranger
            let mut news: Vec<Who> = vec![];
            for p in [true, false] {
                if let Some(w) = order.iter().copied().find(|w| *w != as_admin && m.holds_any(*w) == p) {
                    news.push(w);
                }
            }
            for (k, new) in news.iter().enumerate() {
                v.push(Op::TransferAdmin { new: *new, signer: as_admin });
                if k == 0 {
                    v.push(Op::TransferAdmin { new: *new, signer: Who::Nobody });
                    v.push(Op::TransferAdmin { new: *new, signer: not_admin });
                }
            }
            match m.pending {
                Some(p) => {
                    v.push(Op::AcceptAdmin { signer: p });
                    v.push(Op::AcceptAdmin { signer: Who::Nobody });
                    v.push(Op::AcceptAdmin { signer: other(p) });
                }
                None => v.push(Op::AcceptAdmin { signer: not_admin }),
            }
            v.push(Op::RenounceAdmin { signer: as_admin });
            v.push(Op::RenounceAdmin { signer: Who::Nobody });
            v.push(Op::RenounceAdmin { signer: not_admin });
            // clean-up primitives behind #[only_admin]
            let mut first = true;
            let mut absent_probe = true;
            for r in roles_e.iter().copied() {
                if m.role_admin[r as usize].is_some() {
                    v.push(Op::RemoveRoleAdmin { role: r, signer: as_admin });
                    if first {
                        v.push(Op::RemoveRoleAdmin { role: r, signer: Who::Nobody });
                        v.push(Op::RemoveRoleAdmin { role: r, signer: not_admin });
                        first = false;
                    }
                } else if absent_probe {
                    v.push(Op::RemoveRoleAdmin { role: r, signer: as_admin });
                    absent_probe = false;
                }
            }
            for r in roles_e.iter().copied() {
                v.push(Op::RemoveCount { role: r, signer: as_admin });
            }
        }
        let mut out: Vec<Op> = vec![];
        for op in v {
            if !out.contains(&op) {
                out.push(op);
            }
        }
        out.push(Op::IdleProbe);
        out
    }

    fn kind(&self, op: &Op) -> String {
        match op {
            Op::Grant { .. } => "grant_role",
            Op::Revoke { .. } => "revoke_role",
            Op::Renounce { .. } => "renounce_role",
            Op::SetRoleAdmin { .. } => "set_role_admin",
            Op::TransferAdmin { .. } => "transfer_admin_role",
            Op::AcceptAdmin { .. } => "accept_admin_transfer",
            Op::RenounceAdmin { .. } => "renounce_admin",
            Op::RemoveRoleAdmin { .. } => "only_admin:remove_role_admin",
            Op::RemoveCount { .. } => "only_admin:remove_role_count",
            Op::IdleProbe => "idle-probe",
        }
        .to_string()
    }

    fn leaf_only(&self, op: &Op) -> bool {
        matches!(op, Op::RemoveCount { .. })
    }

    fn apply(&self, i: &mut Inst, op: &Op) {
        self.exec(i, op);
    }

    fn step(&self, i: &mut Inst, m: &mut Model, op: &Op, cx: &mut StepCtx<Self>) -> Result<bool, Violation> {
        if matches!(op, Op::IdleProbe) {
            // membership, enumerations, role admins and the admin are not time-dependent (the
            // pending hand-over offer is, and it is not part of the observation)
            let copy = cx.rebuild();
            envx::advance(&copy.e, IDLE);
            let n = self.observe(&copy, m).map_err(idle_viol)?;
            cx.stats.count("idle-probes", 1);
            cx.stats.count("getter-comparisons-after-long-idle", n);
            return Ok(false);
        }
        if cx.hist.is_empty() {
            // the seed state itself must already agree with the model
            let n = self.observe(i, m)?;
            cx.stats.count("getter-comparisons", n);
        }
        let ok = self.exec(i, op);
        let kind = self.kind(op);
        // ---- gate coverage (vacuity) and the authority rule, both on the pre-state model
        match op {
            Op::Grant { role, caller, signer, .. } | Op::Revoke { role, caller, signer, .. } => {
                let cc = if m.is_admin(*caller) {
                    "contract-admin"
                } else if m.holds_admin_role_of(*caller, *role) {
                    if m.renounced {
                        "role-admin-holder(no contract admin)"
                    } else {
                        "role-admin-holder"
                    }
                } else {
                    "unprivileged"
                };
                cx.stats.count(&format!("{kind}: caller={cc} signer={} -> {}", signer_class(*caller, *signer), okstr(ok)), 1);
                if ok {
                    ensure!(
                        m.privileged(*signer, *role),
                        "authority",
                        "{:?} succeeded: it was authorized by {:?}, who is neither the contract admin ({:?}) nor a holder of the admin role of {:?} ({:?})",
                        op,
                        signer,
                        if m.renounced { None } else { m.admin },
                        role,
                        m.role_admin[*role as usize]
                    );
                    if let Some(ar) = m.role_admin[*role as usize] {
                        if !m.is_admin(*signer) && m.role_admin[ar as usize].is_some() {
                            cx.stats.count("authority through a chained / cyclic role-admin relation -> ok", 1);
                        }
                    }
                }
            }
            Op::Renounce { role, caller, signer } => {
                let cc = if m.holds(*caller, *role) { "holder" } else { "non-holder" };
                cx.stats.count(&format!("{kind}: caller={cc} signer={} -> {}", signer_class(*caller, *signer), okstr(ok)), 1);
                if ok {
                    ensure!(
                        signer == caller && m.holds(*caller, *role),
                        "renounce-authority",
                        "{:?} succeeded: a role is renounced only by its own authorized holder (holder: {}, signed by {:?})",
                        op,
                        m.holds(*caller, *role),
                        signer
                    );
                }
            }
            Op::SetRoleAdmin { signer, .. }
            | Op::TransferAdmin { signer, .. }
            | Op::RenounceAdmin { signer }
            | Op::RemoveRoleAdmin { signer, .. }
            | Op::RemoveCount { signer, .. } => {
                let sc = if m.renounced {
                    "anybody after renounce_admin"
                } else if m.is_admin(*signer) {
                    "admin"
                } else if *signer == Who::Nobody {
                    "nobody"
                } else {
                    "non-admin"
                };
                cx.stats.count(&format!("{kind}: signer={sc} -> {}", okstr(ok)), 1);
                if ok {
                    ensure!(!m.renounced, "admin-only-after-renounce", "{:?} succeeded although the admin was renounced", op);
                    ensure!(m.is_admin(*signer), "admin-only", "{:?} succeeded, authorized by {:?}, while the admin is {:?}", op, signer, m.admin);
                    if let Op::RemoveCount { role, .. } = op {
                        ensure!(
                            !ACCTS.iter().any(|w| m.holds(*w, *role)),
                            "member-count",
                            "{:?} removed the member counter of a role that still has members",
                            op
                        );
                    }
                }
            }
            Op::AcceptAdmin { signer } => {
                if ok {
                    ensure!(
                        m.pending.is_some() && m.pending == Some(*signer),
                        "accept-authority",
                        "{:?} succeeded while the pending admin is {:?}",
                        op,
                        m.pending
                    );
                }
            }
            Op::IdleProbe => unreachable!(),
        }
        if !ok {
            return Ok(false);
        }
        m.apply(op);
        let n = self.observe(i, m)?;
        cx.stats.count("getter-comparisons", n);
        Ok(true)
    }

    fn key(&self, i: &Inst) -> [u8; 32] {
        envx::storage_digest(&i.e, false)
    }
    fn model_key(&self, m: &Model) -> u64 {
        dig(&(m.pending, m.renounced))
    }
    fn model_digest(&self, m: &Model) -> u64 {
        dig(&(&m.members, m.role_admin, m.admin))
    }
}

// ------------------------------------------------------------------------------------------
// world 2: macro-guarded entry points of the nft-access-control example

#[derive(Clone, Copy, Debug, PartialEq, Eq, PartialOrd, Ord, Hash)]
enum MRole {
    Minter,
    Burner,
}
const MROLES: [MRole; 2] = [MRole::Minter, MRole::Burner];
const MROLE_NAMES: [&str; 2] = ["minter", "burner"];
const MACCTS: [Who; 3] = [Who::Adm, Who::A, Who::B];
const MSIGNERS: [Who; 4] = [Who::Adm, Who::A, Who::B, Who::Nobody];

#[derive(Clone, Debug, PartialEq, Eq)]
enum MOp {
    /// role management by the admin (`caller` argument = adm), the set-up of the truth table
    Grant { account: Who, role: MRole, signer: Who },
    Revoke { account: Who, role: MRole, signer: Who },
    RenounceAdmin { signer: Who },
    /// #[only_admin]
    AdminFn { signer: Who },
    /// #[only_role(caller, "minter")]
    Mint { caller: Who, signer: Who },
    /// #[has_any_role(caller, ["minter","burner"])] + require_auth in the body
    Multi { caller: Who, signer: Who },
    /// #[only_any_role(caller, ["minter","burner"])]
    MultiAuth { caller: Who, signer: Who },
    /// #[has_role(from, "burner")] + require_auth inside Base::burn
    Burn { from: Who, signer: Who },
    /// #[has_role(spender, "burner")] + require_auth inside Base::burn_from
    BurnFrom { spender: Who, from: Who, signer: Who },
    /// as `Op::IdleProbe`
    IdleProbe,
}

#[derive(Clone, Debug, PartialEq, Eq, Hash)]
struct MModel {
    members: BTreeSet<(Who, MRole)>,
    admin: Option<Who>,
    renounced: bool,
}

struct Macros;

struct MInst {
    e: Env,
    c: Address,
    u: [Address; 3],
}

impl MInst {
    fn a(&self, w: Who) -> Address {
        self.u[w as usize].clone()
    }
    fn signers(&self, w: Who) -> Vec<Address> {
        if w == Who::Nobody {
            vec![]
        } else {
            vec![self.a(w)]
        }
    }
}

impl Macros {
    fn call(&self, i: &MInst, op: &MOp) -> (&'static str, SVec<Val>, Who) {
        let e = &i.e;
        let sym = |r: MRole| Symbol::new(e, MROLE_NAMES[r as usize]);
        match op {
            MOp::Grant { account, role, signer } => ("grant_role", (i.a(*account), sym(*role), i.a(Who::Adm)).into_val(e), *signer),
            MOp::Revoke { account, role, signer } => ("revoke_role", (i.a(*account), sym(*role), i.a(Who::Adm)).into_val(e), *signer),
            MOp::RenounceAdmin { signer } => ("renounce_admin", SVec::new(e), *signer),
            MOp::AdminFn { signer } => ("admin_restricted_function", SVec::new(e), *signer),
            // a token id that no history has minted (mint is a leaf probe)
            MOp::Mint { caller, signer } => ("mint", (i.a(*caller), 77u32, i.a(*caller)).into_val(e), *signer),
            MOp::Multi { caller, signer } => ("multi_role_action", (i.a(*caller),).into_val(e), *signer),
            MOp::MultiAuth { caller, signer } => ("multi_role_auth_action", (i.a(*caller),).into_val(e), *signer),
            // token k belongs to account k (seed); every owner approved every other account for all
            MOp::Burn { from, signer } => ("burn", (i.a(*from), *from as u32).into_val(e), *signer),
            MOp::BurnFrom { spender, from, signer } => ("burn_from", (i.a(*spender), i.a(*from), *from as u32).into_val(e), *signer),
            MOp::IdleProbe => unreachable!("the idle probe is not a contract call"),
        }
    }
    fn exec(&self, i: &MInst, op: &MOp) -> bool {
        if matches!(op, MOp::IdleProbe) {
            return false;
        }
        let (f, args, signer) = self.call(i, op);
        call_signed(&i.e, &i.c, f, args, &i.signers(signer)).is_ok()
    }
    fn observe(&self, i: &MInst, m: &MModel) -> Result<u64, Violation> {
        let x = Expect {
            acc_names: ACC_NAMES[..3].to_vec(),
            role_names: MROLE_NAMES.to_vec(),
            holds: MACCTS.iter().map(|w| MROLES.iter().map(|r| m.members.contains(&(*w, *r))).collect()).collect(),
            role_admin: vec![None, None],
            admin: m.admin.map(|w| w as usize),
            fillers: vec![],
        };
        observe_ac(&i.e, &i.c, &i.u, &x)
    }
}

impl World for Macros {
    type Op = MOp;
    type Model = MModel;
    type Inst = MInst;

    fn name(&self) -> String {
        "nft-access-control-macros".into()
    }

    fn fresh(&self, _seed: usize) -> (MInst, MModel) {
        let e = envx::mk_env(100);
        let u = [Address::generate(&e), Address::generate(&e), Address::generate(&e)];
        for x in u.iter() {
            auth::back(&e, x);
        }
        let s = |t: &str| SString::from_str(&e, t);
        let c = e.register(nft_ac_example::ExampleContract, (s("u"), s("n"), s("s"), u[0].clone()));
        // set-up (recording auth): token k for account k, blanket approvals, no roles left behind
        let minter = Symbol::new(&e, "minter");
        call_mocked(&e, &c, "grant_role", (u[0].clone(), minter.clone(), u[0].clone()).into_val(&e)).expect("seed grant");
        for k in 0..3u32 {
            call_mocked(&e, &c, "mint", (u[k as usize].clone(), k, u[0].clone()).into_val(&e)).expect("seed mint");
        }
        call_mocked(&e, &c, "revoke_role", (u[0].clone(), minter, u[0].clone()).into_val(&e)).expect("seed revoke");
        let live = envx::now(&e) + OFFER_TTL;
        for o in 0..3 {
            for p in 0..3 {
                if o != p {
                    call_mocked(&e, &c, "approve_for_all", (u[o].clone(), u[p].clone(), live).into_val(&e)).expect("seed approval");
                }
            }
        }
        (MInst { e, c, u }, MModel { members: BTreeSet::new(), admin: Some(Who::Adm), renounced: false })
    }

    fn ops(&self, _i: &MInst, m: &MModel, _d: usize) -> Vec<MOp> {
        let mut v = vec![];
        let mut first_g = true;
        let mut first_r = true;
        for account in MACCTS {
            for role in MROLES {
                if m.members.contains(&(account, role)) {
                    v.push(MOp::Revoke { account, role, signer: Who::Adm });
                    if first_r {
                        v.push(MOp::Revoke { account, role, signer: Who::Nobody });
                        v.push(MOp::Revoke { account, role, signer: Who::A });
                        first_r = false;
                    }
                } else {
                    v.push(MOp::Grant { account, role, signer: Who::Adm });
                    if first_g {
                        v.push(MOp::Grant { account, role, signer: Who::Nobody });
                        v.push(MOp::Grant { account, role, signer: Who::A });
                        first_g = false;
                    }
                }
            }
        }
        for signer in [Who::Adm, Who::A, Who::Nobody] {
            v.push(MOp::RenounceAdmin { signer });
        }
        for signer in MSIGNERS {
            v.push(MOp::AdminFn { signer });
        }
        for caller in MACCTS {
            for signer in MSIGNERS {
                v.push(MOp::Mint { caller, signer });
                v.push(MOp::Multi { caller, signer });
                v.push(MOp::MultiAuth { caller, signer });
                v.push(MOp::Burn { from: caller, signer });
                let from = MACCTS[(caller as usize + 1) % 3];
                v.push(MOp::BurnFrom { spender: caller, from, signer });
            }
        }
        v.push(MOp::IdleProbe);
        v
    }

    fn kind(&self, op: &MOp) -> String {
        match op {
            MOp::Grant { .. } => "example.grant_role",
            MOp::Revoke { .. } => "example.revoke_role",
            MOp::RenounceAdmin { .. } => "example.renounce_admin",
            MOp::AdminFn { .. } => "only_admin:admin_restricted_function",
            MOp::Mint { .. } => "only_role:mint",
            MOp::Multi { .. } => "has_any_role:multi_role_action",
            MOp::MultiAuth { .. } => "only_any_role:multi_role_auth_action",
            MOp::Burn { .. } => "has_role:burn",
            MOp::BurnFrom { .. } => "has_role:burn_from",
            MOp::IdleProbe => "idle-probe",
        }
        .to_string()
    }

    fn apply(&self, i: &mut MInst, op: &MOp) {
        self.exec(i, op);
    }

    fn leaf_only(&self, op: &MOp) -> bool {
        !matches!(op, MOp::Grant { .. } | MOp::Revoke { .. } | MOp::RenounceAdmin { .. })
    }

    fn step(&self, i: &mut MInst, m: &mut MModel, op: &MOp, cx: &mut StepCtx<Self>) -> Result<bool, Violation> {
        if matches!(op, MOp::IdleProbe) {
            // the seed's blanket approvals expire meanwhile; they are not part of the observation
            let copy = cx.rebuild();
            envx::advance(&copy.e, IDLE);
            let n = self.observe(&copy, m).map_err(idle_viol)?;
            cx.stats.count("idle-probes", 1);
            cx.stats.count("getter-comparisons-after-long-idle", n);
            return Ok(false);
        }
        let ok = self.exec(i, op);
        let kind = self.kind(op);
        let is_admin = |w: Who| !m.renounced && w != Who::Nobody && m.admin == Some(w);
        let holds = |w: Who, rs: &[MRole]| rs.iter().any(|r| m.members.contains(&(w, *r)));
        // (principal argument, roles one of which is required) of the guarded entry points
        let guard: Option<(Who, Who, &[MRole])> = match op {
            MOp::Mint { caller, signer } => Some((*caller, *signer, &[MRole::Minter])),
            MOp::Multi { caller, signer } | MOp::MultiAuth { caller, signer } => Some((*caller, *signer, &[MRole::Minter, MRole::Burner])),
            MOp::Burn { from, signer } => Some((*from, *signer, &[MRole::Burner])),
            MOp::BurnFrom { spender, signer, .. } => Some((*spender, *signer, &[MRole::Burner])),
            _ => None,
        };
        if let Some((principal, signer, roles)) = guard {
            cx.stats.count(
                &format!("{kind}: role={} signer={} -> {}", if holds(principal, roles) { "held" } else { "missing" }, signer_class(principal, signer), okstr(ok)),
                1,
            );
            if ok {
                ensure!(
                    holds(signer, roles),
                    "role-guard",
                    "{:?} executed, authorized by {:?}, who holds none of {:?} (members: {:?})",
                    op,
                    signer,
                    roles,
                    m.members
                );
                ensure!(
                    holds(principal, roles),
                    "role-guard",
                    "{:?} executed although the account named in the guard holds none of {:?} (members: {:?})",
                    op,
                    roles,
                    m.members
                );
            }
            return Ok(ok);
        }
        match op {
            MOp::AdminFn { signer } | MOp::Grant { signer, .. } | MOp::Revoke { signer, .. } | MOp::RenounceAdmin { signer } => {
                let sc = if m.renounced {
                    "anybody after renounce_admin"
                } else if is_admin(*signer) {
                    "admin"
                } else {
                    "non-admin"
                };
                cx.stats.count(&format!("{kind}: signer={sc} -> {}", okstr(ok)), 1);
                if ok {
                    ensure!(!m.renounced, "admin-only-after-renounce", "{:?} succeeded although the admin was renounced", op);
                    ensure!(is_admin(*signer), "admin-only", "{:?} succeeded, authorized by {:?}, while the admin is {:?}", op, signer, m.admin);
                }
            }
            _ => unreachable!(),
        }
        if !ok || matches!(op, MOp::AdminFn { .. }) {
            return Ok(ok);
        }
        match op {
            MOp::Grant { account, role, .. } => {
                m.members.insert((*account, *role));
            }
            MOp::Revoke { account, role, .. } => {
                m.members.remove(&(*account, *role));
            }
            MOp::RenounceAdmin { .. } => {
                m.admin = None;
                m.renounced = true;
            }
            _ => {}
        }
        let n = self.observe(i, m)?;
        cx.stats.count("getter-comparisons", n);
        Ok(true)
    }

    fn key(&self, i: &MInst) -> [u8; 32] {
        envx::storage_digest(&i.e, false)
    }
    fn model_digest(&self, m: &MModel) -> u64 {
        dig(m)
    }
}

// ------------------------------------------------------------------------------------------
// world 3: #[only_owner] of the ownable example

#[derive(Clone, Debug, PartialEq, Eq)]
enum OOp {
    Increment { signer: Who },
    Transfer { new: Who, signer: Who },
    Accept { signer: Who },
    Renounce { signer: Who },
    /// as `Op::IdleProbe`: the owner is the same after a long time without calls
    IdleProbe,
}

#[derive(Clone, Debug, PartialEq, Eq, Hash)]
struct OModel {
    owner: Option<Who>,
    pending: Option<Who>,
    renounced: bool,
}

struct Own;

impl Own {
    fn exec(&self, i: &MInst, op: &OOp) -> bool {
        if matches!(op, OOp::IdleProbe) {
            return false;
        }
        let e = &i.e;
        let (f, args, signer): (&str, SVec<Val>, Who) = match op {
            OOp::Increment { signer } => ("increment", SVec::new(e), *signer),
            OOp::Transfer { new, signer } => ("transfer_ownership", (i.a(*new), envx::now(e) + OFFER_TTL).into_val(e), *signer),
            OOp::Accept { signer } => ("accept_ownership", SVec::new(e), *signer),
            OOp::Renounce { signer } => ("renounce_ownership", SVec::new(e), *signer),
            OOp::IdleProbe => unreachable!(),
        };
        call_signed(e, &i.c, f, args, &i.signers(signer)).is_ok()
    }
    fn owner(&self, i: &MInst) -> Result<Option<Who>, Violation> {
        let v = getter(&i.e, &i.c, "get_owner", SVec::new(&i.e))?;
        let o = Option::<Address>::try_from_val(&i.e, &v).map_err(|_| viol("getter", "get_owner: decode".into()))?;
        match o {
            None => Ok(None),
            Some(a) => match i.u.iter().position(|y| *y == a) {
                Some(k) => Ok(Some(MACCTS[k])),
                None => Err(viol("owner", "get_owner is an address outside the universe".into())),
            },
        }
    }
}

impl World for Own {
    type Op = OOp;
    type Model = OModel;
    type Inst = MInst;

    fn name(&self) -> String {
        "ownable-macros".into()
    }

    fn fresh(&self, _seed: usize) -> (MInst, OModel) {
        let e = envx::mk_env(100);
        let u = [Address::generate(&e), Address::generate(&e), Address::generate(&e)];
        for x in u.iter() {
            auth::back(&e, x);
        }
        let c = e.register(ownable_example::ExampleContract, (u[0].clone(),));
        (MInst { e, c, u }, OModel { owner: Some(Who::Adm), pending: None, renounced: false })
    }

    fn ops(&self, _i: &MInst, _m: &OModel, _d: usize) -> Vec<OOp> {
        let mut v = vec![];
        for signer in MSIGNERS {
            v.push(OOp::Increment { signer });
        }
        // incl. an offer of the owner to itself (must not open a way back after a renouncement)
        for new in [Who::A, Who::B, Who::Adm] {
            for signer in MSIGNERS {
                v.push(OOp::Transfer { new, signer });
            }
        }
        for signer in MSIGNERS {
            v.push(OOp::Accept { signer });
        }
        for signer in MSIGNERS {
            v.push(OOp::Renounce { signer });
        }
        v.push(OOp::IdleProbe);
        v
    }

    fn kind(&self, op: &OOp) -> String {
        match op {
            OOp::Increment { .. } => "only_owner:increment",
            OOp::Transfer { .. } => "transfer_ownership",
            OOp::Accept { .. } => "accept_ownership",
            OOp::Renounce { .. } => "renounce_ownership",
            OOp::IdleProbe => "idle-probe",
        }
        .to_string()
    }

    fn apply(&self, i: &mut MInst, op: &OOp) {
        self.exec(i, op);
    }

    fn leaf_only(&self, op: &OOp) -> bool {
        matches!(op, OOp::Increment { .. })
    }

    fn step(&self, i: &mut MInst, m: &mut OModel, op: &OOp, cx: &mut StepCtx<Self>) -> Result<bool, Violation> {
        if matches!(op, OOp::IdleProbe) {
            // a pending offer (live_until = now + OFFER_TTL) has expired by then, which is correct and
            // not observed; the owner itself must be who the model says
            let copy = cx.rebuild();
            envx::advance(&copy.e, IDLE);
            let got = self.owner(&copy).map_err(idle_viol)?;
            ensure!(got == m.owner, "state-survives-idle", "get_owner = {:?} after {IDLE} ledgers without any call, model {:?}", got, m.owner);
            cx.stats.count("idle-probes", 1);
            cx.stats.count("getter-comparisons-after-long-idle", 1);
            return Ok(false);
        }
        let ok = self.exec(i, op);
        let kind = self.kind(op);
        let is_owner = |w: Who| !m.renounced && w != Who::Nobody && m.owner == Some(w);
        match op {
            OOp::Increment { signer } | OOp::Transfer { signer, .. } | OOp::Renounce { signer } => {
                let sc = if m.renounced {
                    "anybody after renounce_ownership"
                } else if is_owner(*signer) {
                    "owner"
                } else {
                    "non-owner"
                };
                cx.stats.count(&format!("{kind}: signer={sc} -> {}", okstr(ok)), 1);
                if ok {
                    ensure!(!m.renounced, "owner-only-after-renounce", "{:?} succeeded although ownership was renounced", op);
                    ensure!(is_owner(*signer), "owner-only", "{:?} succeeded, authorized by {:?}, while the owner is {:?}", op, signer, m.owner);
                }
            }
            OOp::Accept { signer } => {
                if ok {
                    ensure!(m.pending.is_some() && m.pending == Some(*signer), "accept-authority", "{:?} succeeded while the pending owner is {:?}", op, m.pending);
                }
            }
            OOp::IdleProbe => unreachable!(),
        }
        if !ok || matches!(op, OOp::Increment { .. }) {
            return Ok(ok);
        }
        match op {
            OOp::Transfer { new, .. } => m.pending = Some(*new),
            OOp::Accept { signer } => {
                m.owner = Some(*signer);
                m.pending = None;
            }
            OOp::Renounce { .. } => {
                m.owner = None;
                m.renounced = true;
            }
            OOp::Increment { .. } | OOp::IdleProbe => {}
        }
        let got = self.owner(i)?;
        cx.stats.count("getter-comparisons", 1);
        ensure!(got == m.owner, "owner", "get_owner = {:?} after {:?}, model {:?}", got, op, m.owner);
        Ok(true)
    }

    fn key(&self, i: &MInst) -> [u8; 32] {
        envx::storage_digest(&i.e, false)
    }
    fn model_key(&self, m: &OModel) -> u64 {
        dig(&(m.pending, m.renounced))
    }
    fn model_digest(&self, m: &OModel) -> u64 {
        dig(&m.owner)
    }
}

// ------------------------------------------------------------------------------------------

const RULE: &str = "level-BFS over histories of grant_role / revoke_role (account, role, caller) / renounce_role / set_role_admin (all 9 role pairs: chains, r1<->r2 cycles, r->r) / transfer_admin_role + accept_admin_transfer / renounce_admin on the real AccessControl code behind a thin wrapper, roles {r1,r2,r3}, accounts {adm,a,b,c} (symmetry reduction: accounts / roles not yet named in an accepted call are interchangeable, only the first of them is used), caller in {contract admin, holder of the role's admin role, member of the role, member of another role, stranger}, every call under ENFORCING authorization signed by the caller / another account / nobody; seeds: empty, admin chain, cycle with the admin renounced, crowded roles, MAX_ROLES-1 roles; after every accepted call has_role for all pairs, get_role_member_count, get_role_member(i) for all i<count (+ three out-of-range indices), get_existing_roles, get_role_admin, get_admin are compared with the model (set of pairs, role-admin map, admin option); truth table of the macro-guarded entry points of the nft-access-control and ownable examples (function x role set of the named account x signer in {adm,a,b,nobody}) in every reachable role configuration, before and after renounce_admin / renounce_ownership; idle probe in every expanded state of every world: on a rebuilt copy 2000000 ledgers pass without any call (beyond every temporary lifetime and the library's largest TTL extension, 1555200) and all getters are compared with the model again; states merged by canonical storage digest; non-trivial = distinct state reached through at least one accepted call";

fn main() {
    main_with("C06", "model_checking", RULE, |tier: Tier, r: &mut Runner| {
        // development aids: C06_ONLY=<world name> explores a single world (the vacuity rule is then
        // skipped); C06_NOCAP lifts the wall-clock caps (to finish a tier on a heavily loaded machine)
        let only = std::env::var("C06_ONLY").ok();
        let want = |n: &str| only.as_deref().map_or(true, |o| o == n);
        let nocap = std::env::var("C06_NOCAP").is_ok();
        let wall = |q: u64, t: u64| if nocap { 100_000 } else { tier.pick(q, t) };
        if want("ac-wrapper") {
            r.world(&Ac { variant: Variant::Empty }, &Bounds::new(tier.pick(5, 6), wall(20, 220)));
        }
        if want("ac-wrapper-seeded") {
            r.world(&Ac { variant: Variant::Seeded }, &Bounds::new(tier.pick(3, 5), wall(12, 290)));
        }
        if want("ac-wrapper-maxroles") {
            r.world(&Ac { variant: Variant::MaxRoles }, &Bounds::new(tier.pick(4, 5), wall(6, 30)));
        }
        if want("nft-access-control-macros") {
            r.world(&Macros, &Bounds::new(tier.pick(4, 7), wall(4, 30)));
        }
        if want("ownable-macros") {
            r.world(&Own, &Bounds::new(tier.pick(5, 7), wall(2, 10)));
        }
        if only.is_some() {
            return;
        }
        if let Some(rep) = r.report() {
            let ac = [
                "grant_role",
                "revoke_role",
                "renounce_role",
                "set_role_admin",
                "transfer_admin_role",
                "accept_admin_transfer",
                "renounce_admin",
                "only_admin:remove_role_admin",
                "only_admin:remove_role_count",
            ];
            let guarded = [
                "only_admin:admin_restricted_function",
                "only_role:mint",
                "has_any_role:multi_role_action",
                "only_any_role:multi_role_auth_action",
                "has_role:burn",
                "has_role:burn_from",
                "only_owner:increment",
            ];
            let all: Vec<&str> = ac.iter().chain(guarded.iter()).copied().collect();
            rep.require(&all, &all);
            let mut counters: Vec<String> = vec!["getter-comparisons".into(), "idle-probes".into(), "getter-comparisons-after-long-idle".into()];
            for k in ["grant_role", "revoke_role"] {
                for c in ["contract-admin", "role-admin-holder", "role-admin-holder(no contract admin)"] {
                    counters.push(format!("{k}: caller={c} signer=self -> ok"));
                    counters.push(format!("{k}: caller={c} signer=nobody -> refused"));
                    counters.push(format!("{k}: caller={c} signer=other -> refused"));
                }
                counters.push(format!("{k}: caller=unprivileged signer=self -> refused"));
                counters.push(format!("{k}: caller=unprivileged signer=other -> refused"));
            }
            counters.push("authority through a chained / cyclic role-admin relation -> ok".into());
            counters.push("renounce_role: caller=holder signer=self -> ok".into());
            counters.push("renounce_role: caller=holder signer=nobody -> refused".into());
            counters.push("renounce_role: caller=holder signer=other -> refused".into());
            counters.push("renounce_role: caller=non-holder signer=self -> refused".into());
            // the role limit: a privileged, self-signed grant that creates role MAX_ROLES+1 is refused
            counters.push("grant_role: caller=contract-admin signer=self -> refused".into());
            for k in ["set_role_admin", "transfer_admin_role", "renounce_admin", "only_admin:remove_role_admin"] {
                counters.push(format!("{k}: signer=admin -> ok"));
                counters.push(format!("{k}: signer=non-admin -> refused"));
                counters.push(format!("{k}: signer=nobody -> refused"));
                counters.push(format!("{k}: signer=anybody after renounce_admin -> refused"));
            }
            for k in &guarded[1..6] {
                counters.push(format!("{k}: role=held signer=self -> ok"));
                counters.push(format!("{k}: role=held signer=nobody -> refused"));
                counters.push(format!("{k}: role=held signer=other -> refused"));
                counters.push(format!("{k}: role=missing signer=self -> refused"));
                counters.push(format!("{k}: role=missing signer=other -> refused"));
            }
            for k in ["only_admin:admin_restricted_function", "example.grant_role"] {
                counters.push(format!("{k}: signer=admin -> ok"));
                counters.push(format!("{k}: signer=non-admin -> refused"));
                counters.push(format!("{k}: signer=anybody after renounce_admin -> refused"));
            }
            counters.push("only_owner:increment: signer=owner -> ok".into());
            counters.push("only_owner:increment: signer=non-owner -> refused".into());
            counters.push("only_owner:increment: signer=anybody after renounce_ownership -> refused".into());
            let refs: Vec<&str> = counters.iter().map(|s| s.as_str()).collect();
            rep.require_counter(&refs);
        }
    });
}
