//! C14 — account policies enforce exactly their threshold, weight and spending rules.
//!
//! Worlds (all on the real code of /repo's working tree, every call under ENFORCING
//! authorization signed by exactly the stated principal):
//!
//! * `simple-threshold`   – the `threshold-policy` example contract. Three tenants
//!   (account, rule id) ∈ {(A1,1), (A1,2), (A2,1)}; rules with n ∈ 0..=4 signers; thresholds
//!   0..=5; every authenticated subset of the rule's signers.
//! * `weighted-threshold` – a wrapper contract (shared/policy_wrap.rs, mirrors the threshold
//!   example) over `policies::weighted_threshold`; 3 signers, weights ∈ {absent, 0, 1, 2,
//!   u32::MAX−1, u32::MAX}, thresholds ∈ {0, 1, 2, 3, u32::MAX}; install / set_signer_weight /
//!   set_threshold / uninstall histories; every subset. Sums are computed in u64 by the model.
//! * `spending-limit(L,P)@start` – the `spending-limit-policy` example contract. Histories of
//!   spend(a) (= `enforce` with a `transfer(from,to,a)` contract context), set_spending_limit,
//!   Advance(1), plus leaf probes (non-transfer / malformed contexts, no authenticated signer,
//!   rule without installation, calls that are not signed by the account).
//!   Bulk seeds: 999 / 1000 live history entries (the documented 1000-entry bound); they are
//!   written straight into the policy's storage entry and proven, once per run, to be identical
//!   to the state that 999 / 1000 real `enforce` calls produce (`validate_bulk_seeds`).
//!   Not enumerated (outside the property's quantifier): negative amounts, authenticated lists
//!   with duplicates or with signers that are not rule signers (the policies count the list they
//!   are handed; the smart account only hands over distinct rule signers).
//! * `account-batch` (thorough) – the `multisig-smart-account/account` example with the spending
//!   policy attached to its default rule: `__check_auth` with ONE or TWO transfer contexts in a
//!   single authorization batch.
//!
//! Oracles (written from the property text):
//! * thresholds: `can_enforce` and `enforce` (signed by the account) accept ⇔ the policy is
//!   installed for that (account, rule) and count / Σ weight of the authenticated rule signers
//!   ≥ configured threshold; install / set_* that succeed never leave a zero or unreachable
//!   threshold; lockstep of get_threshold / get_signer_weights.
//! * spending: model = list of authorized (ledger, amount); at each accepted spend the amounts
//!   authorized at ledgers in (now − P, now] sum to ≤ the limit in force (monitor: a refusal is
//!   always acceptable).
//! * every policy: `can_enforce(ctx)` = true ⇔ `enforce(ctx)` signed by the account succeeds, in
//!   the same state; `can_enforce` leaves storage untouched; enforce / install / set_* /
//!   uninstall not signed by the account fail; a refused call leaves the storage digest
//!   unchanged (engine).

use soroban_sdk::auth::{Context, ContractContext, ContractExecutable, CreateContractHostFnContext};
use soroban_sdk::testutils::Address as _;
use soroban_sdk::{
    symbol_short, Address, Bytes, BytesN, Env, IntoVal, Map, String as SString, Symbol, TryFromVal, Val, Vec as SVec,
};
use stellar_accounts::policies::simple_threshold::SimpleThresholdAccountParams;
use stellar_accounts::policies::spending_limit::{
    SpendingEntry, SpendingLimitAccountParams, SpendingLimitData, SpendingLimitStorageKey,
};
use stellar_accounts::policies::weighted_threshold::WeightedThresholdAccountParams;
use stellar_accounts::smart_account::{ContextRule, ContextRuleType, Signatures, Signer, SmartAccountError};
use vh::auth::{self, call_signed, view, CallRes};
use vh::cli::{main_with, Runner};
use vh::engine::{dig, Bounds, StepCtx, Violation, World};
use vh::ensure;
use vh::envx;
use vh::report::Tier;

#[path = "/repo/examples/multisig-smart-account/threshold-policy/src/contract.rs"]
mod threshold_policy;
#[path = "/repo/examples/multisig-smart-account/spending-limit-policy/src/contract.rs"]
mod spending_policy;
#[path = "/repo/examples/multisig-smart-account/account/src/contract.rs"]
mod account_example;
#[path = "../shared/policy_wrap.rs"]
mod policy_wrap;

// ------------------------------------------------------------------------------------------
// common helpers

/// Who signs the root invocation.
#[derive(Clone, Copy, Debug, PartialEq, Eq, Hash)]
enum By {
    /// the smart account the call is about
    Acct,
    /// another backed address (simple world: the other smart account)
    Other,
    Nobody,
}
const BYS: [By; 3] = [By::Acct, By::Other, By::Nobody];

fn by_tag(by: By) -> &'static str {
    if by == By::Acct {
        ""
    } else {
        ".unauthorized"
    }
}

fn signers_of(by: By, acct: &Address, other: &Address) -> Vec<Address> {
    match by {
        By::Acct => vec![acct.clone()],
        By::Other => vec![other.clone()],
        By::Nobody => vec![],
    }
}

fn mk_rule(e: &Env, id: u32, signers: &[Address]) -> ContextRule {
    let mut s = SVec::new(e);
    for a in signers {
        s.push_back(Signer::Delegated(a.clone()));
    }
    ContextRule {
        id,
        context_type: ContextRuleType::Default,
        name: SString::from_str(e, "rule"),
        signers: s,
        policies: SVec::new(e),
        valid_until: None,
    }
}

fn subset(e: &Env, signers: &[Address], mask: u8) -> SVec<Signer> {
    let mut s = SVec::new(e);
    for (i, a) in signers.iter().enumerate() {
        if mask & (1 << i) != 0 {
            s.push_back(Signer::Delegated(a.clone()));
        }
    }
    s
}

fn transfer_ctx(e: &Env, token: &Address, from: &Address, to: &Address, amount: i128) -> Context {
    let mut args: SVec<Val> = SVec::new(e);
    args.push_back(from.into_val(e));
    args.push_back(to.into_val(e));
    args.push_back(amount.into_val(e));
    Context::Contract(ContractContext { contract: token.clone(), fn_name: symbol_short!("transfer"), args })
}

/// `Some(b)` when the read-only call returned the boolean `b`, `None` when it failed.
fn as_bool(e: &Env, r: &CallRes) -> Option<bool> {
    match r {
        Ok(v) => bool::try_from_val(e, v).ok(),
        Err(_) => None,
    }
}

fn enforce_args(e: &Env, ctx: &Context, authd: &SVec<Signer>, rule: &ContextRule, acct: &Address) -> SVec<Val> {
    (ctx.clone(), authd.clone(), rule.clone(), acct.clone()).into_val(e)
}

/// Evaluate `can_enforce` (must not touch storage) and run `enforce` signed by `signers`.
/// Returns (can_enforce answered true, enforce succeeded).
fn can_then_enforce(
    e: &Env,
    policy: &Address,
    args: SVec<Val>,
    signers: &[Address],
    stats: &mut vh::engine::Stats,
) -> Result<(bool, bool), Violation> {
    let d0 = envx::storage_digest(e, true);
    let can = view(e, policy, "can_enforce", args.clone());
    let d1 = envx::storage_digest(e, true);
    ensure!(d0 == d1, "can_enforce-read-only", "can_enforce changed contract storage");
    let can_b = as_bool(e, &can);
    if can_b.is_none() {
        stats.count("can_enforce-failed-instead-of-false", 1);
    }
    let ok = call_signed(e, policy, "enforce", args, signers).is_ok();
    Ok((can_b == Some(true), ok))
}

/// Ledgers that pass in an idle probe (the `IdleProbe` operation every world offers once per
/// state: no call at all; on a throw-away copy of the state this many ledgers pass, then the
/// installed configuration is read and exercised again). Beyond every temporary-entry lifetime and
/// every TTL extension the policies and the smart account perform (SIMPLE_THRESHOLD_ /
/// WEIGHTED_THRESHOLD_ / SPENDING_LIMIT_ / SMART_ACCOUNT_EXTEND_AMOUNT = 30 days = 518400
/// ledgers), below the persistent TTL of `envx::mk_env` (3000000).
const IDLE: u32 = 600_000;

/// A disagreement found after the idle period: nothing was called in between, so whatever differs
/// from the model was lost (or appeared) through the passage of time alone.
fn idle_viol(v: Violation) -> Violation {
    Violation::new("state-survives-idle", format!("after {IDLE} ledgers without any call [{}] {}", v.oracle, v.detail))
}

/// `can_enforce` and `enforce` (signed by `acct`) of `args` on the idle copy both answer `expect`.
fn idle_enforce(e: &Env, policy: &Address, args: SVec<Val>, acct: &Address, expect: bool, what: &str) -> Result<(), Violation> {
    let can = as_bool(e, &view(e, policy, "can_enforce", args.clone())) == Some(true);
    ensure!(
        can == expect,
        "state-survives-idle",
        "after {} ledgers without any call: can_enforce answers {} for {} (the configuration installed before the idle period says {})",
        IDLE,
        can,
        what,
        expect
    );
    let ok = call_signed(e, policy, "enforce", args, std::slice::from_ref(acct)).is_ok();
    ensure!(
        ok == expect,
        "state-survives-idle",
        "after {} ledgers without any call: enforce signed by the account {} for {} (the configuration installed before the idle period says {})",
        IDLE,
        if ok { "succeeds" } else { "fails" },
        what,
        if expect { "accept" } else { "refuse" }
    );
    Ok(())
}

// ------------------------------------------------------------------------------------------
// World A: simple threshold (example contract)

const SLOTS: [(usize, u32); 3] = [(0, 1), (0, 2), (1, 1)];

#[derive(Clone, Debug, PartialEq, Eq)]
enum SOp {
    Install { slot: usize, n: u32, t: u32, by: By },
    SetThreshold { slot: usize, n: u32, t: u32, by: By },
    Uninstall { slot: usize, by: By },
    /// can_enforce + enforce with the authenticated subset `mask` of the n-signer rule
    Enforce { slot: usize, n: u32, mask: u8, by: By },
    /// see `IDLE`: thresholds of all tenants read and exercised after a long time without calls
    IdleProbe,
}

struct Simple;

struct SInst {
    e: Env,
    c: Address,
    accts: [Address; 2],
    sg: Vec<Address>,
    tok: Address,
    to: Address,
}

impl SInst {
    fn slot(&self, s: usize) -> (Address, Address, u32) {
        let (a, id) = SLOTS[s];
        (self.accts[a].clone(), self.accts[1 - a].clone(), id)
    }
}

impl Simple {
    fn exec(&self, i: &SInst, op: &SOp) -> bool {
        let e = &i.e;
        match op {
            SOp::Install { slot, n, t, by } => {
                let (acct, other, id) = i.slot(*slot);
                let rule = mk_rule(e, id, &i.sg[..*n as usize]);
                let args: SVec<Val> = (SimpleThresholdAccountParams { threshold: *t }, rule, acct.clone()).into_val(e);
                call_signed(e, &i.c, "install", args, &signers_of(*by, &acct, &other)).is_ok()
            }
            SOp::SetThreshold { slot, n, t, by } => {
                let (acct, other, id) = i.slot(*slot);
                let rule = mk_rule(e, id, &i.sg[..*n as usize]);
                let args: SVec<Val> = (*t, rule, acct.clone()).into_val(e);
                call_signed(e, &i.c, "set_threshold", args, &signers_of(*by, &acct, &other)).is_ok()
            }
            SOp::Uninstall { slot, by } => {
                let (acct, other, id) = i.slot(*slot);
                let rule = mk_rule(e, id, &i.sg[..2]);
                let args: SVec<Val> = (rule, acct.clone()).into_val(e);
                call_signed(e, &i.c, "uninstall", args, &signers_of(*by, &acct, &other)).is_ok()
            }
            SOp::Enforce { slot, n, mask, by } => {
                let (acct, other, _) = i.slot(*slot);
                call_signed(e, &i.c, "enforce", self.enf_args(i, *slot, *n, *mask), &signers_of(*by, &acct, &other)).is_ok()
            }
            // not a call
            SOp::IdleProbe => false,
        }
    }

    /// The idle probe on a throw-away copy of the state on which `IDLE` ledgers have passed:
    /// thresholds are not time-dependent, so every tenant still reports the threshold of the
    /// model; an installed tenant (threshold t) accepts exactly t authenticated signers of a
    /// 4-signer rule and refuses t-1; a tenant without installation refuses all 4.
    fn idle_check(&self, i: &SInst, m: &[Option<u32>; 3], cx: &mut StepCtx<Self>) -> Result<(), Violation> {
        self.lockstep(i, m, cx).map_err(idle_viol)?;
        let mut n = SLOTS.len() as u64;
        for s in 0..SLOTS.len() {
            let (acct, _, _) = i.slot(s);
            let full = |k: u32| ((1u16 << k) - 1) as u8;
            match m[s] {
                Some(t) => {
                    // (t in 1..=4: install / set_threshold accept nothing else)
                    let t = t.min(4);
                    idle_enforce(&i.e, &i.c, self.enf_args(i, s, 4, full(t - 1)), &acct, false, &format!("tenant {:?} with {} authenticated signers, threshold {}", SLOTS[s], t - 1, t))?;
                    idle_enforce(&i.e, &i.c, self.enf_args(i, s, 4, full(t)), &acct, true, &format!("tenant {:?} with {} authenticated signers, threshold {}", SLOTS[s], t, t))?;
                    n += 4;
                }
                None => {
                    idle_enforce(&i.e, &i.c, self.enf_args(i, s, 4, full(4)), &acct, false, &format!("tenant {:?} with 4 authenticated signers, policy not installed", SLOTS[s]))?;
                    n += 2;
                }
            }
        }
        cx.stats.count("idle-probes", 1);
        cx.stats.count("getter-comparisons-after-long-idle", n);
        Ok(())
    }

    fn enf_args(&self, i: &SInst, slot: usize, n: u32, mask: u8) -> SVec<Val> {
        let (acct, _, id) = i.slot(slot);
        let rs = &i.sg[..n as usize];
        let rule = mk_rule(&i.e, id, rs);
        let ctx = transfer_ctx(&i.e, &i.tok, &acct, &i.to, 1);
        enforce_args(&i.e, &ctx, &subset(&i.e, rs, mask), &rule, &acct)
    }

    fn lockstep(&self, i: &SInst, m: &[Option<u32>; 3], cx: &mut StepCtx<Self>) -> Result<(), Violation> {
        for s in 0..SLOTS.len() {
            let (acct, _, id) = i.slot(s);
            let args: SVec<Val> = (id, acct).into_val(&i.e);
            let got = view(&i.e, &i.c, "get_threshold", args).ok().and_then(|v| u32::try_from_val(&i.e, &v).ok());
            ensure!(got == m[s], "lockstep", "get_threshold of tenant {:?}: contract {:?}, model {:?}", SLOTS[s], got, m[s]);
        }
        cx.stats.count("getter-comparisons", SLOTS.len() as u64);
        Ok(())
    }
}

impl World for Simple {
    type Op = SOp;
    type Model = [Option<u32>; 3];
    type Inst = SInst;

    fn name(&self) -> String {
        "simple-threshold".into()
    }

    fn fresh(&self, _seed: usize) -> (SInst, Self::Model) {
        let e = envx::mk_env(10);
        let a1 = Address::generate(&e);
        let a2 = Address::generate(&e);
        auth::back(&e, &a1);
        auth::back(&e, &a2);
        let sg: Vec<Address> = (0..4).map(|_| Address::generate(&e)).collect();
        let tok = Address::generate(&e);
        let to = Address::generate(&e);
        let c = e.register(threshold_policy::ThresholdPolicyContract, ());
        (SInst { e, c, accts: [a1, a2], sg, tok, to }, [None; 3])
    }

    fn ops(&self, _i: &SInst, _m: &Self::Model, _depth: usize) -> Vec<SOp> {
        let mut v = vec![];
        for slot in 0..SLOTS.len() {
            for n in 0..=4u32 {
                for t in 0..=5u32 {
                    for by in BYS {
                        v.push(SOp::Install { slot, n, t, by });
                    }
                }
            }
        }
        for slot in 0..SLOTS.len() {
            for n in 0..=4u32 {
                for t in 0..=5u32 {
                    for by in BYS {
                        v.push(SOp::SetThreshold { slot, n, t, by });
                    }
                }
            }
        }
        for slot in 0..SLOTS.len() {
            for by in BYS {
                v.push(SOp::Uninstall { slot, by });
            }
        }
        for slot in 0..SLOTS.len() {
            for n in 0..=4u32 {
                for mask in 0..(1u8 << n) {
                    for by in BYS {
                        v.push(SOp::Enforce { slot, n, mask, by });
                    }
                }
            }
        }
        v.push(SOp::IdleProbe);
        v
    }

    fn kind(&self, op: &SOp) -> String {
        match op {
            SOp::IdleProbe => "idle-probe".into(),
            SOp::Install { n, t, by, .. } if *by == By::Acct && (*t == 0 || t > n) => "simple.install.zero-or-unreachable".into(),
            SOp::Install { by, .. } => format!("simple.install{}", by_tag(*by)),
            SOp::SetThreshold { n, t, by, .. } if *by == By::Acct && (*t == 0 || t > n) => {
                "simple.set_threshold.zero-or-unreachable".into()
            }
            SOp::SetThreshold { by, .. } => format!("simple.set_threshold{}", by_tag(*by)),
            SOp::Uninstall { by, .. } => format!("simple.uninstall{}", by_tag(*by)),
            SOp::Enforce { by, .. } => format!("simple.enforce{}", by_tag(*by)),
        }
    }

    fn apply(&self, i: &mut SInst, op: &SOp) {
        self.exec(i, op);
    }

    fn leaf_only(&self, op: &SOp) -> bool {
        matches!(op, SOp::Enforce { .. })
    }

    fn step(&self, i: &mut SInst, m: &mut Self::Model, op: &SOp, cx: &mut StepCtx<Self>) -> Result<bool, Violation> {
        match op {
            SOp::IdleProbe => {
                let copy = cx.rebuild();
                envx::advance(&copy.e, IDLE);
                self.idle_check(&copy, m, cx)?;
                Ok(false)
            }
            SOp::Install { slot, n, t, by } | SOp::SetThreshold { slot, n, t, by } => {
                let ok = self.exec(i, op);
                if ok {
                    ensure!(*by == By::Acct, "account-authorization", "{:?} succeeded without the account's authorization", op);
                    ensure!(
                        *t != 0 && t <= n,
                        "threshold-config",
                        "threshold {} accepted for a rule with {} signers (zero or unreachable)",
                        t,
                        n
                    );
                    m[*slot] = Some(*t);
                    self.lockstep(i, m, cx)?;
                }
                Ok(ok)
            }
            SOp::Uninstall { slot, by } => {
                let ok = self.exec(i, op);
                if ok {
                    ensure!(*by == By::Acct, "account-authorization", "{:?} succeeded without the account's authorization", op);
                    m[*slot] = None;
                    self.lockstep(i, m, cx)?;
                }
                Ok(ok)
            }
            SOp::Enforce { slot, n, mask, by } => {
                let count = mask.count_ones();
                let expect = m[*slot].map(|t| count >= t).unwrap_or(false);
                let (acct, other, _) = i.slot(*slot);
                if *by != By::Acct {
                    let ok = self.exec(i, op);
                    ensure!(!ok, "account-authorization", "enforce succeeded without the account's authorization (signed by {:?})", by);
                    return Ok(ok);
                }
                let (can, ok) = can_then_enforce(&i.e, &i.c, self.enf_args(i, *slot, *n, *mask), &signers_of(*by, &acct, &other), cx.stats)?;
                ensure!(
                    can == ok,
                    "can_enforce-agrees-with-enforce",
                    "can_enforce answered {} but enforce {} ({} authenticated of {} rule signers, threshold {:?})",
                    can,
                    if ok { "succeeded" } else { "failed" },
                    count,
                    n,
                    m[*slot]
                );
                ensure!(
                    ok == expect,
                    "threshold-iff",
                    "{} authenticated rule signers, configured threshold {:?}: enforce {} (expected {})",
                    count,
                    m[*slot],
                    if ok { "accepted" } else { "refused" },
                    if expect { "accept" } else { "refuse" }
                );
                if let Some(t) = m[*slot] {
                    if count == t {
                        cx.stats.count("simple.accepted-exactly-at-threshold", 1);
                    }
                    if count + 1 == t {
                        cx.stats.count("simple.refused-one-below-threshold", 1);
                    }
                }
                Ok(ok)
            }
        }
    }

    fn key(&self, i: &SInst) -> [u8; 32] {
        envx::storage_digest(&i.e, false)
    }

    fn model_digest(&self, m: &Self::Model) -> u64 {
        dig(m)
    }
}

// ------------------------------------------------------------------------------------------
// World B: weighted threshold (wrapper contract)

const WEIGHTS: [u32; 5] = [0, 1, 2, u32::MAX - 1, u32::MAX];
const THRESHOLDS: [u32; 5] = [0, 1, 2, 3, u32::MAX];

#[derive(Clone, Debug, PartialEq, Eq)]
enum WOp {
    /// weights of the three rule signers (None = not in the map)
    Install { w: [Option<u32>; 3], t: u32, by: By },
    SetWeight { i: usize, w: u32, by: By },
    SetThreshold { t: u32, by: By },
    Uninstall { by: By },
    Enforce { mask: u8, by: By },
    /// see `IDLE`: threshold, weights and every subset's verdict after a long time without calls
    IdleProbe,
}

#[derive(Clone, Debug, PartialEq, Eq, Hash)]
struct WCfg {
    w: [Option<u32>; 3],
    t: u32,
}

impl WCfg {
    fn total(&self) -> u64 {
        self.w.iter().map(|x| x.unwrap_or(0) as u64).sum()
    }
    fn sum(&self, mask: u8) -> u64 {
        (0..3).filter(|i| mask & (1 << i) != 0).map(|i| self.w[i].unwrap_or(0) as u64).sum()
    }
}

struct Weighted;

struct WInst {
    e: Env,
    c: Address,
    acct: Address,
    other: Address,
    sg: Vec<Address>,
    tok: Address,
    to: Address,
}

impl Weighted {
    fn rule(&self, i: &WInst) -> ContextRule {
        mk_rule(&i.e, 1, &i.sg)
    }

    fn enf_args(&self, i: &WInst, mask: u8) -> SVec<Val> {
        let ctx = transfer_ctx(&i.e, &i.tok, &i.acct, &i.to, 1);
        enforce_args(&i.e, &ctx, &subset(&i.e, &i.sg, mask), &self.rule(i), &i.acct)
    }

    fn exec(&self, i: &WInst, op: &WOp) -> bool {
        let e = &i.e;
        match op {
            WOp::Install { w, t, by } => {
                let mut map: Map<Signer, u32> = Map::new(e);
                for (k, x) in w.iter().enumerate() {
                    if let Some(x) = x {
                        map.set(Signer::Delegated(i.sg[k].clone()), *x);
                    }
                }
                let params = WeightedThresholdAccountParams { signer_weights: map, threshold: *t };
                let args: SVec<Val> = (params, self.rule(i), i.acct.clone()).into_val(e);
                call_signed(e, &i.c, "install", args, &signers_of(*by, &i.acct, &i.other)).is_ok()
            }
            WOp::SetWeight { i: k, w, by } => {
                let args: SVec<Val> = (Signer::Delegated(i.sg[*k].clone()), *w, self.rule(i), i.acct.clone()).into_val(e);
                call_signed(e, &i.c, "set_signer_weight", args, &signers_of(*by, &i.acct, &i.other)).is_ok()
            }
            WOp::SetThreshold { t, by } => {
                let args: SVec<Val> = (*t, self.rule(i), i.acct.clone()).into_val(e);
                call_signed(e, &i.c, "set_threshold", args, &signers_of(*by, &i.acct, &i.other)).is_ok()
            }
            WOp::Uninstall { by } => {
                let args: SVec<Val> = (self.rule(i), i.acct.clone()).into_val(e);
                call_signed(e, &i.c, "uninstall", args, &signers_of(*by, &i.acct, &i.other)).is_ok()
            }
            WOp::Enforce { mask, by } => {
                call_signed(e, &i.c, "enforce", self.enf_args(i, *mask), &signers_of(*by, &i.acct, &i.other)).is_ok()
            }
            // not a call
            WOp::IdleProbe => false,
        }
    }

    /// The idle probe on a throw-away copy of the state on which `IDLE` ledgers have passed:
    /// nothing of this policy is time-dependent, so get_threshold / get_signer_weights still agree
    /// with the model and every authenticated subset is accepted exactly when the policy is
    /// installed and the subset's weight reaches the threshold.
    fn idle_check(&self, i: &WInst, m: &Option<WCfg>, cx: &mut StepCtx<Self>) -> Result<(), Violation> {
        self.lockstep(i, m, cx).map_err(idle_viol)?;
        for mask in 0..8u8 {
            let expect = m.as_ref().map(|c| c.sum(mask) >= c.t as u64).unwrap_or(false);
            idle_enforce(&i.e, &i.c, self.enf_args(i, mask), &i.acct, expect, &format!("the authenticated subset {:#05b} under configuration {:?}", mask, m))?;
        }
        cx.stats.count("idle-probes", 1);
        cx.stats.count("getter-comparisons-after-long-idle", 2 + 16);
        Ok(())
    }

    fn lockstep(&self, i: &WInst, m: &Option<WCfg>, cx: &mut StepCtx<Self>) -> Result<(), Violation> {
        let e = &i.e;
        let args: SVec<Val> = (1u32, i.acct.clone()).into_val(e);
        let thr = view(e, &i.c, "get_threshold", args).ok().and_then(|v| u32::try_from_val(e, &v).ok());
        ensure!(thr == m.as_ref().map(|c| c.t), "lockstep", "get_threshold: contract {:?}, model {:?}", thr, m);
        let args: SVec<Val> = (self.rule(i), i.acct.clone()).into_val(e);
        let ws = view(e, &i.c, "get_signer_weights", args).ok().and_then(|v| Map::<Signer, u32>::try_from_val(e, &v).ok());
        match (ws, m) {
            (None, None) => {}
            (Some(map), Some(cfg)) => {
                let mut got = [None; 3];
                for (s, w) in map.iter() {
                    let pos = i.sg.iter().position(|a| Signer::Delegated(a.clone()) == s);
                    ensure!(pos.is_some(), "lockstep", "get_signer_weights holds a signer that was never configured");
                    got[pos.unwrap()] = Some(w);
                }
                ensure!(got == cfg.w, "lockstep", "get_signer_weights: contract {:?}, model {:?}", got, cfg.w);
            }
            (a, b) => {
                ensure!(false, "lockstep", "get_signer_weights installed={} but model installed={}", a.is_some(), b.is_some());
            }
        }
        cx.stats.count("getter-comparisons", 2);
        Ok(())
    }
}

impl World for Weighted {
    type Op = WOp;
    type Model = Option<WCfg>;
    type Inst = WInst;

    fn name(&self) -> String {
        "weighted-threshold".into()
    }

    fn fresh(&self, _seed: usize) -> (WInst, Self::Model) {
        let e = envx::mk_env(10);
        let acct = Address::generate(&e);
        let other = Address::generate(&e);
        auth::back(&e, &acct);
        auth::back(&e, &other);
        let sg: Vec<Address> = (0..3).map(|_| Address::generate(&e)).collect();
        let tok = Address::generate(&e);
        let to = Address::generate(&e);
        let c = e.register(policy_wrap::WeightedPolicyWrap, ());
        (WInst { e, c, acct, other, sg, tok, to }, None)
    }

    fn ops(&self, _i: &WInst, m: &Self::Model, _depth: usize) -> Vec<WOp> {
        let mut v = vec![];
        if m.is_none() {
            let mut choices: Vec<Option<u32>> = vec![None];
            choices.extend(WEIGHTS.iter().map(|w| Some(*w)));
            for by in BYS {
                for a in &choices {
                    for b in &choices {
                        for c in &choices {
                            for t in THRESHOLDS {
                                v.push(WOp::Install { w: [*a, *b, *c], t, by });
                            }
                        }
                    }
                }
            }
        } else {
            // installing over an existing configuration must not succeed unsigned either
            for by in BYS {
                v.push(WOp::Install { w: [Some(1), Some(1), Some(1)], t: 1, by });
            }
        }
        for i in 0..3 {
            for w in WEIGHTS {
                for by in BYS {
                    v.push(WOp::SetWeight { i, w, by });
                }
            }
        }
        for t in THRESHOLDS {
            for by in BYS {
                v.push(WOp::SetThreshold { t, by });
            }
        }
        for by in BYS {
            v.push(WOp::Uninstall { by });
        }
        for mask in 0..8u8 {
            for by in BYS {
                v.push(WOp::Enforce { mask, by });
            }
        }
        v.push(WOp::IdleProbe);
        v
    }

    fn kind(&self, op: &WOp) -> String {
        match op {
            WOp::IdleProbe => "idle-probe".into(),
            WOp::Install { w, t, by } if *by == By::Acct => {
                let total: u64 = w.iter().map(|x| x.unwrap_or(0) as u64).sum();
                if *t == 0 || (*t as u64) > total {
                    "weighted.install.zero-or-unreachable".into()
                } else if total > u32::MAX as u64 {
                    "weighted.install.total-past-u32".into()
                } else {
                    "weighted.install".into()
                }
            }
            WOp::Install { by, .. } => format!("weighted.install{}", by_tag(*by)),
            WOp::SetWeight { by, .. } => format!("weighted.set_signer_weight{}", by_tag(*by)),
            WOp::SetThreshold { t: 0, by: By::Acct } => "weighted.set_threshold.zero".into(),
            WOp::SetThreshold { by, .. } => format!("weighted.set_threshold{}", by_tag(*by)),
            WOp::Uninstall { by } => format!("weighted.uninstall{}", by_tag(*by)),
            WOp::Enforce { by, .. } => format!("weighted.enforce{}", by_tag(*by)),
        }
    }

    fn apply(&self, i: &mut WInst, op: &WOp) {
        self.exec(i, op);
    }

    fn leaf_only(&self, op: &WOp) -> bool {
        matches!(op, WOp::Enforce { .. })
    }

    fn step(&self, i: &mut WInst, m: &mut Self::Model, op: &WOp, cx: &mut StepCtx<Self>) -> Result<bool, Violation> {
        if matches!(op, WOp::IdleProbe) {
            let copy = cx.rebuild();
            envx::advance(&copy.e, IDLE);
            self.idle_check(&copy, m, cx)?;
            return Ok(false);
        }
        let by = match op {
            WOp::IdleProbe => unreachable!(),
            WOp::Install { by, .. } | WOp::SetWeight { by, .. } | WOp::SetThreshold { by, .. } | WOp::Uninstall { by } | WOp::Enforce { by, .. } => *by,
        };
        if let WOp::Enforce { mask, .. } = op {
            if by != By::Acct {
                let ok = self.exec(i, op);
                ensure!(!ok, "account-authorization", "enforce succeeded without the account's authorization (signed by {:?})", by);
                return Ok(ok);
            }
            let (can, ok) = can_then_enforce(&i.e, &i.c, self.enf_args(i, *mask), &[i.acct.clone()], cx.stats)?;
            let sum = m.as_ref().map(|c| c.sum(*mask));
            let expect = m.as_ref().map(|c| c.sum(*mask) >= c.t as u64).unwrap_or(false);
            ensure!(
                can == ok,
                "can_enforce-agrees-with-enforce",
                "can_enforce answered {} but enforce {} (subset mask {:#05b}, weight sum {:?}, config {:?})",
                can,
                if ok { "succeeded" } else { "failed" },
                mask,
                sum,
                m
            );
            ensure!(
                ok == expect,
                "weight-iff",
                "authenticated subset {:#05b} has weight sum {:?} under config {:?}: enforce {} (expected {})",
                mask,
                sum,
                m,
                if ok { "accepted" } else { "refused" },
                if expect { "accept" } else { "refuse" }
            );
            if let (Some(s), Some(c)) = (sum, m.as_ref()) {
                if s == c.t as u64 {
                    cx.stats.count("weighted.accepted-exactly-at-threshold", 1);
                }
                if s + 1 == c.t as u64 {
                    cx.stats.count("weighted.refused-one-below-threshold", 1);
                }
                if s >= (u32::MAX - 1) as u64 {
                    cx.stats.count("weighted.subset-sum-near-u32-max", 1);
                }
            }
            return Ok(ok);
        }
        let ok = self.exec(i, op);
        if !ok {
            return Ok(false);
        }
        ensure!(by == By::Acct, "account-authorization", "{:?} succeeded without the account's authorization", op);
        match op {
            WOp::Install { w, t, .. } => {
                *m = Some(WCfg { w: *w, t: *t });
            }
            WOp::SetWeight { i: k, w, .. } => {
                ensure!(m.is_some(), "threshold-config", "set_signer_weight succeeded although the policy is not installed");
                m.as_mut().unwrap().w[*k] = Some(*w);
            }
            WOp::SetThreshold { t, .. } => {
                ensure!(m.is_some(), "threshold-config", "set_threshold succeeded although the policy is not installed");
                m.as_mut().unwrap().t = *t;
            }
            WOp::Uninstall { .. } => *m = None,
            WOp::Enforce { .. } | WOp::IdleProbe => unreachable!(),
        }
        if let Some(c) = m.as_ref() {
            ensure!(
                c.t != 0 && (c.t as u64) <= c.total(),
                "threshold-config",
                "{:?} left threshold {} with total configured weight {} (zero or unreachable)",
                op,
                c.t,
                c.total()
            );
            if c.total() > u32::MAX as u64 {
                cx.stats.count("weighted.config-with-total-past-u32", 1);
            }
        }
        self.lockstep(i, m, cx)?;
        Ok(true)
    }

    fn key(&self, i: &WInst) -> [u8; 32] {
        envx::storage_digest(&i.e, false)
    }

    fn model_digest(&self, m: &Self::Model) -> u64 {
        dig(m)
    }
}

// ------------------------------------------------------------------------------------------
// World C: spending limit (example contract)

#[derive(Clone, Copy, Debug, PartialEq, Eq)]
enum Bad {
    /// contract context of another function with a transfer-shaped argument list
    OtherFn,
    /// transfer(from, to) — no amount argument
    NoAmount,
    /// transfer(from, to, 1u64)
    AmountU64,
    /// transfer(from, to, symbol)
    AmountSymbol,
    /// contract-creation context
    CreateContract,
    /// well-formed transfer(…, 1) but no authenticated signer
    NoSigners,
    /// well-formed transfer(…, 1) for a rule id the policy was never installed for
    OtherRule,
    /// well-formed transfer(…, 1) for another account (never installed)
    OtherAccount,
}
const BADS: [Bad; 8] =
    [Bad::OtherFn, Bad::NoAmount, Bad::AmountU64, Bad::AmountSymbol, Bad::CreateContract, Bad::NoSigners, Bad::OtherRule, Bad::OtherAccount];

#[derive(Clone, Copy, Debug, PartialEq, Eq)]
enum Target {
    Spend1,
    SetLimit,
    Install,
    Uninstall,
}
const TARGETS: [Target; 4] = [Target::Spend1, Target::SetLimit, Target::Install, Target::Uninstall];

#[derive(Clone, Debug, PartialEq, Eq)]
enum POp {
    Spend(i128),
    SetLimit(i128),
    Advance(u32),
    /// leaf: can_enforce + enforce (signed by the account) of a non-transfer / malformed context
    Malformed(Bad),
    /// leaf: a state-changing entry point signed by somebody else / nobody
    Unsigned(Target, By),
    /// see `IDLE`: the installed limit / period and the availability of the WHOLE limit after a
    /// long time without calls
    IdleProbe,
}

#[derive(Clone, Debug)]
struct PModel {
    limit: i128,
    period: u32,
    now: u32,
    /// authorized (ledger, amount), pruned to the entries that can still share a window with a
    /// future authorization (ledger > now − period)
    live: Vec<(u32, i128)>,
    /// Σ of everything ever authorized (statistics only)
    ever: i128,
}

impl PModel {
    fn prune(&mut self) {
        let (now, p) = (self.now as u64, self.period as u64);
        self.live.retain(|(l, _)| (*l as u64) + p > now);
    }
    /// Printable form of the live window (grouped by ledger when long).
    fn show(&self) -> String {
        if self.live.len() <= 8 {
            return format!("{:?}", self.live);
        }
        let mut g: std::collections::BTreeMap<u32, (u32, i128)> = Default::default();
        for (l, a) in &self.live {
            let x = g.entry(*l).or_default();
            x.0 += 1;
            x.1 = x.1.saturating_add(*a);
        }
        let parts: Vec<String> = g.iter().map(|(l, (n, s))| format!("ledger {l}: {n} transfers totalling {s}")).collect();
        format!("[{}]", parts.join("; "))
    }
    fn window_sum(&self) -> Option<i128> {
        let mut s: i128 = 0;
        for (_, a) in &self.live {
            s = s.checked_add(*a)?;
        }
        Some(s)
    }
}

struct Spend {
    limit: i128,
    period: u32,
    start: u32,
    amounts: Vec<i128>,
    set_limits: Vec<i128>,
    /// seeds: (spends of 1 at ledger `start`, spends of 1 at ledger `start+1`)
    bulk: Vec<(u32, u32)>,
    /// leaf probes are attached to states up to this depth
    probe_depth: usize,
    /// bulk seeds are written straight into the policy's storage entry (validated against real
    /// calls once per run); false = build them with real `enforce` calls (slow, layout-independent)
    direct_seeds: bool,
}

struct PInst {
    e: Env,
    c: Address,
    acct: Address,
    other: Address,
    s1: Address,
    tok: Address,
    to: Address,
}

impl Spend {
    fn rule(&self, i: &PInst, id: u32) -> ContextRule {
        mk_rule(&i.e, id, std::slice::from_ref(&i.s1))
    }

    fn spend_args(&self, i: &PInst, a: i128) -> SVec<Val> {
        let ctx = transfer_ctx(&i.e, &i.tok, &i.acct, &i.to, a);
        enforce_args(&i.e, &ctx, &subset(&i.e, std::slice::from_ref(&i.s1), 1), &self.rule(i, 1), &i.acct)
    }

    fn bad_args(&self, i: &PInst, b: Bad) -> (SVec<Val>, Address) {
        let e = &i.e;
        let one = subset(e, std::slice::from_ref(&i.s1), 1);
        let good = transfer_ctx(e, &i.tok, &i.acct, &i.to, 1);
        let with_args = |f: Symbol, third: Option<Val>| {
            let mut args: SVec<Val> = SVec::new(e);
            args.push_back(i.acct.into_val(e));
            args.push_back(i.to.into_val(e));
            if let Some(v) = third {
                args.push_back(v);
            }
            Context::Contract(ContractContext { contract: i.tok.clone(), fn_name: f, args })
        };
        let (ctx, authd, rule, acct) = match b {
            Bad::OtherFn => (with_args(symbol_short!("approve"), Some(1i128.into_val(e))), one, self.rule(i, 1), i.acct.clone()),
            Bad::NoAmount => (with_args(symbol_short!("transfer"), None), one, self.rule(i, 1), i.acct.clone()),
            Bad::AmountU64 => (with_args(symbol_short!("transfer"), Some(1u64.into_val(e))), one, self.rule(i, 1), i.acct.clone()),
            Bad::AmountSymbol => {
                (with_args(symbol_short!("transfer"), Some(symbol_short!("one").into_val(e))), one, self.rule(i, 1), i.acct.clone())
            }
            Bad::CreateContract => (
                Context::CreateContractHostFn(CreateContractHostFnContext {
                    executable: ContractExecutable::Wasm(BytesN::from_array(e, &[3u8; 32])),
                    salt: BytesN::from_array(e, &[4u8; 32]),
                }),
                one,
                self.rule(i, 1),
                i.acct.clone(),
            ),
            Bad::NoSigners => (good, SVec::new(e), self.rule(i, 1), i.acct.clone()),
            Bad::OtherRule => (good, one, self.rule(i, 2), i.acct.clone()),
            Bad::OtherAccount => (good, one, self.rule(i, 1), i.other.clone()),
        };
        (enforce_args(e, &ctx, &authd, &rule, &acct), acct)
    }

    fn install(&self, i: &PInst, limit: i128, period: u32, signers: &[Address]) -> bool {
        let params = SpendingLimitAccountParams { spending_limit: limit, period_ledgers: period };
        let args: SVec<Val> = (params, self.rule(i, 1), i.acct.clone()).into_val(&i.e);
        call_signed(&i.e, &i.c, "install", args, signers).is_ok()
    }

    fn set_limit(&self, i: &PInst, l: i128, signers: &[Address]) -> bool {
        let args: SVec<Val> = (l, self.rule(i, 1), i.acct.clone()).into_val(&i.e);
        call_signed(&i.e, &i.c, "set_spending_limit", args, signers).is_ok()
    }

    fn exec(&self, i: &PInst, op: &POp) -> bool {
        let e = &i.e;
        match op {
            POp::Spend(a) => call_signed(e, &i.c, "enforce", self.spend_args(i, *a), &[i.acct.clone()]).is_ok(),
            POp::SetLimit(l) => self.set_limit(i, *l, &[i.acct.clone()]),
            POp::Advance(k) => {
                envx::advance(e, *k);
                true
            }
            POp::Malformed(b) => {
                let (args, acct) = self.bad_args(i, *b);
                call_signed(e, &i.c, "enforce", args, &[acct]).is_ok()
            }
            POp::Unsigned(t, by) => {
                let s = signers_of(*by, &i.acct, &i.other);
                match t {
                    Target::Spend1 => call_signed(e, &i.c, "enforce", self.spend_args(i, 1), &s).is_ok(),
                    Target::SetLimit => self.set_limit(i, 1_000_000, &s),
                    Target::Install => {
                        // a second rule id, so that "already installed" cannot be the reason
                        let params = SpendingLimitAccountParams { spending_limit: 7, period_ledgers: 2 };
                        let args: SVec<Val> = (params, self.rule(i, 2), i.acct.clone()).into_val(e);
                        call_signed(e, &i.c, "install", args, &s).is_ok()
                    }
                    Target::Uninstall => {
                        let args: SVec<Val> = (self.rule(i, 1), i.acct.clone()).into_val(e);
                        call_signed(e, &i.c, "uninstall", args, &s).is_ok()
                    }
                }
            }
            // not a call
            POp::IdleProbe => false,
        }
    }

    /// The idle probe on a throw-away copy of the state on which `IDLE` ledgers have passed
    /// (`m` = the model at the old ledger). Evaluated AT THE NEW LEDGER: the installed limit and
    /// period are unchanged (they are not time-dependent); every recorded spend is older than the
    /// period (IDLE > every period of the alphabet), so the window is empty and the whole limit
    /// is available again: a transfer of exactly the limit is accepted (also from the 999 /
    /// 1000-entry histories: all their entries have left the window), a transfer of limit+1 is
    /// refused. The stored history itself (pruned lazily) is not compared.
    fn idle_check(&self, i: &PInst, m: &PModel, cx: &mut StepCtx<Self>) -> Result<(), Violation> {
        ensure!((m.period as u64) < IDLE as u64, "harness", "period {} is not shorter than the idle period", m.period);
        let d = self.data(i);
        ensure!(
            d.is_some(),
            "state-survives-idle",
            "after {} ledgers without any call get_spending_limit_data fails: the installed policy (limit {}, period {}) is gone",
            IDLE,
            m.limit,
            m.period
        );
        let d = d.unwrap();
        ensure!(
            d.spending_limit == m.limit && d.period_ledgers == m.period,
            "state-survives-idle",
            "after {} ledgers without any call get_spending_limit_data reports limit {} period {}, installed / last set: {} / {}",
            IDLE,
            d.spending_limit,
            d.period_ledgers,
            m.limit,
            m.period
        );
        if let Some(over) = m.limit.checked_add(1) {
            idle_enforce(&i.e, &i.c, self.spend_args(i, over), &i.acct, false, &format!("a transfer of {} (limit {} + 1, window empty)", over, m.limit))?;
        }
        idle_enforce(
            &i.e,
            &i.c,
            self.spend_args(i, m.limit),
            &i.acct,
            true,
            &format!("a transfer of the whole limit {} (every recorded spend {} is older than the period {})", m.limit, m.show(), m.period),
        )?;
        cx.stats.count("idle-probes", 1);
        cx.stats.count("getter-comparisons-after-long-idle", 5);
        Ok(())
    }

    /// Installed policy, optionally with a bulk history of `a` spends of 1 at ledger `start` and
    /// `b` at `start+1`. `direct` writes that history straight into the policy's storage entry
    /// (1000 real calls cost ≈ 0.3 s, far too much for a state that is rebuilt for every
    /// transition); `validate_bulk_seeds` proves once per run that the directly written state is
    /// bit-identical to the one the real `enforce` calls produce.
    fn build(&self, seed: usize, direct: bool) -> (PInst, PModel) {
        let e = envx::mk_env(self.start);
        let acct = Address::generate(&e);
        let other = Address::generate(&e);
        auth::back(&e, &acct);
        auth::back(&e, &other);
        let s1 = Address::generate(&e);
        let tok = Address::generate(&e);
        let to = Address::generate(&e);
        let c = e.register(spending_policy::SpendingLimitPolicyContract, ());
        let i = PInst { e, c, acct, other, s1, tok, to };
        assert!(self.install(&i, self.limit, self.period, &[i.acct.clone()]), "install of the spending policy failed");
        let mut m = PModel { limit: self.limit, period: self.period, now: self.start, live: vec![], ever: 0 };
        if let Some((a, b)) = self.bulk.get(seed) {
            for _ in 0..*a {
                m.live.push((self.start, 1));
            }
            for _ in 0..*b {
                m.live.push((self.start + 1, 1));
            }
            m.ever = (*a + *b) as i128;
            m.now = self.start + 1;
            if direct {
                envx::advance(&i.e, 1);
                let e = &i.e;
                let mut h: SVec<SpendingEntry> = SVec::new(e);
                for (l, amount) in &m.live {
                    h.push_back(SpendingEntry { amount: *amount, ledger_sequence: *l });
                }
                let data = SpendingLimitData {
                    spending_limit: self.limit,
                    period_ledgers: self.period,
                    spending_history: h,
                    cached_total_spent: m.ever,
                };
                let key = SpendingLimitStorageKey::AccountContext(i.acct.clone(), 1);
                e.as_contract(&i.c, || e.storage().persistent().set(&key, &data));
            } else {
                for _ in 0..*a {
                    assert!(self.exec(&i, &POp::Spend(1)), "bulk seed spend refused");
                }
                envx::advance(&i.e, 1);
                for _ in 0..*b {
                    assert!(self.exec(&i, &POp::Spend(1)), "bulk seed spend refused");
                }
            }
        }
        (i, m)
    }

    /// The directly written bulk seeds equal the states reached through real calls.
    fn validate_bulk_seeds(&self) -> Result<(), String> {
        for seed in 0..self.bulk.len() {
            let (d, _) = self.build(seed, true);
            let (r, _) = self.build(seed, false);
            if envx::storage_digest(&d.e, true) != envx::storage_digest(&r.e, true) {
                return Err(format!(
                    "bulk seed '{}' written directly differs from the state produced by real enforce calls (storage layout of the spending-limit policy changed: adapt Spend::build)",
                    self.seed_name(seed)
                ));
            }
        }
        Ok(())
    }

    fn data(&self, i: &PInst) -> Option<SpendingLimitData> {
        let args: SVec<Val> = (1u32, i.acct.clone()).into_val(&i.e);
        view(&i.e, &i.c, "get_spending_limit_data", args).ok().and_then(|v| SpendingLimitData::try_from_val(&i.e, &v).ok())
    }
}

impl World for Spend {
    type Op = POp;
    type Model = PModel;
    type Inst = PInst;

    fn name(&self) -> String {
        format!("spending-limit(L={},P={})@{}{}", self.limit, self.period, self.start, if self.bulk.is_empty() { "" } else { "-bulk" })
    }

    fn seeds(&self) -> usize {
        self.bulk.len().max(1)
    }

    fn seed_name(&self, seed: usize) -> String {
        match self.bulk.get(seed) {
            None => "installed, no history".into(),
            Some((a, b)) => format!("{} spends of 1 at ledger {}, {} at ledger {}", a, self.start, b, self.start + 1),
        }
    }

    fn fresh(&self, seed: usize) -> (PInst, PModel) {
        self.build(seed, self.direct_seeds)
    }

    fn ops(&self, _i: &PInst, _m: &PModel, depth: usize) -> Vec<POp> {
        let mut v: Vec<POp> = self.amounts.iter().map(|a| POp::Spend(*a)).collect();
        v.extend(self.set_limits.iter().map(|l| POp::SetLimit(*l)));
        v.push(POp::Advance(1));
        if depth <= self.probe_depth {
            v.extend(BADS.iter().map(|b| POp::Malformed(*b)));
            for t in TARGETS {
                for by in [By::Other, By::Nobody] {
                    v.push(POp::Unsigned(t, by));
                }
            }
        }
        v.push(POp::IdleProbe);
        v
    }

    fn kind(&self, op: &POp) -> String {
        match op {
            POp::Spend(_) => "spend".into(),
            POp::SetLimit(_) => "set_spending_limit".into(),
            POp::Advance(_) => "advance".into(),
            POp::Malformed(b) => format!("enforce.{:?}", b),
            POp::Unsigned(t, _) => format!("unauthorized.{:?}", t),
            POp::IdleProbe => "idle-probe".into(),
        }
    }

    fn apply(&self, i: &mut PInst, op: &POp) {
        self.exec(i, op);
    }

    fn leaf_only(&self, op: &POp) -> bool {
        matches!(op, POp::Malformed(_) | POp::Unsigned(..))
    }

    fn atomic_on_refusal(&self, op: &POp) -> bool {
        !matches!(op, POp::Advance(_))
    }

    fn step(&self, i: &mut PInst, m: &mut PModel, op: &POp, cx: &mut StepCtx<Self>) -> Result<bool, Violation> {
        match op {
            POp::IdleProbe => {
                let copy = cx.rebuild();
                envx::advance(&copy.e, IDLE);
                self.idle_check(&copy, m, cx)?;
                Ok(false)
            }
            POp::Spend(a) => {
                let (can, ok) = can_then_enforce(&i.e, &i.c, self.spend_args(i, *a), &[i.acct.clone()], cx.stats)?;
                ensure!(
                    can == ok,
                    "can_enforce-agrees-with-enforce",
                    "transfer of {} at ledger {}: can_enforce answered {} but enforce {}; authorized so far in the window: {}, limit {}",
                    a,
                    m.now,
                    can,
                    if ok { "succeeded" } else { "failed" },
                    m.show(),
                    m.limit
                );
                m.prune();
                let before = m.window_sum();
                let with = before.and_then(|s| s.checked_add(*a));
                let fits = with.map(|s| s <= m.limit).unwrap_or(false);
                if ok {
                    ensure!(
                        fits,
                        "window-sum",
                        "transfer of {} authorized at ledger {}: together with {} (authorized within the last {} ledgers) that exceeds the limit {} in force",
                        a,
                        m.now,
                        m.show(),
                        m.period,
                        m.limit
                    );
                    if m.ever > m.limit - *a {
                        cx.stats.count("spend.accepted-after-older-spends-left-the-window", 1);
                    }
                    if with == Some(m.limit) {
                        cx.stats.count("spend.accepted-exactly-at-limit", 1);
                    }
                    m.live.push((m.now, *a));
                    m.ever = m.ever.saturating_add(*a);
                    let d = self.data(i);
                    ensure!(d.is_some(), "lockstep", "get_spending_limit_data failed after an accepted spend");
                    let d = d.unwrap();
                    ensure!(
                        d.spending_limit == m.limit && d.period_ledgers == m.period,
                        "lockstep",
                        "get_spending_limit_data reports limit {} period {}, model {} / {}",
                        d.spending_limit,
                        d.period_ledgers,
                        m.limit,
                        m.period
                    );
                    cx.stats.count("getter-comparisons", 1);
                } else {
                    if fits {
                        cx.stats.count("spend.refused-although-within-limit", 1);
                    }
                    if with == m.limit.checked_add(1) {
                        cx.stats.count("spend.refused-one-above-limit", 1);
                    }
                }
                Ok(ok)
            }
            POp::SetLimit(l) => {
                let ok = self.exec(i, op);
                if ok {
                    m.limit = *l;
                    let d = self.data(i);
                    ensure!(
                        d.as_ref().map(|d| d.spending_limit) == Some(*l),
                        "lockstep",
                        "set_spending_limit({}) succeeded but get_spending_limit_data reports {:?}",
                        l,
                        d.map(|d| d.spending_limit)
                    );
                    cx.stats.count("getter-comparisons", 1);
                }
                Ok(ok)
            }
            POp::Advance(k) => {
                envx::advance(&i.e, *k);
                m.now += *k;
                m.prune();
                Ok(true)
            }
            POp::Malformed(b) => {
                let (args, acct) = self.bad_args(i, *b);
                let (can, ok) = can_then_enforce(&i.e, &i.c, args, &[acct], cx.stats)?;
                ensure!(
                    can == ok,
                    "can_enforce-agrees-with-enforce",
                    "context {:?}: can_enforce answered {} but enforce {}",
                    b,
                    can,
                    if ok { "succeeded" } else { "failed" }
                );
                Ok(ok)
            }
            POp::Unsigned(t, by) => {
                let ok = self.exec(i, op);
                ensure!(!ok, "account-authorization", "{:?} succeeded although signed by {:?}, not by the account", t, by);
                Ok(ok)
            }
        }
    }

    fn key(&self, i: &PInst) -> [u8; 32] {
        envx::storage_digest(&i.e, true)
    }

    fn model_key(&self, m: &PModel) -> u64 {
        // what was authorized inside the still-relevant window is exactly what decides later
        // verdicts; a defective implementation may have forgotten it, so it must keep states apart
        dig(&(&m.live, m.limit))
    }
}

// ------------------------------------------------------------------------------------------
// World D (thorough): several transfers inside ONE authorization batch, through the real
// `__check_auth` of the multisig account example.

#[derive(Clone, Debug, PartialEq, Eq)]
enum BOp {
    /// __check_auth with these transfer contexts (one batch)
    Batch(Vec<i128>),
    Advance(u32),
    /// see `IDLE`: the account's rule, signer and policy and the policy's limit after a long time
    /// without calls
    IdleProbe,
}

struct Batch {
    limit: i128,
    period: u32,
}

struct BInst {
    e: Env,
    account: Address,
    s1: Address,
    tok: Address,
    to: Address,
}

impl Batch {
    fn exec(&self, i: &BInst, op: &BOp) -> bool {
        let e = &i.e;
        match op {
            BOp::Batch(amounts) => {
                let mut ctxs: SVec<Context> = SVec::new(e);
                for a in amounts {
                    ctxs.push_back(transfer_ctx(e, &i.tok, &i.account, &i.to, *a));
                }
                let mut sigs: Map<Signer, Bytes> = Map::new(e);
                sigs.set(Signer::Delegated(i.s1.clone()), Bytes::new(e));
                e.mock_all_auths();
                e.try_invoke_contract_check_auth::<SmartAccountError>(
                    &i.account,
                    &BytesN::from_array(e, &[9u8; 32]),
                    Signatures(sigs).into_val(e),
                    &ctxs,
                )
                .is_ok()
            }
            BOp::Advance(k) => {
                envx::advance(e, *k);
                true
            }
            // not a call
            BOp::IdleProbe => false,
        }
    }
}

impl World for Batch {
    type Op = BOp;
    type Model = PModel;
    type Inst = BInst;

    fn name(&self) -> String {
        format!("account-batch(L={},P={})", self.limit, self.period)
    }

    fn fresh(&self, _seed: usize) -> (BInst, PModel) {
        let e = envx::mk_env(1);
        let s1 = Address::generate(&e);
        auth::back(&e, &s1);
        let tok = Address::generate(&e);
        let to = Address::generate(&e);
        let policy = e.register(spending_policy::SpendingLimitPolicyContract, ());
        let mut signers: SVec<Signer> = SVec::new(&e);
        signers.push_back(Signer::Delegated(s1.clone()));
        let mut policies: Map<Address, Val> = Map::new(&e);
        policies.set(policy, SpendingLimitAccountParams { spending_limit: self.limit, period_ledgers: self.period }.into_val(&e));
        e.mock_all_auths();
        let account = e.register(account_example::MultisigContract, (signers, policies));
        (BInst { e, account, s1, tok, to }, PModel { limit: self.limit, period: self.period, now: 1, live: vec![], ever: 0 })
    }

    fn ops(&self, _i: &BInst, _m: &PModel, _depth: usize) -> Vec<BOp> {
        let am = [0i128, 1, 4, 5, 6, 10, 11];
        let mut v: Vec<BOp> = am.iter().map(|a| BOp::Batch(vec![*a])).collect();
        for a in am {
            for b in am {
                v.push(BOp::Batch(vec![a, b]));
            }
        }
        v.push(BOp::Batch(vec![4, 4, 4]));
        v.push(BOp::Batch(vec![3, 3, 4]));
        v.push(BOp::Advance(1));
        v.push(BOp::IdleProbe);
        v
    }

    fn kind(&self, op: &BOp) -> String {
        match op {
            BOp::Batch(v) => format!("check_auth.batch-of-{}", v.len()),
            BOp::Advance(_) => "advance".into(),
            BOp::IdleProbe => "idle-probe".into(),
        }
    }

    fn apply(&self, i: &mut BInst, op: &BOp) {
        self.exec(i, op);
    }

    fn atomic_on_refusal(&self, op: &BOp) -> bool {
        !matches!(op, BOp::Advance(_))
    }

    fn step(&self, i: &mut BInst, m: &mut PModel, op: &BOp, cx: &mut StepCtx<Self>) -> Result<bool, Violation> {
        if matches!(op, BOp::IdleProbe) {
            // at the new ledger the window is empty: the account (default rule, its signer, the
            // attached policy) and the policy's limit are what they were iff one transfer of
            // limit+1 is refused and one transfer of exactly the limit is authorized
            let copy = cx.rebuild();
            envx::advance(&copy.e, IDLE);
            for (a, expect) in [(m.limit + 1, false), (m.limit, true)] {
                let ok = self.exec(&copy, &BOp::Batch(vec![a]));
                ensure!(
                    ok == expect,
                    "state-survives-idle",
                    "after {} ledgers without any call __check_auth of one transfer of {} {} (limit {}, period {}, every recorded spend {} is older than the period)",
                    IDLE,
                    a,
                    if ok { "succeeds" } else { "fails" },
                    m.limit,
                    m.period,
                    m.show()
                );
            }
            cx.stats.count("idle-probes", 1);
            cx.stats.count("getter-comparisons-after-long-idle", 2);
            return Ok(false);
        }
        let ok = self.exec(i, op);
        match op {
            BOp::IdleProbe => unreachable!(),
            BOp::Advance(k) => {
                m.now += *k;
                m.prune();
            }
            BOp::Batch(amounts) => {
                m.prune();
                let before = m.window_sum().unwrap_or(i128::MAX);
                let each_fits = amounts.iter().all(|a| before + *a <= m.limit);
                let all: i128 = amounts.iter().sum();
                if ok {
                    ensure!(
                        before + all <= m.limit,
                        "window-sum",
                        "one authorization batch with transfers {:?} accepted at ledger {}: together with {} that exceeds the limit {}",
                        amounts,
                        m.now,
                        m.show(),
                        m.limit
                    );
                    for a in amounts {
                        m.live.push((m.now, *a));
                    }
                    m.ever += all;
                } else if each_fits && amounts.len() > 1 && before + all > m.limit {
                    cx.stats.count("batch.refused-each-fits-alone-but-not-together", 1);
                }
            }
        }
        Ok(ok)
    }

    fn key(&self, i: &BInst) -> [u8; 32] {
        envx::storage_digest(&i.e, true)
    }

    fn model_key(&self, m: &PModel) -> u64 {
        dig(&(&m.live, m.limit))
    }
}

// ------------------------------------------------------------------------------------------

fn spend_world(tier: Tier, limit: i128, period: u32, start: u32) -> Spend {
    let mut amounts = vec![0i128, 1, 4, 5, 6, 10, 11];
    if tier == Tier::Thorough {
        amounts.push(i128::MAX);
    }
    Spend { limit, period, start, amounts, set_limits: vec![3, 10], bulk: vec![], probe_depth: tier.pick(4, 6), direct_seeds: true }
}

fn bulk_world(tier: Tier) -> Spend {
    // 999 and 1000 live entries; half of them / exactly one of them (thorough also: none of
    // them) leave the window after one more ledger
    Spend {
        limit: 1003,
        period: 2,
        start: 1,
        amounts: vec![0, 1, 4, 5],
        set_limits: vec![3, 2000],
        bulk: tier.pick(vec![(500, 499), (500, 500), (1, 999)], vec![(500, 499), (500, 500), (1, 999), (0, 1000)]),
        probe_depth: 1,
        direct_seeds: true,
    }
}

fn main() {
    main_with(
        "C14",
        "model_checking",
        "level-BFS on the real policy contracts under enforcing authorization. simple-threshold (example contract): 3 tenants (account, rule id), rules with 0..=4 signers, install/set_threshold with thresholds 0..=5, uninstall, can_enforce+enforce for every authenticated subset, each call signed by the account / another account / nobody; weighted-threshold (wrapper over the library functions): 3 signers, weights {absent,0,1,2,u32::MAX-1,u32::MAX}, thresholds {0,1,2,3,u32::MAX}, install (all 1080 configurations), set_signer_weight, set_threshold, uninstall, every subset, model sums in u64; spending-limit (example contract): limit {5,10} x period {1,2,3} x start ledger {1,100}, spend(a in {0,1,4,5,6,10,11}) = can_enforce+enforce of a transfer context, set_spending_limit {3,10}, Advance(1), leaf probes (other function, missing / u64 / symbol amount, contract creation, no signer, uninstalled rule / account, calls not signed by the account), seeds with 999 and 1000 live history entries; thorough: multisig account example, __check_auth batches of 1..3 transfers. Idle probe in every expanded state of every world: on a rebuilt copy 600000 ledgers pass without any call (beyond every temporary lifetime and the 518400-ledger TTL extensions of the policies and the smart account), then get_threshold / get_signer_weights / limit and period are unchanged, every tenant accepts exactly threshold and refuses threshold-1 signers (simple), every subset is accepted iff its weight reaches the threshold (weighted), and - evaluated at the new ledger, where every recorded spend has left the window - a transfer of limit+1 is refused and a transfer of the whole limit is accepted (spending, account batch). States merged by canonical storage digest (+ ledger) + the model's live window; non-trivial = distinct state reached through >=1 accepted state-changing call",
        |tier: Tier, r: &mut Runner| {
            // wall caps are safety nets (they sum to < 10 min in the thorough tier); on an idle
            // 16-core machine no world comes near its cap in the quick tier
            r.world(&Simple, &Bounds::new(4, 30));
            r.world(&Weighted, &Bounds::new(tier.pick(4, 6), 30));
            let configs: Vec<(i128, u32, u32, usize)> = match tier {
                Tier::Quick => vec![(10, 3, 1, 6), (5, 2, 1, 5), (5, 1, 100, 5), (10, 2, 100, 5)],
                Tier::Thorough => {
                    let mut v = vec![];
                    for start in [1u32, 100] {
                        for limit in [5i128, 10] {
                            for period in [1u32, 2, 3] {
                                v.push((limit, period, start, if (limit, period, start) == (10, 3, 1) { 8 } else { 7 }));
                            }
                        }
                    }
                    v
                }
            };
            for (limit, period, start, depth) in configs {
                let wall = if depth >= 8 { 100 } else { tier.pick(30, 32) };
                r.world(&spend_world(tier, limit, period, start), &Bounds::new(depth, wall));
            }
            // the limit at the top of the amount type: spends in one window must not be able to sum past it
            r.world(
                &Spend { limit: i128::MAX, period: 3, start: 1, amounts: vec![1, 10, i128::MAX - 5, i128::MAX], set_limits: vec![i128::MAX], bulk: vec![], probe_depth: 0, direct_seeds: true },
                &Bounds::new(tier.pick(4, 5), 20),
            );
            let mut bulk = bulk_world(tier);
            let mut bulk_depth = tier.pick(4, 6);
            if let Err(msg) = bulk.validate_bulk_seeds() {
                // the storage layout of the policy differs from the one the shortcut writes: build the
                // 999/1000-entry seeds with real calls instead (about 0.3 s per rebuild, so shallower)
                bulk.direct_seeds = false;
                bulk_depth = 2;
                if let Some(rep) = r.report() {
                    rep.note(&format!("{msg} -> bulk seeds are built through real enforce calls, depth {bulk_depth}"));
                }
            }
            r.world(&bulk, &Bounds::new(bulk_depth, 30));
            if tier == Tier::Thorough || !r.exploring() {
                r.world(&Batch { limit: 10, period: 2 }, &Bounds::new(tier.pick(3, 4), 30));
            }
            let thorough = tier == Tier::Thorough;
            if let Some(rep) = r.report() {
                let mut must_ok = vec![
                    "simple.install",
                    "simple.set_threshold",
                    "simple.uninstall",
                    "simple.enforce",
                    "weighted.install",
                    "weighted.set_signer_weight",
                    "weighted.set_threshold",
                    "weighted.uninstall",
                    "weighted.enforce",
                    "spend",
                    "set_spending_limit",
                ];
                let mut must_refuse = vec![
                    "simple.install.zero-or-unreachable",
                    "simple.set_threshold.zero-or-unreachable",
                    "simple.install.unauthorized",
                    "simple.set_threshold.unauthorized",
                    "simple.uninstall.unauthorized",
                    "simple.enforce",
                    "simple.enforce.unauthorized",
                    "weighted.install.zero-or-unreachable",
                    "weighted.set_threshold.zero",
                    "weighted.set_threshold",
                    "weighted.set_signer_weight",
                    "weighted.install.unauthorized",
                    "weighted.set_signer_weight.unauthorized",
                    "weighted.set_threshold.unauthorized",
                    "weighted.uninstall.unauthorized",
                    "weighted.enforce",
                    "weighted.enforce.unauthorized",
                    "spend",
                    "enforce.OtherFn",
                    "enforce.NoAmount",
                    "enforce.AmountU64",
                    "enforce.AmountSymbol",
                    "enforce.CreateContract",
                    "enforce.NoSigners",
                    "enforce.OtherRule",
                    "enforce.OtherAccount",
                    "unauthorized.Spend1",
                    "unauthorized.SetLimit",
                    "unauthorized.Install",
                    "unauthorized.Uninstall",
                ];
                if thorough {
                    must_ok.extend(["check_auth.batch-of-1", "check_auth.batch-of-2", "check_auth.batch-of-3"]);
                    must_refuse.extend(["check_auth.batch-of-1", "check_auth.batch-of-2", "check_auth.batch-of-3"]);
                }
                rep.require(&must_ok, &must_refuse);
                let mut counters = vec![
                    "idle-probes",
                    "getter-comparisons-after-long-idle",
                    "simple.accepted-exactly-at-threshold",
                    "simple.refused-one-below-threshold",
                    "weighted.accepted-exactly-at-threshold",
                    "weighted.refused-one-below-threshold",
                    "weighted.subset-sum-near-u32-max",
                    "spend.accepted-exactly-at-limit",
                    "spend.refused-one-above-limit",
                    "spend.accepted-after-older-spends-left-the-window",
                ];
                // the history-capacity refusal is an implementation-only failure: demanded as a
                // vacuity witness only while the implementation keeps the known one-entry-per-spend
                // history layout (otherwise the bound may legitimately never bite within the seeds)
                if bulk.direct_seeds {
                    counters.push("spend.refused-although-within-limit");
                }
                if thorough {
                    counters.push("batch.refused-each-fits-alone-but-not-together");
                }
                rep.require_counter(&counters);
            }
        },
    );
}
